(* C13 — the serial model's fuel always suffices when the clock never runs backwards
   (every event has dt >= 0); with Proofs.sock lemmas this excludes [RFuel] for all three kinds. *)
From Coq Require Import List ZArith NArith Bool Lia ZifyBool ZifyNat ZifyN.
Require Import QV.C13.Model QV.C13.Proofs QV.C13.ProofsSerial QV.C13.ProofsRun.
Import ListNotations.
Ltac Zify.zify_post_hook ::= Z.to_euclidean_division_equations.

Definition dtok (o : list ev) : Prop := Forall ev_dt_ok o.

(* bytes in the port buffer or still to come *)
Definition psz (s : st) : nat := length (pend s) + length (stream_of (orc s)).

(* how many more silent 40-tick reads fit before the deadline ts + t *)
Definition tleft (ts t : Z) (s : st) : nat := Z.to_nat ((Z.max 0 (ts + t - clk s) + 39) / 40).

Definition tpart (tmo : option Z) (ts : Z) (s : st) : nat :=
  match tmo with Some t => tleft ts t s | None => 0 end.

Lemma take_drop_len k (l : list N) : length (take k l) + length (drop k l) = length l.
Proof. rewrite <- (take_drop k l) at 3. now rewrite app_length. Qed.

Lemma ser_arrive_meas s :
  dtok (orc s) ->
  dtok (orc (ser_arrive s)) /\ (clk s <= clk (ser_arrive s))%Z /\
  psz (ser_arrive s) = psz s /\
  (orc s <> [] -> S (length (orc (ser_arrive s))) = length (orc s)) /\
  (orc s = [] -> ser_arrive s = s).
Proof.
  unfold ser_arrive, psz, dtok. destruct s as [o b p oc ck dl]; sim. intros D.
  destruct oc as [|[bs dt|dt|] r]; sim; cbn [stream_of length].
  - repeat split; auto; try lia. congruence.
  - inversion D; subst. cbn [ev_dt_ok] in *. repeat split; auto; try lia; try discriminate.
    rewrite !app_length. lia.
  - inversion D; subst. cbn [ev_dt_ok] in *. repeat split; auto; try lia; discriminate.
  - inversion D; subst. repeat split; auto; try lia; discriminate.
Qed.

Lemma ser_read_meas k s s' b sil :
  dtok (orc s) -> ser_read k s = (s', b, sil) ->
  dtok (orc s') /\ (clk s <= clk s')%Z /\ psz s' + length b = psz s /\
  (orc s <> [] -> S (length (orc s')) = length (orc s) /\ sil = false) /\
  (orc s = [] -> orc s' = [] /\
     (sil = true -> clk s' = (clk s + ser_tick)%Z) /\
     (sil = false -> clk s' = clk s /\ len b = k)).
Proof.
  intros D H. destruct (ser_arrive_meas s D) as (A1 & A2 & A3 & A4 & A5).
  unfold ser_read in H.
  pose proof (take_drop_len k (pend (ser_arrive s))) as TD.
  destruct (orc s) as [|e r] eqn:Eo.
  - rewrite (A5 eq_refl) in *. destruct (len (pend s) <? k)%N eqn:Ek; inversion H; subst; sim;
      unfold psz in *; sim; rewrite Eo in *; cbn [stream_of length] in *.
    + repeat split; auto; try lia; try congruence. unfold ser_tick. lia.
    + repeat split; auto; try lia; try congruence. apply len_take. lia.
  - inversion H; subst; sim. unfold psz in *; sim. repeat split; auto; try lia; try congruence.
Qed.

Lemma ser_in_waiting_meas s s' w :
  dtok (orc s) -> ser_in_waiting s = (s', w) ->
  dtok (orc s') /\ (clk s <= clk s')%Z /\ psz s' = psz s /\ length (orc s') <= length (orc s).
Proof.
  intros D H. destruct (ser_arrive_meas s D) as (A1 & A2 & A3 & A4 & A5).
  unfold ser_in_waiting in H. inversion H; subst; sim. unfold psz in *; sim. repeat split; auto.
  destruct (orc s) eqn:E; [rewrite (A5 eq_refl), E; lia | specialize (A4 ltac:(discriminate)); cbn [length] in *; lia].
Qed.

Lemma tleft_mono ts t s s' : (clk s <= clk s')%Z -> tleft ts t s' <= tleft ts t s.
Proof. unfold tleft. lia. Qed.

Lemma tleft_tick ts t s s' :
  clk s' = (clk s + ser_tick)%Z -> (0 < ts + t - clk s)%Z -> S (tleft ts t s') = tleft ts t s.
Proof. unfold tleft, ser_tick. lia. Qed.

(* ---- read loop ------------------------------------------------------------------------------ *)

Lemma ser_read_loop_dtok : forall fuel n tmo ts s s' r,
  dtok (orc s) -> ser_read_loop fuel n tmo ts s = (s', r) -> dtok (orc s').
Proof.
  induction fuel as [|f IH]; intros n tmo ts s s' r D H; cbn [ser_read_loop] in H.
  - inversion H; subst. exact D.
  - destruct (ser_read (n - len (buf s)) s) as [[s1 b] sil] eqn:Er.
    pose proof (ser_read_meas _ _ _ _ _ D Er) as (M1 & _).
    destruct (n <=? len (buf (set_buf s1 (buf s1 ++ b))))%N; [inversion H; subst; exact M1|].
    destruct tmo as [t|].
    + destruct (ts + t - clk (set_buf s1 (buf s1 ++ b)) <=? 0)%Z; [inversion H; subst; exact M1|].
      apply IH in H; [exact H | exact M1].
    + destruct sil; [inversion H; subst; exact M1|]. apply IH in H; [exact H | exact M1].
Qed.

Lemma ser_read_loop_fuel : forall fuel n tmo ts s s' r,
  dtok (orc s) -> ser_read_loop fuel n tmo ts s = (s', r) ->
  length (orc s) + tpart tmo ts s < fuel -> r <> RFuel.
Proof.
  induction fuel as [|f IH]; intros n tmo ts s s' r D H L; [lia|]. cbn [ser_read_loop] in H.
  destruct (ser_read (n - len (buf s)) s) as [[s1 b] sil] eqn:Er.
  pose proof (ser_read_meas _ _ _ _ _ D Er) as (M1 & M2 & M3 & M4 & M5).
  apply ser_read_spec in Er as (_ & Eb & _ & _ & _).
  destruct (n <=? len (buf (set_buf s1 (buf s1 ++ b))))%N eqn:En; [inversion H; subst; discriminate|].
  sim.
  assert (REC : length (orc s1) + tpart tmo ts s1 < f ->
                ser_read_loop f n tmo ts (set_buf s1 (buf s1 ++ b)) = (s', r) -> r <> RFuel).
  { intros L' HH. eapply IH; [| exact HH |]; sim; [exact M1|]. unfold tpart, tleft in *; sim; exact L'. }
  destruct (orc s) as [|e o'] eqn:Eo.
  - destruct (M5 eq_refl) as (O1 & S1 & S2). destruct sil.
    + specialize (S1 eq_refl). destruct tmo as [t|]; [|inversion H; subst; discriminate].
      destruct (ts + t - clk s1 <=? 0)%Z eqn:Et; [inversion H; subst; discriminate|].
      apply REC; [|exact H]. rewrite O1. cbn [length tpart] in *.
      pose proof (tleft_tick ts t s s1 S1 ltac:(unfold ser_tick in *; lia)). lia.
    + destruct (S2 eq_refl) as [_ Lb]. rewrite Eb, len_app in En. lia.
  - destruct (M4 ltac:(discriminate)) as [L1 ->]. cbn [length] in *.
    assert (T : tpart tmo ts s1 <= tpart tmo ts s)
      by (destruct tmo; cbn [tpart]; [apply tleft_mono, M2 | lia]).
    destruct tmo as [t|].
    + destruct (ts + t - clk s1 <=? 0)%Z; [inversion H; subst; discriminate|]. apply REC; [lia | exact H].
    + apply REC; [lia | exact H].
Qed.
