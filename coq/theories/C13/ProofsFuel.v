(* C13 — the serial model's fuel always suffices when the clock never runs backwards
   (every event has dt >= 0); with Proofs.sock lemmas this excludes [RFuel] for all three kinds. *)
From Coq Require Import List ZArith NArith Bool Lia ZifyBool ZifyNat ZifyN.
Require Import QV.C13.Model QV.C13.Proofs QV.C13.ProofsSerial QV.C13.ProofsRun.
Import ListNotations.
Ltac Zify.zify_post_hook ::= Z.to_euclidean_division_equations.

Definition dtok (o : list ev) : Prop := Forall ev_dt_ok o.

(* bytes in the port buffer or still to come *)
Definition psz (s : st) : nat := length (pend s) + length (stream_of (orc s)).

(* how many more silent 40-tick reads fit before the deadline ts + t *)
Definition tleft (ts t : Z) (s : st) : nat := Z.to_nat ((Z.max 0 (ts + t - clk s) + 39) / 40).

Definition tpart (tmo : option Z) (ts : Z) (s : st) : nat :=
  match tmo with Some t => tleft ts t s | None => 0 end.

Lemma take_drop_len k (l : list N) : length (take k l) + length (drop k l) = length l.
Proof. rewrite <- (take_drop k l) at 3. now rewrite app_length. Qed.

Lemma ser_arrive_meas s :
  dtok (orc s) ->
  dtok (orc (ser_arrive s)) /\ (clk s <= clk (ser_arrive s))%Z /\
  psz (ser_arrive s) = psz s /\
  (orc s <> [] -> S (length (orc (ser_arrive s))) = length (orc s)) /\
  (orc s = [] -> ser_arrive s = s).
Proof.
  unfold ser_arrive, psz, dtok. destruct s as [o b p oc ck dl]; sim. intros D.
  destruct oc as [|[bs dt|dt|] r]; sim; cbn [stream_of length].
  - repeat split; auto; try lia. congruence.
  - inversion D; subst. cbn [ev_dt_ok] in *. repeat split; auto; try lia; try discriminate.
    rewrite !app_length. lia.
  - inversion D; subst. cbn [ev_dt_ok] in *. repeat split; auto; try lia; discriminate.
  - inversion D; subst. repeat split; auto; try lia; discriminate.
Qed.

Lemma ser_read_meas k s s' b sil :
  dtok (orc s) -> ser_read k s = (s', b, sil) ->
  dtok (orc s') /\ (clk s <= clk s')%Z /\ psz s' + length b = psz s /\
  (orc s <> [] -> S (length (orc s')) = length (orc s) /\ sil = false) /\
  (orc s = [] -> orc s' = [] /\
     (sil = true -> clk s' = (clk s + ser_tick)%Z) /\
     (sil = false -> clk s' = clk s /\ len b = k)).
Proof.
  intros D H. destruct (ser_arrive_meas s D) as (A1 & A2 & A3 & A4 & A5).
  unfold ser_read in H.
  pose proof (take_drop_len k (pend (ser_arrive s))) as TD.
  destruct (orc s) as [|e r] eqn:Eo.
  - rewrite (A5 eq_refl) in *. destruct (len (pend s) <? k)%N eqn:Ek; inversion H; subst; sim;
      unfold psz in *; sim; rewrite Eo in *; cbn [stream_of length] in *.
    + repeat split; auto; try lia; try congruence. unfold ser_tick. lia.
    + repeat split; auto; try lia; try congruence. apply len_take. lia.
  - inversion H; subst; sim. unfold psz in *; sim. repeat split; auto; try lia; try congruence.
Qed.

Lemma ser_in_waiting_meas s s' w :
  dtok (orc s) -> ser_in_waiting s = (s', w) ->
  dtok (orc s') /\ (clk s <= clk s')%Z /\ psz s' = psz s /\ length (orc s') <= length (orc s).
Proof.
  intros D H. destruct (ser_arrive_meas s D) as (A1 & A2 & A3 & A4 & A5).
  unfold ser_in_waiting in H. inversion H; subst; sim. unfold psz in *; sim. repeat split; auto.
  destruct (orc s) eqn:E; [rewrite (A5 eq_refl), E; lia | specialize (A4 ltac:(discriminate)); cbn [length] in *; lia].
Qed.

Lemma tleft_mono ts t s s' : (clk s <= clk s')%Z -> tleft ts t s' <= tleft ts t s.
Proof. unfold tleft. lia. Qed.

Lemma tleft_tick ts t s s' :
  clk s' = (clk s + ser_tick)%Z -> (0 < ts + t - clk s)%Z -> S (tleft ts t s') = tleft ts t s.
Proof. unfold tleft, ser_tick. lia. Qed.

(* ---- read loop ------------------------------------------------------------------------------ *)

Lemma ser_read_loop_dtok : forall fuel n tmo ts s s' r,
  dtok (orc s) -> ser_read_loop fuel n tmo ts s = (s', r) -> dtok (orc s').
Proof.
  induction fuel as [|f IH]; intros n tmo ts s s' r D H; cbn [ser_read_loop] in H.
  - inversion H; subst. exact D.
  - destruct (ser_read (n - len (buf s)) s) as [[s1 b] sil] eqn:Er.
    pose proof (ser_read_meas _ _ _ _ _ D Er) as (M1 & _).
    destruct (n <=? len (buf (set_buf s1 (buf s1 ++ b))))%N; [inversion H; subst; exact M1|].
    destruct tmo as [t|].
    + destruct (ts + t - clk (set_buf s1 (buf s1 ++ b)) <=? 0)%Z; [inversion H; subst; exact M1|].
      apply IH in H; [exact H | exact M1].
    + destruct sil; [inversion H; subst; exact M1|]. apply IH in H; [exact H | exact M1].
Qed.

Lemma ser_read_loop_fuel : forall fuel n tmo ts s s' r,
  dtok (orc s) -> ser_read_loop fuel n tmo ts s = (s', r) ->
  length (orc s) + tpart tmo ts s < fuel -> r <> RFuel.
Proof.
  induction fuel as [|f IH]; intros n tmo ts s s' r D H L; [lia|]. cbn [ser_read_loop] in H.
  destruct (ser_read (n - len (buf s)) s) as [[s1 b] sil] eqn:Er.
  pose proof (ser_read_meas _ _ _ _ _ D Er) as (M1 & M2 & M3 & M4 & M5).
  apply ser_read_spec in Er as (_ & Eb & _ & _ & _).
  destruct (n <=? len (buf (set_buf s1 (buf s1 ++ b))))%N eqn:En; [inversion H; subst; discriminate|].
  sim.
  assert (REC : length (orc s1) + tpart tmo ts s1 < f ->
                ser_read_loop f n tmo ts (set_buf s1 (buf s1 ++ b)) = (s', r) -> r <> RFuel).
  { intros L' HH. eapply IH; [| exact HH |]; sim; [exact M1|]. unfold tpart, tleft in *; sim; exact L'. }
  destruct (orc s) as [|e o'] eqn:Eo.
  - destruct (M5 eq_refl) as (O1 & S1 & S2). destruct sil.
    + specialize (S1 eq_refl). destruct tmo as [t|]; [|inversion H; subst; discriminate].
      destruct (ts + t - clk s1 <=? 0)%Z eqn:Et; [inversion H; subst; discriminate|].
      apply REC; [|exact H]. rewrite O1. cbn [length tpart] in *.
      pose proof (tleft_tick ts t s s1 S1 ltac:(unfold ser_tick in *; lia)). lia.
    + destruct (S2 eq_refl) as [_ Lb]. rewrite Eb, len_app in En. lia.
  - destruct (M4 ltac:(discriminate)) as [L1 ->]. cbn [length] in *.
    assert (T : tpart tmo ts s1 <= tpart tmo ts s)
      by (destruct tmo; cbn [tpart]; [apply tleft_mono, M2 | lia]).
    destruct tmo as [t|].
    + destruct (ts + t - clk s1 <=? 0)%Z; [inversion H; subst; discriminate|]. apply REC; [lia | exact H].
    + apply REC; [lia | exact H].
Qed.

(* ---- read_until loop ------------------------------------------------------------------------ *)

Lemma ser_ru_loop_dtok term : forall fuel tmo ts tr s s' r,
  dtok (orc s) -> ser_ru_loop fuel term tmo ts tr s = (s', r) -> dtok (orc s').
Proof.
  induction fuel as [|f IH]; intros tmo ts tr s s' r D H; cbn [ser_ru_loop] in H.
  - inversion H; subst. exact D.
  - destruct (tmo_nonpos tr); [inversion H; subst; exact D|].
    destruct (ser_read 1 s) as [[s1 b] sil] eqn:Er.
    pose proof (ser_read_meas _ _ _ _ _ D Er) as (M1 & _).
    destruct (endswith (buf (set_buf s1 (buf s1 ++ b))) term); [inversion H; subst; exact M1|].
    destruct tmo as [t|].
    + apply IH in H; [exact H | exact M1].
    + destruct sil; [inversion H; subst; exact M1|]. apply IH in H; [exact H | exact M1].
Qed.

(* [tr] is always the remaining time computed from the clock *)
Definition tr_ok (tmo : option Z) (ts : Z) (tr : option Z) (s : st) : Prop :=
  match tmo with Some t => tr = Some (ts + t - clk s)%Z | None => tr = None end.

Lemma ser_ru_loop_fuel term : forall fuel tmo ts tr s s' r,
  dtok (orc s) -> tr_ok tmo ts tr s -> ser_ru_loop fuel term tmo ts tr s = (s', r) ->
  length (orc s) + psz s + tpart tmo ts s < fuel -> r <> RFuel.
Proof.
  induction fuel as [|f IH]; intros tmo ts tr s s' r D TR H L; [lia|]. cbn [ser_ru_loop] in H.
  destruct (tmo_nonpos tr) eqn:Enp; [inversion H; subst; discriminate|].
  destruct (ser_read 1 s) as [[s1 b] sil] eqn:Er.
  pose proof (ser_read_meas _ _ _ _ _ D Er) as (M1 & M2 & M3 & M4 & M5).
  destruct (endswith (buf (set_buf s1 (buf s1 ++ b))) term); [inversion H; subst; discriminate|].
  sim.
  assert (REC : forall tr', tr_ok tmo ts tr' s1 ->
                length (orc s1) + psz s1 + tpart tmo ts s1 < f ->
                ser_ru_loop f term tmo ts tr' (set_buf s1 (buf s1 ++ b)) = (s', r) -> r <> RFuel).
  { intros tr' T' L' HH. eapply IH; [| | exact HH |]; sim; [exact M1 | | ].
    - unfold tr_ok in *. sim. exact T'.
    - unfold tpart, tleft, psz in *; sim; exact L'. }
  assert (T : tpart tmo ts s1 <= tpart tmo ts s)
    by (destruct tmo; cbn [tpart]; [apply tleft_mono, M2 | lia]).
  destruct (orc s) as [|e o'] eqn:Eo.
  - destruct (M5 eq_refl) as (O1 & S1 & S2). rewrite O1 in *. cbn [length] in *. destruct sil.
    + specialize (S1 eq_refl). destruct tmo as [t|]; [|inversion H; subst; discriminate].
      unfold tr_ok in TR. subst tr. cbn [tmo_nonpos] in Enp.
      eapply REC; [reflexivity | | exact H]. cbn [tpart] in *.
      pose proof (tleft_tick ts t s s1 S1 ltac:(lia)). lia.
    + destruct (S2 eq_refl) as [_ Lb]. assert (length b = 1) by (unfold len in Lb; lia).
      destruct tmo as [t|]; eapply REC; try exact H; try reflexivity; lia.
  - destruct (M4 ltac:(discriminate)) as [L1 ->]. cbn [length] in *.
    destruct tmo as [t|]; eapply REC; try exact H; try reflexivity; lia.
Qed.

(* ---- operations ----------------------------------------------------------------------------- *)

Lemma ser_fuel_bound tmo s ts :
  ts = clk s -> tmo_nonpos tmo = false \/ True ->
  length (orc s) + psz s + tpart tmo ts s < ser_fuel tmo s.
Proof.
  intros -> _. unfold ser_fuel, psz, tpart, tleft, ser_tick. destruct tmo as [t|]; lia.
Qed.

Lemma ser_read_op_total n tmo s s' r :
  dtok (orc s) -> ser_read_op n tmo s = (s', r) -> dtok (orc s') /\ r <> RFuel.
Proof.
  unfold ser_read_op. intros D H. destruct (negb (is_open s)); [inversion H; subst; split; [exact D | discriminate]|].
  destruct (n <=? len (buf s))%N; [inversion H; subst; sim; split; [exact D | discriminate]|].
  destruct (tmo_nonpos tmo).
  - destruct (ser_in_waiting s) as [s1 w] eqn:Ew.
    pose proof (ser_in_waiting_meas _ _ _ D Ew) as (W1 & _).
    destruct (n - len (buf s) <=? w)%N; [|inversion H; subst; split; [exact W1 | discriminate]].
    destruct (ser_read (n - len (buf s)) s1) as [[s2 b] sil] eqn:Er.
    pose proof (ser_read_meas _ _ _ _ _ W1 Er) as (M1 & _).
    destruct (len (buf (set_buf s2 (buf s2 ++ b))) <? n)%N; inversion H; subst; sim; split; auto; discriminate.
  - split; [eapply ser_read_loop_dtok; eauto|].
    eapply ser_read_loop_fuel; [exact D | exact H |].
    pose proof (ser_fuel_bound tmo s (clk s) eq_refl (or_intror I)). unfold psz in *. lia.
Qed.

Lemma ser_read_until_total term tmo s s' r :
  dtok (orc s) -> ser_read_until term tmo s = (s', r) -> dtok (orc s') /\ r <> RFuel.
Proof.
  unfold ser_read_until. intros D H.
  destruct (negb (is_open s)); [inversion H; subst; split; [exact D | discriminate]|].
  set (s1 := match find term (buf s) with
             | Some _ => s
             | None => let '(sa, w) := ser_in_waiting s in
                       let '(sb, b, _) := ser_read w sa in set_buf sb (buf sb ++ b)
             end) in *.
  assert (D1 : dtok (orc s1)).
  { subst s1. destruct (find term (buf s)); [exact D|].
    destruct (ser_in_waiting s) as [sa w] eqn:Ew.
    pose proof (ser_in_waiting_meas _ _ _ D Ew) as (W1 & _).
    destruct (ser_read w sa) as [[sb b] sil] eqn:Er.
    pose proof (ser_read_meas _ _ _ _ _ W1 Er) as (M1 & _). exact M1. }
  destruct (cut_term term s1) as [[sc rc]|] eqn:Ec.
  - inversion H; subst sc rc. apply cut_term_Some in Ec as (bb & rest & -> & _ & _ & ->). sim.
    split; [exact D1 | discriminate].
  - split; [eapply ser_ru_loop_dtok; eauto|].
    eapply ser_ru_loop_fuel; [exact D1 | | exact H | apply ser_fuel_bound; auto].
    unfold tr_ok. destruct tmo; [f_equal; lia | reflexivity].
Qed.

Lemma serial_step_total s o s' x :
  dtok (orc s) -> step Serial s o = (s', x) -> dtok (orc s') /\ o_res x <> RFuel.
Proof.
  intros D H. apply step_unfold in H as [H _].
  destruct o as [| |n t|tm t|n t| |wd]; cbn [step_raw] in H; unfold nodrop in H.
  - unfold ser_open in H. destruct (is_open s); inversion H; subst; sim; split; auto; congruence.
  - unfold do_close in H. destruct (is_open s); inversion H; subst; sim; split; auto; congruence.
  - destruct (ser_read_op n t s) as [s1 r1] eqn:E. inversion H; subst. eapply ser_read_op_total; eauto.
  - destruct (ser_read_until tm t s) as [s1 r1] eqn:E. inversion H; subst. eapply ser_read_until_total; eauto.
  - unfold ser_rut in H. destruct (ser_read_op n t s) as [s1 r1] eqn:E.
    apply ser_read_op_total in E as [E1 E2]; [|exact D].
    destruct r1; inversion H; subst; sim; split; auto; congruence.
  - unfold ser_discard in H. destruct (ser_arrive_meas s D) as (A1 & _).
    destruct (is_open s); inversion H; subst; sim; split; auto; congruence.
  - unfold ser_write in H. destruct (is_open s); inversion H; subst; sim; split; auto; congruence.
Qed.

(* all three kinds, whole runs: the out-of-fuel outcome never arises *)
Definition kok (k : kind) (s : st) : Prop :=
  match k with Sock _ => kwf k s | Serial => dtok (orc s) end.

Lemma step_total k s o s' x : kok k s -> step k s o = (s', x) -> kok k s' /\ o_res x <> RFuel.
Proof.
  destruct k as [c|]; cbn [kok]; intros W H.
  - pose proof (step_conservation _ _ _ _ _ W H) as [_ W']. split; [exact W'|].
    destruct W as [W P]. apply (sock_no_fuel c s o s' x W P H).
  - apply (serial_step_total s o s' x W H).
Qed.

Lemma run_total k : forall ops s s' outs,
  kok k s -> run k s ops = (s', outs) -> Forall (fun x => o_res x <> RFuel) outs /\ kok k s'.
Proof.
  induction ops as [|o ops IH]; intros s s' outs W H; cbn [run] in H.
  - inversion H; subst. split; [constructor | exact W].
  - destruct (step k s o) as [s1 x] eqn:E. destruct (step_total _ _ _ _ _ W E) as [E1 E2].
    destruct (stops (o_res x)).
    + inversion H; subst. split; [repeat constructor; exact E2 | exact E1].
    + destruct (run k s1 ops) as [s2 xs] eqn:R. inversion H; subst.
      apply IH in R as [R1 R2]; [|exact E1]. split; [constructor; assumption | exact R2].
Qed.

Lemma run_total_init k o t0 ops s' outs :
  (forall c, k = Sock c -> wf c o) -> (k = Serial -> Forall ev_dt_ok o) ->
  run k (init o t0) ops = (s', outs) -> Forall (fun x => o_res x <> RFuel) outs.
Proof.
  intros W D H. apply run_total in H as [H _]; [exact H|].
  destruct k as [c|]; cbn [kok]; [apply init_kwf_sock, W; reflexivity | apply D; reflexivity].
Qed.
