(* C13 — the serial model's fuel always suffices when the clock never runs backwards
   (every event has dt >= 0); with Proofs.sock lemmas this excludes [RFuel] for all three kinds. *)
From Coq Require Import List ZArith NArith Bool Lia ZifyBool ZifyNat ZifyN.
Require Import QV.C13.Model QV.C13.Proofs QV.C13.ProofsSerial QV.C13.ProofsRun.
Import ListNotations.
Ltac Zify.zify_post_hook ::= Z.to_euclidean_division_equations.

Definition dtok (o : list ev) : Prop := Forall ev_dt_ok o.

(* bytes in the port buffer or still to come *)
Definition psz (s : st) : nat := length (pend s) + length (stream_of (orc s)).

(* ticks left before the deadline ts + t, plus one (a silent read lasts at least one tick) *)
Definition tleft (ts t : Z) (s : st) : nat := Z.to_nat (Z.max 0 (ts + t - clk s + 1)).

Definition tpart (tmo : option Z) (ts : Z) (s : st) : nat :=
  match tmo with Some t => tleft ts t s | None => 0 end.

Lemma take_drop_len k (l : list N) : length (take k l) + length (drop k l) = length l.
Proof. rewrite <- (take_drop k l) at 3. now rewrite app_length. Qed.

Lemma ser_arrive_meas s :
  dtok (orc s) ->
  dtok (orc (ser_arrive s)) /\ (clk s <= clk (ser_arrive s))%Z /\
  psz (ser_arrive s) = psz s /\
  (orc s <> [] -> S (length (orc (ser_arrive s))) = length (orc s)) /\
  (orc s = [] -> ser_arrive s = s).
Proof.
  unfold ser_arrive, psz, dtok. destruct s as [o b p oc ck dl]; sim. intros D.
  destruct oc as [|[bs dt|dt|] r]; sim; cbn [stream_of length].
  - repeat split; auto; try lia. congruence.
  - inversion D; subst. cbn [ev_dt_ok] in *. repeat split; auto; try lia; try discriminate.
    rewrite !app_length. lia.
  - inversion D; subst. cbn [ev_dt_ok] in *. repeat split; auto; try lia; discriminate.
  - inversion D; subst. repeat split; auto; try lia; discriminate.
Qed.

Lemma ser_read_meas tk k s s' b sil :
  dtok (orc s) -> ser_read tk k s = (s', b, sil) ->
  dtok (orc s') /\ ((0 <= tk)%Z -> (clk s <= clk s')%Z) /\ psz s' + length b = psz s /\
  (orc s <> [] -> S (length (orc s')) = length (orc s) /\ sil = false) /\
  (orc s = [] -> orc s' = [] /\
     (sil = true -> clk s' = (clk s + tk)%Z) /\
     (sil = false -> clk s' = clk s /\ len b = k)).
Proof.
  intros D H. destruct (ser_arrive_meas s D) as (A1 & A2 & A3 & A4 & A5).
  unfold ser_read in H.
  pose proof (take_drop_len k (pend (ser_arrive s))) as TD.
  destruct (orc s) as [|e r] eqn:Eo.
  - rewrite (A5 eq_refl) in *. destruct (len (pend s) <? k)%N eqn:Ek; inversion H; subst; sim;
      unfold psz in *; sim; rewrite Eo in *; cbn [stream_of length] in *.
    + repeat split; auto; try lia; try congruence.
    + repeat split; auto; try lia; try congruence. apply len_take. lia.
  - inversion H; subst; sim. unfold psz in *; sim. repeat split; auto; try lia; try congruence.
Qed.

Lemma ser_in_waiting_meas s s' w :
  dtok (orc s) -> ser_in_waiting s = (s', w) ->
  dtok (orc s') /\ (clk s <= clk s')%Z /\ psz s' = psz s /\ length (orc s') <= length (orc s).
Proof.
  intros D H. destruct (ser_arrive_meas s D) as (A1 & A2 & A3 & A4 & A5).
  unfold ser_in_waiting in H. inversion H; subst; sim. unfold psz in *; sim. repeat split; auto.
  destruct (orc s) eqn:E; [rewrite (A5 eq_refl), E; lia | specialize (A4 ltac:(discriminate)); cbn [length] in *; lia].
Qed.

Lemma tleft_mono ts t s s' : (clk s <= clk s')%Z -> tleft ts t s' <= tleft ts t s.
Proof. unfold tleft. lia. Qed.

Lemma tleft_tick ts t tk s s' :
  clk s' = (clk s + tk)%Z -> (0 < tk)%Z -> (0 <= ts + t - clk s')%Z -> S (tleft ts t s') <= tleft ts t s.
Proof. unfold tleft. lia. Qed.

Lemma deadline_left p t ts now tr : deadline p (Some t) ts now = DlLeft tr -> (0 <= ts + t - now)%Z.
Proof.
  unfold deadline, passed. destruct p.
  - destruct (ts + t - now <=? 0)%Z eqn:E; [discriminate | lia].
  - destruct (ts + t - now <? 0)%Z eqn:E; [discriminate | lia].
Qed.

(* ---- read loop ------------------------------------------------------------------------------ *)

Lemma ser_read_loop_dtok sc : forall fuel n tmo ts s s' r,
  dtok (orc s) -> ser_read_loop sc fuel n tmo ts s = (s', r) -> dtok (orc s').
Proof.
  induction fuel as [|f IH]; intros n tmo ts s s' r D H; cbn [ser_read_loop] in H.
  - inversion H; subst. exact D.
  - destruct (ser_read (tick sc) (n - len (buf s)) s) as [[s1 b] sil] eqn:Er.
    pose proof (ser_read_meas _ _ _ _ _ _ D Er) as (M1 & _).
    destruct (n <=? len (buf (set_buf s1 (buf s1 ++ b))))%N.
    { destruct (deadline _ tmo ts (clk (set_buf s1 (buf s1 ++ b))));
        try destruct (late_read (spol sc)); inversion H; subst; exact M1. }
    destruct (deadline _ tmo ts (clk (set_buf s1 (buf s1 ++ b)))).
    + destruct sil; [inversion H; subst; exact M1|]. apply IH in H; [exact H | exact M1].
    + inversion H; subst; exact M1.
    + apply IH in H; [exact H | exact M1].
Qed.

Lemma ser_read_loop_fuel sc : forall fuel n tmo ts s s' r,
  (0 < tick sc)%Z -> dtok (orc s) -> ser_read_loop sc fuel n tmo ts s = (s', r) ->
  length (orc s) + tpart tmo ts s < fuel -> r <> RFuel.
Proof.
  induction fuel as [|f IH]; intros n tmo ts s s' r TK D H L; [lia|]. cbn [ser_read_loop] in H.
  destruct (ser_read (tick sc) (n - len (buf s)) s) as [[s1 b] sil] eqn:Er.
  pose proof (ser_read_meas _ _ _ _ _ _ D Er) as (M1 & M2 & M3 & M4 & M5). specialize (M2 ltac:(lia)).
  apply ser_read_spec in Er as (_ & Eb & _ & _ & _).
  destruct (n <=? len (buf (set_buf s1 (buf s1 ++ b))))%N eqn:En.
  { destruct (deadline _ tmo ts (clk (set_buf s1 (buf s1 ++ b))));
      try destruct (late_read (spol sc)); inversion H; subst; discriminate. }
  sim.
  assert (REC : length (orc s1) + tpart tmo ts s1 < f ->
                ser_read_loop sc f n tmo ts (set_buf s1 (buf s1 ++ b)) = (s', r) -> r <> RFuel).
  { intros L' HH. eapply IH; [exact TK | | exact HH |]; sim; [exact M1|]. unfold tpart, tleft in *; sim; exact L'. }
  destruct (deadline _ tmo ts (clk s1)) as [| |tr] eqn:Edl; [| inversion H; subst; discriminate |].
  - (* no timeout *)
    assert (tmo = None) as -> by (destruct tmo; [cbn in Edl; destruct (passed _ _) in Edl; discriminate | reflexivity]).
    cbn [tpart] in *. destruct (orc s) as [|e o'] eqn:Eo.
    + destruct (M5 eq_refl) as (O1 & S1 & S2). destruct sil; [inversion H; subst; discriminate|].
      destruct (S2 eq_refl) as [_ Lb]. rewrite Eb, len_app in En. lia.
    + destruct (M4 ltac:(discriminate)) as [L1 ->]. cbn [length] in *. apply REC; [lia | exact H].
  - destruct tmo as [t|]; [|discriminate]. cbn [tpart] in *.
    pose proof (deadline_left _ _ _ _ _ Edl) as Dl.
    destruct (orc s) as [|e o'] eqn:Eo.
    + destruct (M5 eq_refl) as (O1 & S1 & S2). destruct sil.
      * specialize (S1 eq_refl). apply REC; [|exact H]. rewrite O1. cbn [length].
        pose proof (tleft_tick ts t (tick sc) s s1 S1 TK Dl). lia.
      * destruct (S2 eq_refl) as [_ Lb]. rewrite Eb, len_app in En. lia.
    + destruct (M4 ltac:(discriminate)) as [L1 _]. cbn [length] in *.
      pose proof (tleft_mono ts t s s1 M2). apply REC; [lia | exact H].
Qed.

(* ---- read_until loop ------------------------------------------------------------------------ *)

Lemma ser_ru_loop_dtok sc term : forall fuel tmo ts tr s s' r,
  dtok (orc s) -> ser_ru_loop sc fuel term tmo ts tr s = (s', r) -> dtok (orc s').
Proof.
  induction fuel as [|f IH]; intros tmo ts tr s s' r D H; cbn [ser_ru_loop] in H.
  - inversion H; subst. exact D.
  - destruct (tr_passed _ tr); [inversion H; subst; exact D|].
    destruct (ser_read (tick sc) 1 s) as [[s1 b] sil] eqn:Er.
    pose proof (ser_read_meas _ _ _ _ _ _ D Er) as (M1 & _).
    destruct (endswith (buf (set_buf s1 (buf s1 ++ b))) term).
    { destruct (deadline _ tmo ts (clk (set_buf s1 (buf s1 ++ b))));
        try destruct (late_ru (spol sc)); inversion H; subst; exact M1. }
    destruct tmo as [t|].
    + apply IH in H; [exact H | exact M1].
    + destruct sil; [inversion H; subst; exact M1|]. apply IH in H; [exact H | exact M1].
Qed.

(* [tr] is always the remaining time computed from the clock *)
Definition tr_ok (tmo : option Z) (ts : Z) (tr : option Z) (s : st) : Prop :=
  match tmo with Some t => tr = Some (ts + t - clk s)%Z | None => tr = None end.

Lemma passed_false p x : passed p x = false -> (0 <= x)%Z.
Proof. unfold passed. destruct p; lia. Qed.

Lemma ser_ru_loop_fuel sc term : forall fuel tmo ts tr s s' r,
  (0 < tick sc)%Z -> dtok (orc s) -> tr_ok tmo ts tr s -> ser_ru_loop sc fuel term tmo ts tr s = (s', r) ->
  length (orc s) + psz s + tpart tmo ts s < fuel -> r <> RFuel.
Proof.
  induction fuel as [|f IH]; intros tmo ts tr s s' r TK D TR H L; [lia|]. cbn [ser_ru_loop] in H.
  destruct (tr_passed _ tr) eqn:Enp; [inversion H; subst; discriminate|].
  destruct (ser_read (tick sc) 1 s) as [[s1 b] sil] eqn:Er.
  pose proof (ser_read_meas _ _ _ _ _ _ D Er) as (M1 & M2 & M3 & M4 & M5). specialize (M2 ltac:(lia)).
  destruct (endswith (buf (set_buf s1 (buf s1 ++ b))) term).
  { destruct (deadline _ tmo ts (clk (set_buf s1 (buf s1 ++ b))));
      try destruct (late_ru (spol sc)); inversion H; subst; discriminate. }
  sim.
  assert (REC : forall tr', tr_ok tmo ts tr' s1 ->
                length (orc s1) + psz s1 + tpart tmo ts s1 < f ->
                ser_ru_loop sc f term tmo ts tr' (set_buf s1 (buf s1 ++ b)) = (s', r) -> r <> RFuel).
  { intros tr' T' L' HH. eapply IH; [exact TK | | | exact HH |]; sim; [exact M1 | | ].
    - unfold tr_ok in *. sim. exact T'.
    - unfold tpart, tleft, psz in *; sim; exact L'. }
  assert (T : tpart tmo ts s1 <= tpart tmo ts s)
    by (destruct tmo; cbn [tpart]; [apply tleft_mono, M2 | lia]).
  destruct (orc s) as [|e o'] eqn:Eo.
  - destruct (M5 eq_refl) as (O1 & S1 & S2). rewrite O1 in *. cbn [length] in *. destruct sil.
    + specialize (S1 eq_refl). destruct tmo as [t|]; [|inversion H; subst; discriminate].
      unfold tr_ok in TR. subst tr. cbn [tr_passed] in Enp. apply passed_false in Enp.
      eapply REC; [reflexivity | | exact H]. cbn [tpart] in *. unfold tleft in *. lia.
    + destruct (S2 eq_refl) as [_ Lb]. assert (length b = 1) by (unfold len in Lb; lia).
      destruct tmo as [t|]; eapply REC; try exact H; try reflexivity; lia.
  - destruct (M4 ltac:(discriminate)) as [L1 ->]. cbn [length] in *.
    destruct tmo as [t|]; eapply REC; try exact H; try reflexivity; lia.
Qed.

(* ---- operations ----------------------------------------------------------------------------- *)

Lemma ser_fuel_bound tmo s ts :
  ts = clk s -> tmo_nonpos tmo = false \/ True ->
  length (orc s) + psz s + tpart tmo ts s < ser_fuel tmo s.
Proof.
  intros -> _. unfold ser_fuel, psz, tpart, tleft. destruct tmo as [t|]; lia.
Qed.

Lemma ser_read_op_total sc n tmo s s' r :
  (0 < tick sc)%Z -> dtok (orc s) -> ser_read_op sc n tmo s = (s', r) -> dtok (orc s') /\ r <> RFuel.
Proof.
  unfold ser_read_op. intros TK D H. destruct (negb (is_open s)); [inversion H; subst; split; [exact D | discriminate]|].
  destruct (n <=? len (buf s))%N; [inversion H; subst; sim; split; [exact D | discriminate]|].
  destruct (tmo_nonpos tmo).
  - destruct (ser_in_waiting s) as [s1 w] eqn:Ew.
    pose proof (ser_in_waiting_meas _ _ _ D Ew) as (W1 & _).
    destruct (n - len (buf s) <=? w)%N; [|inversion H; subst; split; [exact W1 | discriminate]].
    destruct (ser_read (tick sc) (n - len (buf s)) s1) as [[s2 b] sil] eqn:Er.
    pose proof (ser_read_meas _ _ _ _ _ _ W1 Er) as (M1 & _).
    destruct (len (buf (set_buf s2 (buf s2 ++ b))) <? n)%N; inversion H; subst; sim; split; auto; discriminate.
  - split; [eapply ser_read_loop_dtok; eauto|].
    eapply ser_read_loop_fuel; [exact TK | exact D | exact H |].
    pose proof (ser_fuel_bound tmo s (clk s) eq_refl (or_intror I)). unfold psz in *. lia.
Qed.

Lemma ser_read_until_total sc term tmo s s' r :
  (0 < tick sc)%Z -> dtok (orc s) -> ser_read_until sc term tmo s = (s', r) -> dtok (orc s') /\ r <> RFuel.
Proof.
  unfold ser_read_until. intros TK D H.
  destruct (negb (is_open s)).
  { destruct (ru_chk_first (spol sc)); [inversion H; subst; split; [exact D | discriminate]|].
    destruct (cut_term term s) as [[sc0 rc]|] eqn:Ec; [|inversion H; subst; split; [exact D | discriminate]].
    inversion H; subst sc0 rc. apply cut_term_Some in Ec as (bb & rest & -> & _ & _ & ->). sim.
    split; [exact D | discriminate]. }
  set (s1 := match find term (buf s) with
             | Some _ => s
             | None => let '(sa, w) := ser_in_waiting s in
                       let '(sb, b, _) := ser_read (tick sc) w sa in set_buf sb (buf sb ++ b)
             end) in *.
  assert (D1 : dtok (orc s1)).
  { subst s1. destruct (find term (buf s)); [exact D|].
    destruct (ser_in_waiting s) as [sa w] eqn:Ew.
    pose proof (ser_in_waiting_meas _ _ _ D Ew) as (W1 & _).
    destruct (ser_read (tick sc) w sa) as [[sb b] sil] eqn:Er.
    pose proof (ser_read_meas _ _ _ _ _ _ W1 Er) as (M1 & _). exact M1. }
  destruct (cut_term term s1) as [[sc1 rc]|] eqn:Ec.
  - inversion H; subst sc1 rc. apply cut_term_Some in Ec as (bb & rest & -> & _ & _ & ->). sim.
    split; [exact D1 | discriminate].
  - split; [eapply ser_ru_loop_dtok; eauto|].
    eapply ser_ru_loop_fuel; [exact TK | exact D1 | | exact H | apply ser_fuel_bound; auto].
    unfold tr_ok. destruct tmo; [f_equal; lia | reflexivity].
Qed.

Lemma serial_step_total sc s o s' x :
  (0 < tick sc)%Z -> dtok (orc s) -> step (Serial sc) s o = (s', x) -> dtok (orc s') /\ o_res x <> RFuel.
Proof.
  intros TK D H. apply step_unfold in H as [H _].
  destruct o as [| |n t|tm t|n t| |wd]; cbn [step_raw] in H; unfold nodrop in H.
  - unfold ser_open in H. destruct (is_open s); inversion H; subst; sim; split; auto; congruence.
  - unfold do_close in H. destruct (is_open s); inversion H; subst; sim; split; auto; congruence.
  - destruct (ser_read_op sc n t s) as [s1 r1] eqn:E. inversion H; subst. eapply ser_read_op_total; eauto.
  - destruct (ser_read_until sc tm t s) as [s1 r1] eqn:E. inversion H; subst. eapply ser_read_until_total; eauto.
  - unfold ser_rut in H. destruct (ser_read_op sc n t s) as [s1 r1] eqn:E.
    apply ser_read_op_total in E as [E1 E2]; [|exact TK|exact D].
    destruct r1; inversion H; subst; sim; split; auto; congruence.
  - unfold ser_discard in H. destruct (ser_arrive_meas s D) as (A1 & _).
    destruct (is_open s); inversion H; subst; sim; split; auto; congruence.
  - unfold ser_write in H. destruct (is_open s); inversion H; subst; sim; split; auto; congruence.
Qed.

(* all three kinds, whole runs: the out-of-fuel outcome never arises *)
Definition kok (k : kind) (s : st) : Prop :=
  match k with Sock _ => kwf k s | Serial sc => (0 < tick sc)%Z /\ dtok (orc s) end.

Lemma step_total k s o s' x : kok k s -> step k s o = (s', x) -> kok k s' /\ o_res x <> RFuel.
Proof.
  destruct k as [c|sc]; cbn [kok]; intros W H.
  - pose proof (step_conservation _ _ _ _ _ W H) as [_ W']. split; [exact W'|].
    destruct W as [W P]. apply (sock_no_fuel c s o s' x W P H).
  - destruct W as [TK W]. destruct (serial_step_total sc s o s' x TK W H) as [A B]. repeat split; assumption.
Qed.

Lemma run_total k : forall ops s s' outs,
  kok k s -> run k s ops = (s', outs) -> Forall (fun x => o_res x <> RFuel) outs /\ kok k s'.
Proof.
  induction ops as [|o ops IH]; intros s s' outs W H; cbn [run] in H.
  - inversion H; subst. split; [constructor | exact W].
  - destruct (step k s o) as [s1 x] eqn:E. destruct (step_total _ _ _ _ _ W E) as [E1 E2].
    destruct (stops (o_res x)).
    + inversion H; subst. split; [repeat constructor; exact E2 | exact E1].
    + destruct (run k s1 ops) as [s2 xs] eqn:R. inversion H; subst.
      apply IH in R as [R1 R2]; [|exact E1]. split; [constructor; assumption | exact R2].
Qed.

Lemma run_total_init k o t0 ops s' outs :
  (forall c, k = Sock c -> wf c o) -> (forall sc, k = Serial sc -> (0 < tick sc)%Z /\ Forall ev_dt_ok o) ->
  run k (init o t0) ops = (s', outs) -> Forall (fun x => o_res x <> RFuel) outs.
Proof.
  intros W D H. apply run_total in H as [H _]; [exact H|].
  destruct k as [c|sc]; cbn [kok]; [apply init_kwf_sock, W; reflexivity | apply (D sc); reflexivity].
Qed.
