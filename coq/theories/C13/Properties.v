(* C13 — property theorems only.  Each is closed by [exact] of a lemma and followed by Print
   Assumptions.  They are statements about [step] / [run] of Model.v — the very functions the
   correspondence check evaluates against QMI_TcpTransport / QMI_UdpTransport /
   QMI_SerialTransport — for EVERY device oracle (any packetisation, any arrival times), every
   state, every terminator, byte count and timeout, every call sequence (unbounded), and for EVERY
   kind k: every value of the tuning constants (MIN/MAX_PACKET_SIZE, serial poll interval) and every
   policy for the choices the property leaves open (Model.pol).  What the correspondence accepts
   (Model.allowed_step / allowed_outcomes = the behaviour of any policy with the live constants) is
   covered by C13_allowed_step_sound / C13_allowed_outcomes_sound at the end.

   Vocabulary (defined in Proofs.v / ProofsRun.v):
     wf c o        the device is a byte stream (TCP), or every datagram is at most
                   min(MIN_PACKET_SIZE, MAX_PACKET_SIZE) = 4096 bytes (documented UDP bound)
     kwf k s       sockets: wf of the oracle and no serial-port buffer; serial: True
     total s       buf s ++ pend s ++ stream_of (orc s): buffered bytes, bytes waiting in the serial
                   port, bytes the device will still deliver
     consumed x    bytes call x returned ++ bytes it threw away (discard_read, socket open)
     occ t s i     t occurs in s at index i
     shortest t b  b = a ++ t and t occurs in b at index |a| only
     ev_dt_ok e    the event's clock advance dt is >= 0 (time never runs backwards)
     sent s        the byte strings handed to sendall / sendto / Serial.write so far, oldest first
     accepted_writes ops outs   the arguments of the write calls of a run that returned normally *)
Require Import QV.C13.Model QV.C13.Proofs QV.C13.ProofsSerial QV.C13.ProofsRun QV.C13.ProofsFuel
               QV.C13.ProofsWrite QV.C13.ProofsAllowed.

(* Nothing lost, duplicated or reordered: for every oracle and every call sequence, what the calls
   returned or discarded, in call order, followed by the buffer and the not yet delivered bytes, is
   exactly the concatenation of all chunks of the oracle. *)
Theorem C13_conservation : forall k o t0 ops s' outs,
  (forall c, k = Sock c -> wf c o) ->
  run k (init o t0) ops = (s', outs) ->
  concat (map consumed outs) ++ buf s' ++ pend s' ++ stream_of (orc s') = stream_of o.
Proof. exact run_conservation_init. Qed.
Print Assumptions C13_conservation.

(* the same from any state, and the side condition is an invariant *)
Theorem C13_conservation_any_state : forall k ops s s' outs,
  kwf k s -> run k s ops = (s', outs) ->
  concat (map consumed outs) ++ total s' = total s /\ kwf k s'.
Proof. exact run_conservation. Qed.
Print Assumptions C13_conservation_any_state.

(* TCP needs no side condition at all *)
Theorem C13_tcp_always_wf : forall o, wf tcp_cfg o.
Proof. exact (fun o => or_introl eq_refl). Qed.
Print Assumptions C13_tcp_always_wf.

(* only discard_read and open throw bytes away *)
Theorem C13_dropped_only : forall k s o s' x,
  step k s o = (s', x) -> o_dropped x <> [] -> o = OpDiscard \/ o = OpOpen.
Proof. exact dropped_only. Qed.
Print Assumptions C13_dropped_only.

(* read(n) that returns, returns exactly n bytes *)
Theorem C13_read_exact : forall k s n t s' x b,
  kwf k s -> step k s (OpRead n t) = (s', x) -> o_res x = RBytes b -> len b = n.
Proof. exact read_exact. Qed.
Print Assumptions C13_read_exact.

(* read_until returns the shortest data ending with the terminator, for every terminator (any
   length, straddling packets or not) *)
Theorem C13_read_until_shortest : forall k s tm t s' x b,
  kwf k s -> step k s (OpReadUntil tm t) = (s', x) -> o_res x = RBytes b ->
  exists a, b = a ++ tm /\ forall i, occ tm b i -> i = length a.
Proof. exact read_until_shortest. Qed.
Print Assumptions C13_read_until_shortest.

(* a read call that raises (timeout, end of input, ...) consumes nothing: the old buffer is still
   there, followed by whatever was received meanwhile, and nothing was thrown away *)
Theorem C13_timeout_keeps : forall k s o s' x,
  kwf k s -> step k s o = (s', x) ->
  (exists n t, o = OpRead n t) \/ (exists tm t, o = OpReadUntil tm t) \/ (exists n t, o = OpRut n t) ->
  (forall b, o_res x <> RBytes b) ->
  o_dropped x = [] /\
  exists rx, buf s' = buf s ++ rx /\
             rx ++ pend s' ++ stream_of (orc s') = pend s ++ stream_of (orc s).
Proof. exact failed_keeps. Qed.
Print Assumptions C13_timeout_keeps.

(* read_until_timeout(n) returns at most n bytes: serial, TCP (MIN_PACKET_SIZE = 0), and any socket
   transport whose read_until_timeout slices the buffer (the proposed repair) *)
Theorem C13_rut_len : forall k s n t s' x b,
  kwf k s -> step k s (OpRut n t) = (s', x) -> o_res x = RBytes b ->
  match k with Sock c => rut_slice c = true \/ minp c = 0%N | Serial _ => True end ->
  (len b <= n)%N.
Proof. exact rut_len. Qed.
Print Assumptions C13_rut_len.

(* ... and it is FALSE for QMI_UdpTransport as it was before the fix "read_until_timeout never
   returns more than nbytes" (whole buffer handed out): one 10-byte datagram arriving one tick late,
   read_until_timeout(4, 0) returns all 10 bytes.  Kept as the regression witness. *)
Theorem C13_rut_len_udp_refuted :
  exists s n t s' x b,
    kwf (Sock udp_cfg_cur) s /\ step (Sock udp_cfg_cur) s (OpRut n t) = (s', x) /\
    o_res x = RBytes b /\ (n < len b)%N.
Proof. exact rut_len_udp_refuted. Qed.
Print Assumptions C13_rut_len_udp_refuted.

(* A closed transport never touches the device: every call is refused with the state (oracle, clock,
   access log) untouched; the only data a closed transport can still hand out is what read_until
   finds in the buffer (policy ru_chk_first = false; pinned sockets do, pinned serial refuses), again
   without any device access.  open of a closed transport works. *)
Theorem C13_closed : forall k s o s' x,
  is_open s = false -> step k s o = (s', x) ->
  match o with
  | OpOpen => o_res x = RNone /\ is_open s' = true /\ orc s' = orc s /\ clk s' = clk s
  | OpReadUntil tm _ =>
      orc s' = orc s /\ clk s' = clk s /\ pend s' = pend s /\ o_calls x = [] /\
      ((s' = s /\ o_res x = RInvalid) \/
       (exists b, o_res x = RBytes b /\ b ++ buf s' = buf s /\ is_open s' = false))
  | _ => s' = s /\ o_res x = RInvalid /\ o_dropped x = [] /\ o_calls x = []
  end.
Proof. exact closed_step. Qed.
Print Assumptions C13_closed.

(* open is refused on an open transport, nothing changes *)
Theorem C13_open_refused : forall k s,
  is_open s = true -> step k s OpOpen = (s, mkout RInvalid [] []).
Proof. exact open_refused. Qed.
Print Assumptions C13_open_refused.

(* close of an open transport closes it, keeps the data, and closes the device exactly once *)
Theorem C13_close_open : forall k s s' x,
  is_open s = true -> step k s OpClose = (s', x) ->
  o_res x = RNone /\ is_open s' = false /\ buf s' = buf s /\ orc s' = orc s /\ o_calls x = [DClose].
Proof. exact close_open. Qed.
Print Assumptions C13_close_open.

(* the socket model's fuel always suffices, and within the datagram bound no data-loss error
   (QMI_RuntimeException) is ever raised *)
Theorem C13_sock_total : forall c s o s' x,
  wf c (orc s) -> pend s = [] -> step (Sock c) s o = (s', x) ->
  o_res x <> RFuel /\ o_res x <> RRuntime.
Proof. exact sock_no_fuel. Qed.
Print Assumptions C13_sock_total.

(* Serial: when the clock never runs backwards the model's fuel always suffices (and that timing
   condition is an invariant of the oracle) *)
Theorem C13_serial_total : forall sc s o s' x,
  (0 < tick sc)%Z -> Forall ev_dt_ok (orc s) -> step (Serial sc) s o = (s', x) ->
  Forall ev_dt_ok (orc s') /\ o_res x <> RFuel.
Proof. exact serial_step_total. Qed.
Print Assumptions C13_serial_total.

(* All three kinds, whole runs: the out-of-fuel outcome never arises, so every other theorem is a
   statement about real outcomes only *)
Theorem C13_never_out_of_fuel : forall k o t0 ops s' outs,
  (forall c, k = Sock c -> wf c o) ->
  (forall sc, k = Serial sc -> (0 < tick sc)%Z /\ Forall ev_dt_ok o) ->
  run k (init o t0) ops = (s', outs) -> Forall (fun x => o_res x <> RFuel) outs.
Proof. exact run_total_init. Qed.
Print Assumptions C13_never_out_of_fuel.

(* write: a closed transport never writes (no device call at all, nothing changes) *)
Theorem C13_closed_never_writes : forall k s d s' x,
  is_open s = false -> step k s (OpWrite d) = (s', x) ->
  s' = s /\ o_res x = RInvalid /\ o_dropped x = [] /\ o_calls x = [].
Proof. exact (fun k s d s' x => closed_step k s (OpWrite d) s' x). Qed.
Print Assumptions C13_closed_never_writes.

(* write on an open transport is accepted, makes exactly one send call carrying exactly the caller's
   bytes (sockets: after settimeout(None)), and leaves the read side (buffer, port, device, clock)
   untouched *)
Theorem C13_write_open : forall k s d s' x,
  is_open s = true -> step k s (OpWrite d) = (s', x) ->
  o_res x = RNone /\ o_dropped x = [] /\
  o_calls x = [DSend d] /\
  buf s' = buf s /\ pend s' = pend s /\ orc s' = orc s /\ clk s' = clk s /\ is_open s' = true.
Proof. exact write_open. Qed.
Print Assumptions C13_write_open.

(* for every call sequence (reads, discards, open/close interleaved at will): what reached the
   device's send call is exactly the sequence of accepted write arguments, unchanged and in order;
   in particular no other operation ever sends anything *)
Theorem C13_write_reaches_device : forall k o t0 ops s' outs,
  run k (init o t0) ops = (s', outs) -> sent s' = accepted_writes ops outs.
Proof. exact run_sent_init. Qed.
Print Assumptions C13_write_reaches_device.

(* discard_read never resurrects: the bytes a call returns are the stream bytes at the offset right
   after everything earlier calls returned OR discarded, so a discarded byte (its position is
   before that offset) is never part of a later result *)
Theorem C13_no_resurrection : forall k o t0 ops s' pre x post,
  (forall c, k = Sock c -> wf c o) ->
  run k (init o t0) ops = (s', pre ++ x :: post) ->
  firstn (length (returned x)) (skipn (length (concat (map consumed pre))) (stream_of o)) = returned x.
Proof. exact result_position. Qed.
Print Assumptions C13_no_resurrection.

(* ---- what the correspondence accepts ------------------------------------------------------- *)

(* the accepted behaviours include the pinned one and range over ALL 64 policies *)
Theorem C13_allowed_contains_pinned : forall k s ops, allowed_outcomes k s ops (run k s ops).
Proof. exact allowed_outcomes_pinned. Qed.
Print Assumptions C13_allowed_contains_pinned.

Theorem C13_allowed_every_policy : forall k p, In (with_pol k p) (variants k).
Proof. exact variants_with_pol. Qed.
Print Assumptions C13_allowed_every_policy.

(* every accepted outcome of one call satisfies every per-call clause of C13 (c13_clauses:
   conservation, exactly n bytes, shortest terminated data, a failed call consumes nothing,
   read_until_timeout <= n, closed transport untouched, only write sends and exactly its bytes, no
   data-loss error) *)
Theorem C13_allowed_step_sound : forall k s o r,
  kwf k s -> allowed_step k s o r -> c13_clauses k s o r.
Proof. exact allowed_step_sound. Qed.
Print Assumptions C13_allowed_step_sound.

(* every accepted outcome of a whole run conserves the stream and the written data *)
Theorem C13_allowed_outcomes_sound : forall k s ops s' outs,
  kwf k s -> allowed_outcomes k s ops (s', outs) ->
  concat (map consumed outs) ++ total s' = total s /\
  sent s' = sent s ++ accepted_writes ops outs.
Proof. exact allowed_outcomes_sound. Qed.
Print Assumptions C13_allowed_outcomes_sound.

(* ------------------------------------------------------------------------------------------ *)
(* Non-vacuity: concrete runs in which the hypotheses hold and the interesting paths are taken. *)
(* ------------------------------------------------------------------------------------------ *)

(* the UDP side condition is satisfiable by a non-trivial oracle *)
Example C13_ex_wf_udp : wf udp_cfg [Chunk [65;13]%N 0; TimeoutEv 5; Chunk [10;66;13;10]%N 3].
Proof. right. repeat constructor; vm_compute; discriminate. Qed.

(* terminator "\r\n" straddling two TCP packets; leftover kept for the next call; then a timeout
   that consumes nothing; then close and a refused read *)
Example C13_ex_tcp :
  map (fun x => (o_res x, o_dropped x))
      (snd (run (Sock tcp_cfg) (init [Chunk [65;13]%N 0; Chunk [10;66;13;10;67]%N 3] 0)
                [OpOpen; OpReadUntil [13;10]%N (Some 5%Z); OpReadUntil [13;10]%N (Some 5%Z);
                 OpRead 2 (Some 7%Z); OpRut 2 (Some 0%Z); OpClose; OpRead 1 None]))
  = [(RNone, []); (RBytes [65;13;10]%N, []); (RBytes [66;13;10]%N, []); (RTimeout, []);
     (RBytes [67]%N, []); (RNone, []); (RInvalid, [])].
Proof. vm_compute. reflexivity. Qed.

(* serial: same stream, the terminator is completed by the one-byte read loop *)
Example C13_ex_serial :
  map (fun x => (o_res x, o_calls x))
      (snd (run (Serial ser_cfg) (init [Chunk [65;13]%N 0; Chunk [10;66;13;10]%N 3] 0)
                [OpOpen; OpReadUntil [13;10]%N (Some 100%Z); OpDiscard]))
  = [(RNone, [DOpen]); (RBytes [65;13;10]%N, [DInWaiting; DRead 2; DRead 1]); (RNone, [DReset])].
Proof. vm_compute. reflexivity. Qed.

(* conservation on the TCP example: returned/discarded ++ buffer ++ undelivered = whole stream *)
Example C13_ex_conservation :
  let '(s', outs) := run (Sock tcp_cfg) (init [Chunk [65;13]%N 0; Chunk [10;66;13;10;67]%N 3] 0)
                         [OpOpen; OpReadUntil [13;10]%N (Some 5%Z); OpRead 9 (Some 1%Z)] in
  (concat (map consumed outs), buf s', stream_of (orc s')) = ([65;13;10]%N, [66;13;10;67]%N, []).
Proof. vm_compute. reflexivity. Qed.

(* with the sliced read_until_timeout the UDP witness returns 4 bytes and keeps the other 6 *)
Example C13_ex_udp_fixed :
  let '(s', outs) := run (Sock udp_cfg) (init [Chunk [65;66;67;68;69;70;71;72;73;74]%N 1] 0)
                         [OpOpen; OpRut 4 (Some 0%Z)] in
  (map o_res outs, buf s') = ([RNone; RBytes [65;66;67;68]%N], [69;70;71;72;73;74]%N).
Proof. vm_compute. reflexivity. Qed.

(* writes interleaved with reads and a discard; the write on the closed transport is refused and
   does not reach the device *)
Example C13_ex_write :
  let '(s', outs) := run (Sock tcp_cfg) (init [Chunk [65;66;67]%N 0] 0)
       [OpWrite [1]%N; OpOpen; OpWrite [2;3]%N; OpRead 1 (Some 5%Z); OpDiscard; OpWrite []; OpClose;
        OpWrite [4]%N] in
  (sent s', map o_res outs, concat (map consumed outs)) =
  ([[2;3]%N; []], [RInvalid; RNone; RNone; RBytes [65]%N; RNone; RNone; RNone; RInvalid], [65;66;67]%N).
Proof. vm_compute. reflexivity. Qed.

(* discard between two reads: the second read gets the bytes after the discarded ones *)
Example C13_ex_discard :
  map (fun x => (o_res x, o_dropped x))
      (snd (run (Serial ser_cfg) (init [Chunk [65;66;67]%N 0; Chunk [68;69]%N 0; Chunk [70]%N 0] 0)
                [OpOpen; OpRead 1 (Some 50%Z); OpDiscard; OpRead 1 (Some 50%Z)]))
  = [(RNone, []); (RBytes [65]%N, []); (RNone, [66;67;68;69]%N); (RBytes [70]%N, [])].
Proof. vm_compute. reflexivity. Qed.

Example C13_ex_dt_ok : Forall ev_dt_ok [Chunk [65]%N 0; TimeoutEv 40; Chunk [66]%N 3; Eof].
Proof. repeat constructor; vm_compute; discriminate. Qed.

(* two allowed outcomes of the same call: the packet completing read(3) arrives one tick after the
   deadline; the pinned policy raises the timeout and keeps everything, late_read returns the bytes;
   either way the next call gets the right data *)
Example C13_ex_late_read :
  let o := [Chunk [65;66]%N 0; Chunk [67;68]%N 6] in
  let ops := [OpOpen; OpRead 3 (Some 5%Z); OpRut 9 (Some 0%Z)] in
  (map o_res (snd (run (Sock tcp_cfg) (init o 0) ops)),
   map o_res (snd (run (with_pol (Sock tcp_cfg) (mkpol true true false false false false)) (init o 0) ops)))
  = ([RNone; RTimeout; RBytes [65;66;67;68]%N], [RNone; RBytes [65;66;67]%N; RBytes [68]%N]).
Proof. vm_compute. reflexivity. Qed.

(* a different chunk size (MAX_PACKET_SIZE 4 instead of 512) changes the recv sizes, not the data *)
Example C13_ex_chunk_size :
  let o := [Chunk [65;66;67;68;69;59;70]%N 0] in
  let ops := [OpOpen; OpReadUntil [59]%N (Some 5%Z); OpRut 9 (Some 0%Z)] in
  (map o_res (snd (run (Sock (mkcfg true 0 4 true sock_pol)) (init o 0) ops)),
   map o_res (snd (run (Sock tcp_cfg) (init o 0) ops)))
  = ([RNone; RBytes [65;66;67;68;69;59]%N; RBytes [70]%N], [RNone; RBytes [65;66;67;68;69;59]%N; RBytes [70]%N]).
Proof. vm_compute. reflexivity. Qed.
