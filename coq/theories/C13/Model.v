(* C13 — buffered byte-stream transports (qmi/core/transport.py): executable model, no proofs.

   Transcribes
     QMI_Transport.open / close / _check_is_open,
     QMI_SocketTransport._read_from_socket / read / read_until / read_until_timeout /
       discard_read / _open_transport / close      (QMI_TcpTransport: MIN/MAX_PACKET_SIZE = 0/512,
                                                     QMI_UdpTransport: 4096/4096),
     QMI_TcpTransport.write (settimeout(None); sendall), QMI_UdpTransport.write (settimeout(None);
       sendto(data, address)),
     QMI_SerialTransport.read / read_until / read_until_timeout / discard_read / close / write.

   The device is an adversarial oracle: a list of events.  Every access of the device
   (socket.recvfrom / socket.recv; Serial.in_waiting / read / reset_input_buffer) consumes the
   head event.  [Chunk bs dt]: bytes bs arrive after the clock advanced by dt; [TimeoutEv dt]:
   nothing arrives, the clock advances by dt (a socket call raises socket.timeout /
   BlockingIOError); [Eof]: orderly end of stream (sticky: recv returns b"" for ever).  When the
   oracle is exhausted the device is silent for ever: a socket call with timeout t advances the
   clock by t and times out, a socket call without timeout never returns ([RHang]); a short
   Serial.read advances the clock by the fixed device timeout [ser_tick].

   Time is in abstract integer ticks (Z); byte counts are N; bytes are N. *)
From Coq Require Export List ZArith NArith Bool Lia.
Export ListNotations.

Inductive ev := Chunk (bs : list N) (dt : Z) | TimeoutEv (dt : Z) | Eof.

(* which transport class; [rut_slice] = read_until_timeout hands out at most n bytes of the buffer
   (what the property demands; the tree does so since the fix "read_until_timeout never returns
   more than nbytes").  [udp_cfg_cur] is QMI_UdpTransport as it was before that fix (whole buffer
   handed out); it is kept as the regression witness of C13_rut_len_udp_refuted. *)
(* Choices of the implementation that property C13 leaves open.  Every theorem holds for EVERY
   policy; the correspondence accepts the behaviour of any one policy (Corr.check_case), the
   pinned code being one of them ([sock_pol] / [ser_pol]).
     late_read   read(): the request is complete when the deadline check finds the deadline passed:
                 true = return the n bytes, false = raise the timeout (everything stays buffered)
     late_ru     read_until(): same choice when the terminator is there but the deadline has passed
     stop_rd     read(): a deadline check exactly AT the deadline (tremain = 0): true = time out,
                 false = go on (one more poll)
     stop_ru     read_until(): the same choice
     disc_once   socket discard_read(): true = one recv, false = recv until nothing is waiting
     ru_chk_first read_until() on a closed transport with the terminator already buffered:
                 true = refuse, false = serve from the buffer (the device is not touched either way) *)
Record pol := mkpol { late_read : bool; late_ru : bool; stop_rd : bool; stop_ru : bool;
                      disc_once : bool; ru_chk_first : bool }.
Definition sock_pol := mkpol false true false false false false.  (* QMI_SocketTransport as pinned *)
Definition ser_pol := mkpol true true true true false true.        (* QMI_SerialTransport as pinned *)

(* [minp]/[maxp] = MIN_PACKET_SIZE / MAX_PACKET_SIZE of the class: tuning constants, read from the
   live class on every run; all theorems are for every value. *)
Record cfg := mkcfg { stream : bool; minp : N; maxp : N; rut_slice : bool; cpol : pol }.
Definition tcp_cfg := mkcfg true 0 512 true sock_pol.           (* QMI_TcpTransport at the pin *)
Definition udp_cfg := mkcfg false 4096 4096 true sock_pol.      (* QMI_UdpTransport at the pin *)
Definition udp_cfg_cur := mkcfg false 4096 4096 false sock_pol. (* ... before the rut fix (defect) *)

(* serial: [tick] = how long a Serial.read that comes up short lasts (SERIAL_READ_TIMEOUT handed to
   serial.Serial, in clock ticks; read from the live code on every run) *)
Record scfg := mkscfg { tick : Z; spol : pol }.
Definition ser_cfg := mkscfg 40 ser_pol.

(* calls made on the socket / serial.Serial stand-in *)
Inductive dcall :=
| DOpen | DClose
| DSetTmo (t : option Z) | DRecvFrom (n : N)      (* socket: settimeout; recv / recvfrom *)
| DInWaiting | DRead (n : N) | DReset                              (* serial.Serial *)
| DSend (d : list N).          (* socket.sendall / socket.sendto(d, address) / Serial.write *)

(* [pend] is the operating-system input buffer of the serial port (always [] for sockets);
   [dlog] is the device-access log, newest call first. *)
Record st := mkst { is_open : bool; buf : list N; pend : list N; orc : list ev; clk : Z;
                    dlog : list dcall }.

Definition init (o : list ev) (t0 : Z) : st := mkst false [] [] o t0 [].

Definition set_open s b := mkst b (buf s) (pend s) (orc s) (clk s) (dlog s).
Definition set_buf s b := mkst (is_open s) b (pend s) (orc s) (clk s) (dlog s).
Definition set_pend s p := mkst (is_open s) (buf s) p (orc s) (clk s) (dlog s).
Definition set_orc s o := mkst (is_open s) (buf s) (pend s) o (clk s) (dlog s).
Definition set_clk s c := mkst (is_open s) (buf s) (pend s) (orc s) c (dlog s).
Definition logc s d := mkst (is_open s) (buf s) (pend s) (orc s) (clk s) (d :: dlog s).

(* result of one API call *)
Inductive res :=
| RBytes (b : list N)   (* returned these bytes *)
| RNone                 (* returned None (open, close, discard_read) *)
| RInvalid              (* QMI_InvalidOperationException *)
| RTimeout              (* QMI_TimeoutException *)
| REof                  (* QMI_EndOfInputException *)
| RRuntime              (* QMI_RuntimeException: datagram larger than the receive size, lost *)
| RValue                (* ValueError: negative timeout handed to socket.settimeout *)
| RHang                 (* the call never returns: no timeout and a silent device *)
| RFuel.                (* model ran out of fuel (never observed; see Proofs fuel lemmas) *)

Definition len (l : list N) : N := N.of_nat (length l).
Definition take (n : N) (l : list N) := firstn (N.to_nat n) l.
Definition drop (n : N) (l : list N) := skipn (N.to_nat n) l.

(* bytes.find: index of the first occurrence *)
Fixpoint prefixb (t s : list N) : bool :=
  match t, s with
  | [], _ => true
  | x :: t', y :: s' => N.eqb x y && prefixb t' s'
  | _ :: _, [] => false
  end.
Fixpoint find (t s : list N) : option nat :=
  if prefixb t s then Some 0
  else match s with [] => None | _ :: s' => option_map S (find t s') end.
Definition endswith (s t : list N) : bool :=
  (length t <=? length s) && prefixb t (skipn (length s - length t) s).

(* all bytes the device will still deliver *)
Fixpoint stream_of (o : list ev) : list N :=
  match o with
  | [] => []
  | Chunk bs _ :: r => bs ++ stream_of r
  | _ :: r => stream_of r
  end.

Definition fuel_of (s : st) : nat := S (length (orc s) + length (stream_of (orc s))).

Definition tmo_neg (t : option Z) : bool := match t with Some x => (x <? 0)%Z | None => false end.

(* ------------------------------------------------------------------------------------------ *)
(* Socket device                                                                               *)
(* ------------------------------------------------------------------------------------------ *)

Inductive dres := DvData (b : list N) | DvTimeout | DvOsErr (lost : list N) | DvHang.

(* socket.recvfrom(size) / socket.recv(size) with the socket timeout [tmo] *)
Definition dev_recv (c : cfg) (size : N) (tmo : option Z) (s : st) : st * dres :=
  match orc s with
  | [] => match tmo with
          | None => (s, DvHang)
          | Some t => (set_clk s (clk s + Z.max t 0), DvTimeout)
          end
  | Chunk bs dt :: r =>
      let s1 := set_clk s (clk s + dt) in
      if stream c then
        (set_orc s1 (match drop size bs with [] => r | rest => Chunk rest 0 :: r end),
         DvData (take size bs))
      else if (len bs <=? size)%N then (set_orc s1 r, DvData bs)
      else (set_orc s1 r, DvOsErr bs)
  | TimeoutEv dt :: r => (set_orc (set_clk s (clk s + dt)) r, DvTimeout)
  | Eof :: _ => (s, DvData [])
  end.

(* the deadline arithmetic shared by all read loops:
     if timeout is not None: tremain = tstart + timeout - time.monotonic(); if tremain < 0: ...
   (pinned sockets: < 0; pinned serial: <= 0) *)
Definition passed (stop : bool) (tr : Z) : bool := if stop then (tr <=? 0)%Z else (tr <? 0)%Z.

Inductive dl := DlNone | DlPassed | DlLeft (tr : Z).
Definition deadline (p : bool) (tmo : option Z) (tstart now : Z) : dl :=
  match tmo with
  | None => DlNone
  | Some t => let tr := (tstart + t - now)%Z in if passed p tr then DlPassed else DlLeft tr
  end.

(* QMI_SocketTransport.read: the while loop and the final slice *)
Fixpoint read_loop (c : cfg) (fuel : nat) (n : N) (tmo : option Z) (tstart : Z)
         (tremain : option Z) (s : st) : st * res :=
  match fuel with
  | O => (s, RFuel)
  | S f =>
    if (n <=? len (buf s))%N then (set_buf s (drop n (buf s)), RBytes (take n (buf s)))
    else if tmo_neg tremain then (logc s (DSetTmo tremain), RValue)
    else
      let size := N.max (n - len (buf s)) (minp c) in
      let '(s1, d) := dev_recv c size tremain (logc (logc s (DSetTmo tremain)) (DRecvFrom size)) in
      match d with
      | DvTimeout => (s1, RTimeout)
      | DvOsErr _ => (s1, RRuntime)
      | DvHang => (s1, RHang)
      | DvData [] => (s1, REof)
      | DvData b =>
          let s2 := set_buf s1 (buf s1 ++ b) in
          match deadline (stop_rd (cpol c)) tmo tstart (clk s2) with
          | DlPassed =>
              if late_read (cpol c) && (n <=? len (buf s2))%N
              then (set_buf s2 (drop n (buf s2)), RBytes (take n (buf s2)))
              else (s2, RTimeout)
          | DlNone => read_loop c f n tmo tstart None s2
          | DlLeft tr => read_loop c f n tmo tstart (Some tr) s2
          end
      end
  end.

Definition sock_read (c : cfg) (n : N) (tmo : option Z) (s : st) : st * res :=
  if is_open s then read_loop c (fuel_of s) n tmo (clk s) tmo s else (s, RInvalid).

(* cut the buffer after the first terminator *)
Definition cut_term (term : list N) (s : st) : option (st * res) :=
  match find term (buf s) with
  | Some p => let k := p + length term in Some (set_buf s (skipn k (buf s)), RBytes (firstn k (buf s)))
  | None => None
  end.

Fixpoint ru_loop (c : cfg) (fuel : nat) (term : list N) (tmo : option Z) (tstart : Z)
         (tremain : option Z) (s : st) : st * res :=
  match fuel with
  | O => (s, RFuel)
  | S f =>
    if tmo_neg tremain then (logc s (DSetTmo tremain), RValue)
    else
      let '(s1, d) := dev_recv c (maxp c) tremain
                        (logc (logc s (DSetTmo tremain)) (DRecvFrom (maxp c))) in
      match d with
      | DvTimeout => (s1, RTimeout)
      | DvOsErr _ => (s1, RRuntime)
      | DvHang => (s1, RHang)
      | DvData [] => (s1, REof)
      | DvData b =>
          let s2 := set_buf s1 (buf s1 ++ b) in
          match cut_term term s2, deadline (stop_ru (cpol c)) tmo tstart (clk s2) with
          | Some x, DlPassed => if late_ru (cpol c) then x else (s2, RTimeout)
          | Some x, _ => x
          | None, DlPassed => (s2, RTimeout)
          | None, DlNone => ru_loop c f term tmo tstart None s2
          | None, DlLeft tr => ru_loop c f term tmo tstart (Some tr) s2
          end
      end
  end.

(* note the order in the pinned source: the buffer is searched BEFORE _check_is_open *)
Definition sock_read_until (c : cfg) (term : list N) (tmo : option Z) (s : st) : st * res :=
  if ru_chk_first (cpol c) && negb (is_open s) then (s, RInvalid)
  else
  match cut_term term s with
  | Some x => x
  | None => if is_open s then ru_loop c (fuel_of s) term tmo (clk s) tmo s else (s, RInvalid)
  end.

(* hand out the buffer after a timeout / end of input in read_until_timeout *)
Definition take_buf (sl : bool) (n : N) (s : st) : st * res :=
  if sl then (set_buf s (drop n (buf s)), RBytes (take n (buf s)))
  else (set_buf s [], RBytes (buf s)).

Definition sock_rut (c : cfg) (n : N) (tmo : option Z) (s : st) : st * res :=
  let '(s1, r) := sock_read c n tmo s in
  match r with
  | RTimeout => take_buf (rut_slice c) n s1
  | REof => match buf s1 with [] => (s1, REof) | _ => take_buf (rut_slice c) n s1 end
  | _ => (s1, r)
  end.

(* discard_read: the recv loop; returns the bytes thrown away by the loop *)
Fixpoint discard_loop (c : cfg) (fuel : nat) (s : st) (acc : list N) : st * res * list N :=
  match fuel with
  | O => (s, RFuel, acc)
  | S f =>
    let '(s1, d) := dev_recv c (maxp c) (Some 0%Z) (logc s (DRecvFrom (maxp c))) in
    match d with
    | DvData [] => (s1, RNone, acc)
    | DvData b => if disc_once (cpol c) then (s1, RNone, acc ++ b) else discard_loop c f s1 (acc ++ b)
    | DvOsErr b => (s1, RNone, acc ++ b)
    | DvTimeout | DvHang => (s1, RNone, acc)
    end
  end.

Definition sock_discard (c : cfg) (s : st) : st * res * list N :=
  if is_open s then
    discard_loop c (fuel_of s) (logc (set_buf s []) (DSetTmo (Some 0%Z))) (buf s)
  else (s, RInvalid, []).

(* QMI_Transport.open + QMI_SocketTransport._open_transport (clears the buffer) *)
Definition sock_open (s : st) : st * res * list N :=
  if is_open s then (s, RInvalid, [])
  else (logc (set_open (set_buf s []) true) DOpen, RNone, buf s).

Definition do_close (s : st) : st * res :=
  if is_open s then (logc (set_open s false) DClose, RNone) else (s, RInvalid).

(* QMI_TcpTransport.write / QMI_UdpTransport.write: _check_is_open; settimeout(None); send.
   Writing neither consumes device events nor touches the read buffer.  Observed of a write: the
   bytes that go out, in order (how the socket is put into blocking mode, and whether the data goes
   out in one or several send calls, is not observed). *)
Definition sock_write (d : list N) (s : st) : st * res :=
  if is_open s then (logc s (DSend d), RNone) else (s, RInvalid).

(* ------------------------------------------------------------------------------------------ *)
(* Serial device (serial.Serial stand-in)                                                      *)
(* ------------------------------------------------------------------------------------------ *)

(* bytes arriving at the port before the next access *)
Definition ser_arrive (s : st) : st :=
  match orc s with
  | [] => s
  | Chunk bs dt :: r => set_orc (set_clk (set_pend s (pend s ++ bs)) (clk s + dt)) r
  | TimeoutEv dt :: r => set_orc (set_clk s (clk s + dt)) r
  | Eof :: r => set_orc s r
  end.

Definition ser_in_waiting (s : st) : st * N :=
  let s1 := logc (ser_arrive s) DInWaiting in (s1, len (pend s1)).

(* Serial.read(k): at most k bytes; [silent] = the oracle was exhausted and the read came up short *)
Definition ser_read (tk : Z) (k : N) (s : st) : st * list N * bool :=
  let silent := match orc s with [] => (len (pend s) <? k)%N | _ => false end in
  let s1 := logc (ser_arrive s) (DRead k) in
  let s2 := if silent then set_clk s1 (clk s1 + tk) else s1 in
  (set_pend s2 (drop k (pend s2)), take k (pend s2), silent).

(* QMI_SerialTransport.read, the blocking loop:
     while True: buf += read(n - nbuf); if nbuf >= n: break; if tremain <= 0: break *)
Fixpoint ser_read_loop (sc : scfg) (fuel : nat) (n : N) (tmo : option Z) (tstart : Z) (s : st)
  : st * res :=
  match fuel with
  | O => (s, RFuel)
  | S f =>
    let '(s1, b, silent) := ser_read (tick sc) (n - len (buf s)) s in
    let s2 := set_buf s1 (buf s1 ++ b) in
    let d := deadline (stop_rd (spol sc)) tmo tstart (clk s2) in
    if (n <=? len (buf s2))%N then
      match d with
      | DlPassed => if late_read (spol sc) then (set_buf s2 [], RBytes (buf s2)) else (s2, RTimeout)
      | _ => (set_buf s2 [], RBytes (buf s2))
      end
    else match d with
         | DlPassed => (s2, RTimeout)
         | DlNone => if silent then (s2, RHang) else ser_read_loop sc f n tmo tstart s2
         | DlLeft _ => ser_read_loop sc f n tmo tstart s2
         end
  end.

(* enough for: every event, every byte waiting or still to come, every tick before the deadline *)
Definition ser_fuel (tmo : option Z) (s : st) : nat :=
  S (S (S (length (orc s) + length (pend s) + length (stream_of (orc s))))) +
  match tmo with Some t => Z.to_nat t | None => 0 end.

Definition tmo_nonpos (t : option Z) : bool := match t with Some x => (x <=? 0)%Z | None => false end.

Definition ser_read_op (sc : scfg) (n : N) (tmo : option Z) (s : st) : st * res :=
  if negb (is_open s) then (s, RInvalid)
  else if (n <=? len (buf s))%N then (set_buf s (drop n (buf s)), RBytes (take n (buf s)))
  else if tmo_nonpos tmo then
    let '(s1, w) := ser_in_waiting s in
    if (n - len (buf s) <=? w)%N then
      let '(s2, b, _) := ser_read (tick sc) (n - len (buf s)) s1 in
      let s3 := set_buf s2 (buf s2 ++ b) in
      if (len (buf s3) <? n)%N then (s3, RTimeout) else (set_buf s3 [], RBytes (buf s3))
    else (s1, RTimeout)
  else ser_read_loop sc (ser_fuel tmo s) n tmo (clk s) s.

Definition tr_passed (p : bool) (tr : option Z) : bool :=
  match tr with Some x => passed p x | None => false end.

(* QMI_SerialTransport.read_until, the one-byte loop:
     while tremain is None or tremain > 0: buf += read(1); if buf.endswith(term): return ... *)
Fixpoint ser_ru_loop (sc : scfg) (fuel : nat) (term : list N) (tmo : option Z) (tstart : Z)
         (tremain : option Z) (s : st) : st * res :=
  match fuel with
  | O => (s, RFuel)
  | S f =>
    if tr_passed (stop_ru (spol sc)) tremain then (s, RTimeout)
    else
      let '(s1, b, silent) := ser_read (tick sc) 1 s in
      let s2 := set_buf s1 (buf s1 ++ b) in
      if endswith (buf s2) term then
        match deadline (stop_ru (spol sc)) tmo tstart (clk s2) with
        | DlPassed => if late_ru (spol sc) then (set_buf s2 [], RBytes (buf s2)) else (s2, RTimeout)
        | _ => (set_buf s2 [], RBytes (buf s2))
        end
      else match tmo with
           | None => if silent then (s2, RHang) else ser_ru_loop sc f term tmo tstart None s2
           | Some t => ser_ru_loop sc f term tmo tstart (Some (tstart + t - clk s2)%Z) s2
           end
  end.

Definition ser_read_until (sc : scfg) (term : list N) (tmo : option Z) (s : st) : st * res :=
  if negb (is_open s) then
    (if ru_chk_first (spol sc) then (s, RInvalid)
     else match cut_term term s with Some x => x | None => (s, RInvalid) end)
  else
    let s1 := match find term (buf s) with
              | Some _ => s
              | None => let '(sa, w) := ser_in_waiting s in
                        let '(sb, b, _) := ser_read (tick sc) w sa in set_buf sb (buf sb ++ b)
              end in
    match cut_term term s1 with
    | Some x => x
    | None => ser_ru_loop sc (ser_fuel tmo s1) term tmo (clk s1) tmo s1
    end.

Definition ser_rut (sc : scfg) (n : N) (tmo : option Z) (s : st) : st * res :=
  let '(s1, r) := ser_read_op sc n tmo s in
  match r with
  | RTimeout => (set_buf s1 [], RBytes (buf s1))
  | _ => (s1, r)
  end.

Definition ser_discard (s : st) : st * res * list N :=
  if is_open s then
    let s1 := logc (ser_arrive s) DReset in
    (set_buf (set_pend s1 []) [], RNone, buf s ++ pend s1)
  else (s, RInvalid, []).

(* QMI_SerialTransport.write: _check_is_open; Serial.write(data) *)
Definition ser_write (d : list N) (s : st) : st * res :=
  if is_open s then (logc s (DSend d), RNone) else (s, RInvalid).

(* QMI_SerialTransport._open_transport does not clear the buffer *)
Definition ser_open (s : st) : st * res * list N :=
  if is_open s then (s, RInvalid, []) else (logc (set_open s true) DOpen, RNone, []).

(* ------------------------------------------------------------------------------------------ *)
(* Operation sequences                                                                         *)
(* ------------------------------------------------------------------------------------------ *)

Inductive op :=
| OpOpen | OpClose
| OpRead (n : N) (tmo : option Z)
| OpReadUntil (term : list N) (tmo : option Z)
| OpRut (n : N) (tmo : option Z)
| OpDiscard
| OpWrite (d : list N).

Inductive kind := Sock (c : cfg) | Serial (sc : scfg).

(* what a call yields: result, bytes thrown away by the call (ghost), calls made on the stand-in *)
Record outp := mkout { o_res : res; o_dropped : list N; o_calls : list dcall }.

Definition nodrop (x : st * res) : st * res * list N := (fst x, snd x, []).

Definition step_raw (k : kind) (s : st) (o : op) : st * res * list N :=
  match k, o with
  | Sock _, OpOpen => sock_open s
  | Serial _, OpOpen => ser_open s
  | _, OpClose => nodrop (do_close s)
  | Sock c, OpRead n t => nodrop (sock_read c n t s)
  | Serial sc, OpRead n t => nodrop (ser_read_op sc n t s)
  | Sock c, OpReadUntil tm t => nodrop (sock_read_until c tm t s)
  | Serial sc, OpReadUntil tm t => nodrop (ser_read_until sc tm t s)
  | Sock c, OpRut n t => nodrop (sock_rut c n t s)
  | Serial sc, OpRut n t => nodrop (ser_rut sc n t s)
  | Sock c, OpDiscard => sock_discard c s
  | Serial _, OpDiscard => ser_discard s
  | Sock _, OpWrite d => nodrop (sock_write d s)
  | Serial _, OpWrite d => nodrop (ser_write d s)
  end.

Definition new_calls (s s' : st) : list dcall :=
  rev (firstn (length (dlog s') - length (dlog s)) (dlog s')).

Definition step (k : kind) (s : st) (o : op) : st * outp :=
  let '(s', r, d) := step_raw k s o in (s', mkout r d (new_calls s s')).

Definition stops (r : res) : bool := match r with RHang | RFuel => true | _ => false end.

(* run a call sequence; a call that never returns ends the run *)
Fixpoint run (k : kind) (s : st) (ops : list op) : st * list outp :=
  match ops with
  | [] => (s, [])
  | o :: r =>
      let '(s1, x) := step k s o in
      if stops (o_res x) then (s1, [x])
      else let '(s2, xs) := run k s1 r in (s2, x :: xs)
  end.

(* the bytes a call hands to the caller, and all bytes it removed from the stream *)
Definition returned (x : outp) : list N := match o_res x with RBytes b => b | _ => [] end.
Definition consumed (x : outp) : list N := returned x ++ o_dropped x.

(* the byte strings handed to the device's send call, oldest first ([dlog] is newest first) *)
Fixpoint sentl (l : list dcall) : list (list N) :=
  match l with
  | [] => []
  | DSend d :: r => d :: sentl r
  | _ :: r => sentl r
  end.
Definition sent (s : st) : list (list N) := rev (sentl (dlog s)).

(* the byte strings of the write calls of a run that were accepted, in call order *)
Fixpoint accepted_writes (ops : list op) (outs : list outp) : list (list N) :=
  match ops, outs with
  | OpWrite d :: ops', x :: outs' =>
      match o_res x with RNone => d :: accepted_writes ops' outs' | _ => accepted_writes ops' outs' end
  | _ :: ops', _ :: outs' => accepted_writes ops' outs'
  | _, _ => []
  end.

(* timing assumption for the serial fuel bound: the clock never runs backwards *)
Definition ev_dt_ok (e : ev) : Prop :=
  match e with Chunk _ dt | TimeoutEv dt => (0 <= dt)%Z | Eof => True end.

(* ------------------------------------------------------------------------------------------ *)
(* The outcomes the property allows: those of any policy, with the constants of the class.     *)
(* ------------------------------------------------------------------------------------------ *)

Definition bools := [false; true].
Definition all_pols : list pol :=
  flat_map (fun a => flat_map (fun b => flat_map (fun c => flat_map (fun d => flat_map (fun e =>
    map (fun f => mkpol a b c d e f) bools) bools) bools) bools) bools) bools.

Definition with_pol (k : kind) (p : pol) : kind :=
  match k with
  | Sock c => Sock (mkcfg (stream c) (minp c) (maxp c) (rut_slice c) p)
  | Serial sc => Serial (mkscfg (tick sc) p)
  end.

(* the kind itself first (the check tries them in this order) *)
Definition variants (k : kind) : list kind := k :: map (with_pol k) all_pols.

Definition allowed_step (k : kind) (s : st) (o : op) (r : st * outp) : Prop :=
  exists k', In k' (variants k) /\ step k' s o = r.

Definition allowed_outcomes (k : kind) (s : st) (ops : list op) (r : st * list outp) : Prop :=
  exists k', In k' (variants k) /\ run k' s ops = r.
