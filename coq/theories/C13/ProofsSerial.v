(* C13 — lemmas about QMI_SerialTransport's read loops. *)
From Coq Require Import List ZArith NArith Bool Lia ZifyBool ZifyNat ZifyN.
Require Import QV.C13.Model QV.C13.Proofs.
Import ListNotations.

(* like [moved], with the port's own input buffer [pend] between transport and device *)
Definition smoved (s s' : st) (out : list N) : Prop :=
  exists rx, buf s ++ rx = out ++ buf s' /\
             rx ++ pend s' ++ stream_of (orc s') = pend s ++ stream_of (orc s).

Lemma smoved_refl s s' :
  buf s' = buf s -> pend s' ++ stream_of (orc s') = pend s ++ stream_of (orc s) -> smoved s s' [].
Proof. intros Hb Ho. exists []. rewrite Hb, app_nil_r. split; [reflexivity | exact Ho]. Qed.

Lemma smoved_recv s s1 s' b out :
  buf s1 = buf s ++ b -> b ++ pend s1 ++ stream_of (orc s1) = pend s ++ stream_of (orc s) ->
  smoved s1 s' out -> smoved s s' out.
Proof.
  intros Hb Hs (rx & H1 & H2). exists (b ++ rx). split.
  - rewrite app_assoc, <- Hb. exact H1.
  - rewrite <- app_assoc, H2. exact Hs.
Qed.

Lemma moved_smoved s s' out : pend s = [] -> pend s' = [] -> moved s s' out -> smoved s s' out.
Proof. intros P P' (rx & H1 & H2). exists rx. rewrite P, P'. split; assumption. Qed.

Lemma ser_arrive_spec s :
  is_open (ser_arrive s) = is_open s /\ buf (ser_arrive s) = buf s /\ dlog (ser_arrive s) = dlog s /\
  pend (ser_arrive s) ++ stream_of (orc (ser_arrive s)) = pend s ++ stream_of (orc s).
Proof.
  unfold ser_arrive. destruct s as [o b p oc ck dl]; sim.
  destruct oc as [|[bs dt|dt|] r]; sim; repeat split; auto.
  cbn [stream_of]. now rewrite app_assoc.
Qed.

Lemma ser_in_waiting_spec s s' w :
  ser_in_waiting s = (s', w) ->
  is_open s' = is_open s /\ buf s' = buf s /\ w = len (pend s') /\
  pend s' ++ stream_of (orc s') = pend s ++ stream_of (orc s).
Proof.
  unfold ser_in_waiting. intros [= <- <-]. sim.
  destruct (ser_arrive_spec s) as (A1 & A2 & A3 & A4). repeat split; auto.
Qed.

Lemma ser_read_spec tk k s s' b sil :
  ser_read tk k s = (s', b, sil) ->
  is_open s' = is_open s /\ buf s' = buf s /\ (len b <= k)%N /\
  b ++ pend s' ++ stream_of (orc s') = pend s ++ stream_of (orc s) /\
  ((k <= len (pend s))%N -> len b = k).
Proof.
  unfold ser_read. intros H.
  destruct (ser_arrive_spec s) as (A1 & A2 & A3 & A4).
  assert (Hp : exists ax, pend (ser_arrive s) = pend s ++ ax).
  { unfold ser_arrive. destruct s as [o bb p oc ck dl]; sim.
    destruct oc as [|[bs dt|dt|] r]; sim; eauto; exists []; now rewrite app_nil_r. }
  destruct (match orc s with [] => (len (pend s) <? k)%N | _ :: _ => false end);
    inversion H; subst; sim; repeat split; auto; try apply len_take_le.
  all: try (rewrite app_assoc, take_drop; exact A4).
  all: intros Hk; destruct Hp as [ax ->]; apply len_take; rewrite len_app; lia.
Qed.

(* ---- read ---------------------------------------------------------------------------------- *)

Lemma ser_read_loop_spec sc : forall fuel n tmo ts s s' r,
  (len (buf s) < n)%N -> ser_read_loop sc fuel n tmo ts s = (s', r) ->
  is_open s' = is_open s /\ smoved s s' (ret r) /\
  (forall b, r = RBytes b -> len b = n) /\
  (r = RTimeout -> (len (buf s') <= n)%N) /\
  r <> RNone /\ r <> RInvalid /\ r <> REof /\ r <> RRuntime /\ r <> RValue.
Proof.
  induction fuel as [|f IH]; intros n tmo ts s s' r L H; cbn [ser_read_loop] in H.
  - inversion H; subst. repeat split; try congruence. apply smoved_refl; reflexivity.
  - destruct (ser_read (tick sc) (n - len (buf s)) s) as [[s1 b] sil] eqn:Er.
    apply ser_read_spec in Er as (Eo & Eb & Elen & Es & _). sim.
    assert (M2 : smoved s (set_buf s1 (buf s1 ++ b)) []).
    { exists b. sim. rewrite Eb. split; [reflexivity | exact Es]. }
    assert (L2 : (len (buf s1 ++ b) <= n)%N) by (rewrite Eb, len_app; lia).
    assert (TMO : (set_buf s1 (buf s1 ++ b), RTimeout) = (s', r) ->
      is_open s' = is_open s /\ smoved s s' (ret r) /\
      (forall b, r = RBytes b -> len b = n) /\ (r = RTimeout -> (len (buf s') <= n)%N) /\
      r <> RNone /\ r <> RInvalid /\ r <> REof /\ r <> RRuntime /\ r <> RValue).
    { intros HH. inversion HH; subst; sim. repeat split; try congruence; auto. }
    destruct (n <=? len (buf s1 ++ b))%N eqn:En.
    { assert (RET : (set_buf (set_buf s1 (buf s1 ++ b)) [], RBytes (buf s1 ++ b)) = (s', r) ->
        is_open s' = is_open s /\ smoved s s' (ret r) /\
        (forall b, r = RBytes b -> len b = n) /\ (r = RTimeout -> (len (buf s') <= n)%N) /\
        r <> RNone /\ r <> RInvalid /\ r <> REof /\ r <> RRuntime /\ r <> RValue).
      { intros HH. inversion HH; subst; sim. repeat split; try congruence; auto.
        - exists b. sim. cbn [ret]. rewrite Eb, app_nil_r. split; [reflexivity | exact Es].
        - intros b0 [= <-]. lia. }
      destruct (deadline _ tmo ts (clk s1)); [apply RET, H | | apply RET, H].
      destruct (late_read (spol sc)); [apply RET, H | apply TMO, H]. }
    assert (REC : forall s'' r'', ser_read_loop sc f n tmo ts (set_buf s1 (buf s1 ++ b)) = (s'', r'') ->
      is_open s'' = is_open s /\ smoved s s'' (ret r'') /\
      (forall b, r'' = RBytes b -> len b = n) /\ (r'' = RTimeout -> (len (buf s'') <= n)%N) /\
      r'' <> RNone /\ r'' <> RInvalid /\ r'' <> REof /\ r'' <> RRuntime /\ r'' <> RValue).
    { intros s'' r'' HH. apply IH in HH; [|sim; lia]. sim.
      destruct HH as (Ho' & Hm & Hrest). split; [congruence|]. split; [|exact Hrest].
      apply (smoved_recv s (set_buf s1 (buf s1 ++ b)) s'' b); sim; [now rewrite Eb | exact Es | exact Hm]. }
    destruct (deadline _ tmo ts (clk s1)).
    + destruct sil.
      * inversion H; subst; sim. repeat split; try congruence; auto.
      * apply REC, H.
    + apply TMO, H.
    + apply REC, H.
Qed.

Lemma ser_read_op_spec sc n tmo s s' r :
  ser_read_op sc n tmo s = (s', r) ->
  is_open s' = is_open s /\ smoved s s' (ret r) /\
  (forall b, r = RBytes b -> len b = n) /\
  (r = RTimeout -> (len (buf s') <= n)%N) /\
  r <> RNone /\ r <> REof /\ r <> RRuntime /\ r <> RValue /\
  (is_open s = false -> s' = s /\ r = RInvalid).
Proof.
  unfold ser_read_op. intros H. destruct (is_open s) eqn:Eo; cbn [negb] in H.
  2:{ inversion H; subst. repeat split; try congruence. apply smoved_refl; reflexivity. }
  destruct (n <=? len (buf s))%N eqn:En.
  { inversion H; subst; sim. repeat split; try congruence.
    - exists []. cbn [ret]. rewrite app_nil_r. split; [symmetry; apply take_drop | reflexivity].
    - intros b0 [= <-]. apply len_take. lia. }
  destruct (tmo_nonpos tmo).
  - destruct (ser_in_waiting s) as [s1 w] eqn:Ew.
    apply ser_in_waiting_spec in Ew as (W1 & W2 & W3 & W4).
    destruct (n - len (buf s) <=? w)%N eqn:Ek.
    + destruct (ser_read (tick sc) (n - len (buf s)) s1) as [[s2 b] sil] eqn:Er.
      apply ser_read_spec in Er as (R1 & R2 & R3 & R4 & R5). sim.
      assert (Hb : len b = (n - len (buf s))%N) by (apply R5; lia).
      assert (Es : b ++ pend s2 ++ stream_of (orc s2) = pend s ++ stream_of (orc s)) by congruence.
      destruct (len (buf s2 ++ b) <? n)%N eqn:Elt.
      * rewrite R2, W2, len_app in Elt. lia.
      * inversion H; subst; sim. repeat split; try congruence.
        -- exists b. sim. cbn [ret]. rewrite R2, W2, app_nil_r. split; [reflexivity | exact Es].
        -- intros b0 [= <-]. rewrite R2, W2, len_app. lia.
    + inversion H; subst. repeat split; try congruence.
      * apply smoved_refl; assumption.
      * intros _. rewrite W2. lia.
  - apply ser_read_loop_spec in H; [|lia].
    destruct H as (H1 & H2 & H3 & H4 & H5 & H6 & H7 & H8 & H9). repeat split; try congruence; auto.
Qed.

(* ---- read_until ---------------------------------------------------------------------------- *)

Lemma ser_ru_loop_spec sc term : forall fuel tmo ts tr s s' r,
  (forall i, ~ occ term (buf s) i) -> ser_ru_loop sc fuel term tmo ts tr s = (s', r) ->
  is_open s' = is_open s /\ smoved s s' (ret r) /\
  (forall b, r = RBytes b -> shortest term b) /\
  r <> RNone /\ r <> RInvalid /\ r <> REof /\ r <> RRuntime /\ r <> RValue.
Proof.
  induction fuel as [|f IH]; intros tmo ts tr s s' r NO H; cbn [ser_ru_loop] in H.
  - inversion H; subst. repeat split; try congruence. apply smoved_refl; reflexivity.
  - destruct (tr_passed _ tr).
    { inversion H; subst. repeat split; try congruence. apply smoved_refl; reflexivity. }
    destruct (ser_read (tick sc) 1 s) as [[s1 b] sil] eqn:Er.
    apply ser_read_spec in Er as (Eo & Eb & Elen & Es & _). sim.
    assert (Lb : length b <= 1) by (unfold len in Elen; lia).
    destruct (endswith (buf s1 ++ b) term) eqn:Ee.
    { assert (TMO : (set_buf s1 (buf s1 ++ b), RTimeout) = (s', r) ->
        is_open s' = is_open s /\ smoved s s' (ret r) /\ (forall b, r = RBytes b -> shortest term b) /\
        r <> RNone /\ r <> RInvalid /\ r <> REof /\ r <> RRuntime /\ r <> RValue).
      { intros HH. inversion HH; subst; sim. repeat split; try congruence.
        exists b. sim. cbn [ret app]. rewrite Eb. split; [reflexivity | exact Es]. }
      assert (RET : (set_buf (set_buf s1 (buf s1 ++ b)) [], RBytes (buf s1 ++ b)) = (s', r) ->
        is_open s' = is_open s /\ smoved s s' (ret r) /\ (forall b, r = RBytes b -> shortest term b) /\
        r <> RNone /\ r <> RInvalid /\ r <> REof /\ r <> RRuntime /\ r <> RValue);
      [| destruct (deadline _ tmo ts (clk s1)); [apply RET, H | | apply RET, H];
         destruct (late_ru (spol sc)); [apply RET, H | apply TMO, H] ].
      intros HH. clear H TMO.
      inversion HH; subst; sim. repeat split; try congruence.
      - exists b. sim. cbn [ret]. rewrite Eb, app_nil_r. split; [reflexivity | exact Es].
      - intros b0 [= <-]. apply endswith_spec in Ee as [a Ea]. exists a. split; [exact Ea|].
        intros i Hi. pose proof (occ_bound _ _ _ Hi) as B.
        assert (~ i + length term <= length (buf s)).
        { intros Hfit. rewrite Eb in Hi. apply (NO i). eapply occ_app_inv; eauto. }
        rewrite Ea in B. rewrite Eb in Ea. apply (f_equal (@length N)) in Ea.
        rewrite !app_length in *. lia. }
    assert (NO2 : forall i, ~ occ term (buf s1 ++ b) i).
    { intros i Hi. pose proof (occ_bound _ _ _ Hi) as B. rewrite Eb in *.
      destruct (Nat.le_gt_cases (i + length term) (length (buf s))) as [Hfit|Hnf].
      - apply (NO i). eapply occ_app_inv; eauto.
      - assert (Hend : endswith (buf s ++ b) term = true).
        { apply endswith_spec. destruct Hi as (a & bb & E & Ha).
          assert (bb = []).
          { apply (f_equal (@length N)) in E. rewrite !app_length in *.
            destruct bb; [reflexivity | cbn [length] in E; lia]. }
          subst bb. rewrite app_nil_r in E. exists a. exact E. }
        congruence. }
    assert (REC : forall tr' s'' r'', ser_ru_loop sc f term tmo ts tr' (set_buf s1 (buf s1 ++ b)) = (s'', r'') ->
      is_open s'' = is_open s /\ smoved s s'' (ret r'') /\
      (forall b, r'' = RBytes b -> shortest term b) /\
      r'' <> RNone /\ r'' <> RInvalid /\ r'' <> REof /\ r'' <> RRuntime /\ r'' <> RValue).
    { intros tr' s'' r'' HH. apply IH in HH; [|sim; exact NO2]. sim.
      destruct HH as (Ho' & Hm & Hrest). split; [congruence|]. split; [|exact Hrest].
      apply (smoved_recv s (set_buf s1 (buf s1 ++ b)) s'' b); sim; [now rewrite Eb | exact Es | exact Hm]. }
    destruct tmo as [t|].
    + eapply REC, H.
    + destruct sil.
      * inversion H; subst; sim. repeat split; try congruence.
        exists b. sim. cbn [ret app]. rewrite Eb. split; [reflexivity | exact Es].
      * eapply REC, H.
Qed.

Lemma ser_read_until_spec sc term tmo s s' r :
  ser_read_until sc term tmo s = (s', r) ->
  is_open s' = is_open s /\ smoved s s' (ret r) /\
  (forall b, r = RBytes b -> shortest term b) /\
  r <> RNone /\ r <> REof /\ r <> RRuntime /\ r <> RValue.
Proof.
  unfold ser_read_until. intros H. destruct (is_open s) eqn:Eo; cbn [negb] in H.
  2:{ destruct (ru_chk_first (spol sc)).
      { inversion H; subst. repeat split; try congruence. apply smoved_refl; reflexivity. }
      destruct (cut_term term s) as [[sc0 rc]|] eqn:Ec.
      - inversion H; subst sc0 rc. apply cut_term_Some in Ec as (bb & rest & -> & Hsh & Hcat & ->). sim.
        repeat split; try congruence.
        exists []. sim. cbn [ret]. rewrite app_nil_r. split; [now symmetry | reflexivity].
      - inversion H; subst. repeat split; try congruence. apply smoved_refl; reflexivity. }
  set (s1 := match find term (buf s) with
             | Some _ => s
             | None => let '(sa, w) := ser_in_waiting s in
                       let '(sb, b, _) := ser_read (tick sc) w sa in set_buf sb (buf sb ++ b)
             end) in *.
  assert (P1 : is_open s1 = is_open s /\ smoved s s1 []).
  { subst s1. destruct (find term (buf s)).
    - split; [reflexivity | apply smoved_refl; reflexivity].
    - destruct (ser_in_waiting s) as [sa w] eqn:Ew.
      apply ser_in_waiting_spec in Ew as (W1 & W2 & W3 & W4).
      destruct (ser_read (tick sc) w sa) as [[sb b] sil] eqn:Er.
      apply ser_read_spec in Er as (R1 & R2 & R3 & R4 & R5). sim. split; [congruence|].
      exists b. sim. rewrite R2, W2. split; [reflexivity | congruence]. }
  destruct P1 as [O1 M1].
  destruct (cut_term term s1) as [[sc1 rc]|] eqn:Ec.
  - inversion H; subst sc1 rc. apply cut_term_Some in Ec as (bb & rest & -> & Hsh & Hcat & ->). sim.
    repeat split; try congruence.
    destruct M1 as (rx & A & B). exists rx. sim. cbn [ret app] in *. rewrite Hcat. split; assumption.
  - apply ser_ru_loop_spec in H; [|apply (cut_term_None _ _ Ec)].
    destruct H as (H1 & H2 & H3 & H4 & H5 & H6 & H7 & H8).
    repeat split; try congruence; auto.
    destruct M1 as (rx & A & B). destruct H2 as (rx2 & A2 & B2). cbn [app] in A.
    exists (rx ++ rx2). split.
    + rewrite app_assoc, A. exact A2.
    + rewrite <- app_assoc, B2. exact B.
Qed.

(* ---- read_until_timeout, discard_read, open ------------------------------------------------ *)

Lemma ser_rut_spec sc n tmo s s' r :
  ser_rut sc n tmo s = (s', r) ->
  is_open s' = is_open s /\ smoved s s' (ret r) /\
  (forall b, r = RBytes b -> (len b <= n)%N) /\
  r <> RNone /\ r <> REof /\ r <> RRuntime /\ r <> RValue /\ r <> RTimeout /\
  (is_open s = false -> s' = s /\ r = RInvalid).
Proof.
  unfold ser_rut. intros H. destruct (ser_read_op sc n tmo s) as [s1 r1] eqn:Er.
  apply ser_read_op_spec in Er as (H1 & H2 & H3 & H4 & H5 & H6 & H7 & H8 & H9).
  destruct r1; inversion H; subst; sim; repeat split; try congruence; auto.
  all: try match goal with Hc : is_open _ = false |- _ => destruct (H9 Hc) as [Hx Hy]; congruence end.
  - intros b0 [= <-]. rewrite (H3 b eq_refl). lia.
  - destruct H2 as (rx & A & B). exists rx. sim. cbn [ret app] in *. rewrite app_nil_r. split; assumption.
  - intros b0 [= <-]. auto.
Qed.

Lemma ser_discard_spec s s' r d :
  ser_discard s = (s', r, d) ->
  is_open s' = is_open s /\ smoved s s' (ret r ++ d) /\ (r = RNone \/ r = RInvalid) /\
  (is_open s = false -> s' = s /\ r = RInvalid /\ d = []).
Proof.
  unfold ser_discard. intros H. destruct (ser_arrive_spec s) as (A1 & A2 & A3 & A4).
  destruct (is_open s) eqn:Eo; inversion H; subst; sim; repeat split; auto; try congruence.
  - exists (pend (ser_arrive s)). sim. cbn [ret app]. rewrite !app_nil_r. split; [reflexivity | exact A4].
  - apply smoved_refl; reflexivity.
Qed.

Lemma ser_open_spec s s' r d :
  ser_open s = (s', r, d) ->
  smoved s s' (ret r ++ d) /\ orc s' = orc s /\ clk s' = clk s /\
  (is_open s = true -> s' = s /\ r = RInvalid /\ d = []) /\
  (is_open s = false -> r = RNone /\ is_open s' = true).
Proof.
  unfold ser_open. destruct (is_open s) eqn:Eo; intros [= <- <- <-]; sim; repeat split; auto; try congruence.
  all: apply smoved_refl; reflexivity.
Qed.
