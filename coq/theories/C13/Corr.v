(* C13 correspondence: the model's per-call result and stand-in calls versus those observed on the
   real QMI_TcpTransport / QMI_UdpTransport / QMI_SerialTransport driven with the same script. *)
Require Export QV.Lib.Corr QV.C13.Model.

Definition bytes_eqb := list_eqb N.eqb.
Definition optZ_eqb := option_eqb Z.eqb.

Definition res_eqb (a b : res) : bool :=
  match a, b with
  | RBytes x, RBytes y => bytes_eqb x y
  | RNone, RNone | RInvalid, RInvalid | RTimeout, RTimeout | REof, REof | RRuntime, RRuntime
  | RValue, RValue | RHang, RHang | RFuel, RFuel => true
  | _, _ => false
  end.

Definition dcall_eqb (a b : dcall) : bool :=
  match a, b with
  | DOpen, DOpen | DClose, DClose | DInWaiting, DInWaiting | DReset, DReset => true
  | DSetTmo x, DSetTmo y => optZ_eqb x y
  | DRecvFrom x, DRecvFrom y | DRecv x, DRecv y | DRead x, DRead y => N.eqb x y
  | DSend x, DSend y => bytes_eqb x y
  | _, _ => false
  end.

(* which class was driven; KUdpCur = QMI_UdpTransport as it was before the read_until_timeout fix (used only
   for histories on which the property oracle has flagged exactly that defect, i.e. a regression) *)
Inductive kcode := KTcp | KUdp | KUdpCur | KSerial.
Definition kind_of (k : kcode) : kind :=
  match k with KTcp => Sock tcp_cfg | KUdp => Sock udp_cfg | KUdpCur => Sock udp_cfg_cur
             | KSerial => Serial end.

Definition obs := (res * list dcall)%type.
Definition obs_eqb (a b : obs) : bool := res_eqb (fst a) (fst b) && list_eqb dcall_eqb (snd a) (snd b).

(* class, initial clock, device script, call sequence, what the implementation did per call *)
Definition case := (kcode * Z * list ev * list op * list obs)%type.

Definition model_out (c : case) : list obs :=
  let '(k, t0, o, ops, _) := c in
  map (fun x => (o_res x, o_calls x)) (snd (run (kind_of k) (init o t0) ops)).

(* the model must agree with the implementation and must never have run out of fuel *)
Definition check_case (c : case) : bool :=
  let '(_, _, _, _, seen) := c in
  list_eqb obs_eqb (model_out c) seen &&
  forallb (fun x => negb (res_eqb (fst x) RFuel)) (model_out c).
