(* C13 correspondence: the model's per-call result and stand-in calls versus those observed on the
   real QMI_TcpTransport / QMI_UdpTransport / QMI_SerialTransport driven with the same script. *)
Require Export QV.Lib.Corr QV.C13.Model.

Definition bytes_eqb := list_eqb N.eqb.
Definition optZ_eqb := option_eqb Z.eqb.

Definition res_eqb (a b : res) : bool :=
  match a, b with
  | RBytes x, RBytes y => bytes_eqb x y
  | RNone, RNone | RInvalid, RInvalid | RTimeout, RTimeout | REof, REof | RRuntime, RRuntime
  | RValue, RValue | RHang, RHang | RFuel, RFuel => true
  | _, _ => false
  end.

Definition dcall_eqb (a b : dcall) : bool :=
  match a, b with
  | DOpen, DOpen | DClose, DClose | DInWaiting, DInWaiting | DReset, DReset => true
  | DSetTmo x, DSetTmo y => optZ_eqb x y
  | DRecvFrom x, DRecvFrom y | DRead x, DRead y => N.eqb x y
  | DSend x, DSend y => bytes_eqb x y
  | _, _ => false
  end.

(* which class was driven, with the tuning constants READ FROM THE LIVE CLASS by the harness on every
   run: stream or datagram socket with MIN_PACKET_SIZE / MAX_PACKET_SIZE, or the serial port with
   the poll interval it hands to serial.Serial (in ticks).  The policy is the pinned one; the check
   below accepts every policy. *)
Inductive kcode := KSock (strm : bool) (mn mx : N) | KSerial (tk : Z).
Definition kind_of (k : kcode) : kind :=
  match k with
  | KSock st mn mx => Sock (mkcfg st mn mx true sock_pol)
  | KSerial tk => Serial (mkscfg tk ser_pol)
  end.

Definition obs := (res * list dcall)%type.
Definition obs_eqb (a b : obs) : bool := res_eqb (fst a) (fst b) && list_eqb dcall_eqb (snd a) (snd b).

(* class, initial clock, device script, call sequence, what the implementation did per call *)
Definition case := (kcode * Z * list ev * list op * list obs)%type.

Definition obs_of (k : kind) (t0 : Z) (o : list ev) (ops : list op) : list obs :=
  map (fun x => (o_res x, o_calls x)) (snd (run k (init o t0) ops)).

(* the pinned behaviour *)
Definition model_out (c : case) : list obs :=
  let '(k, t0, o, ops, _) := c in obs_of (kind_of k) t0 o ops.

Definition agrees (seen mo : list obs) : bool :=
  list_eqb obs_eqb mo seen && forallb (fun x => negb (res_eqb (fst x) RFuel)) mo.

(* membership in the allowed outcomes: what the implementation did is what SOME policy does (the
   pinned policy is tried first), and the model never ran out of fuel *)
Definition check_case (c : case) : bool :=
  let '(k, t0, o, ops, seen) := c in
  existsb (fun k' => agrees seen (obs_of k' t0 o ops)) (variants (kind_of k)).

(* the pinned policy alone (used to report how many cases needed another policy) *)
Definition check_case_pinned (c : case) : bool :=
  let '(k, t0, o, ops, seen) := c in agrees seen (obs_of (kind_of k) t0 o ops).

(* which policy explains the observation (for replays) *)
Definition matching_policy (c : case) : option pol :=
  let '(k, t0, o, ops, seen) := c in
  match k with
  | KSock _ _ _ | KSerial _ =>
      List.find (fun p => agrees seen (obs_of (with_pol (kind_of k) p) t0 o ops)) all_pols
  end.
