(* C13 — per-call and whole-run lemmas for all three transports. *)
From Coq Require Import List ZArith NArith Bool Lia ZifyBool ZifyNat ZifyN.
Require Import QV.C13.Model QV.C13.Proofs QV.C13.ProofsSerial.
Import ListNotations.

(* everything the device has delivered or will deliver that the caller has not been given yet *)
Definition total (s : st) : list N := buf s ++ pend s ++ stream_of (orc s).

(* sockets: byte stream or datagrams within the documented bound; no serial-port buffer *)
Definition kwf (k : kind) (s : st) : Prop :=
  match k with Sock c => wf c (orc s) /\ pend s = [] | Serial _ => True end.

Lemma smoved_total s s' out : smoved s s' out -> out ++ total s' = total s.
Proof.
  intros (rx & H1 & H2). unfold total. rewrite app_assoc, <- H1, <- app_assoc, H2. reflexivity.
Qed.

Lemma ret_nil_app r : ret r ++ [] = ret r.
Proof. apply app_nil_r. Qed.

Lemma write_spec k d s s' r :
  (match k with Sock _ => sock_write d s | Serial _ => ser_write d s end) = (s', r) ->
  is_open s' = is_open s /\ buf s' = buf s /\ pend s' = pend s /\ orc s' = orc s /\ clk s' = clk s /\
  (is_open s = false -> s' = s /\ r = RInvalid) /\
  (is_open s = true -> r = RNone /\
     dlog s' = DSend d :: dlog s).
Proof.
  destruct k; unfold sock_write, ser_write; destruct (is_open s) eqn:E; intros [= <- <-]; sim;
    repeat split; auto; discriminate.
Qed.

Lemma step_raw_spec k s o s' r d :
  step_raw k s o = (s', r, d) -> kwf k s ->
  kwf k s' /\ smoved s s' (ret r ++ d) /\ (forall c, k = Sock c -> r <> RFuel) /\ r <> RRuntime.
Proof.
  intros H W. destruct k as [c|sc]; cbn [kwf] in *.
  - destruct W as [W P].
    destruct o as [| |n t|tm t|n t| |wd]; cbn [step_raw] in H; unfold nodrop in H.
    + apply sock_open_spec in H as (H1 & H2 & H3 & H4 & H5 & H6).
      repeat split; try congruence.
      * apply moved_smoved; congruence.
      * intros c0 _. destruct (is_open s); [destruct H5 as (_ & -> & _) | destruct H6 as (-> & _)]; auto; discriminate.
      * destruct (is_open s); [destruct H5 as (_ & -> & _) | destruct H6 as (-> & _)]; auto; discriminate.
    + destruct (do_close s) as [s1 r1] eqn:E. inversion H; subst.
      apply do_close_spec in E as (H1 & H2 & H3 & H4 & H5 & H6).
      repeat split; try congruence.
      * apply moved_smoved; try congruence. rewrite app_nil_r.
        assert (ret r = []) as ->.
        { destruct (is_open s); [destruct H6 as (-> & _) | destruct H5 as (_ & ->)]; auto. }
        apply moved_refl; assumption.
      * intros c0 _. destruct (is_open s); [destruct H6 as (-> & _) | destruct H5 as (_ & ->)]; auto; discriminate.
      * destruct (is_open s); [destruct H6 as (-> & _) | destruct H5 as (_ & ->)]; auto; discriminate.
    + destruct (sock_read c n t s) as [s1 r1] eqn:E. inversion H; subst.
      apply sock_read_spec in E; [|exact W]. destruct E as (H1 & H2 & H3 & H4 & H5 & H6 & H7 & H8 & _).
      rewrite app_nil_r. repeat split; try congruence. apply moved_smoved; congruence.
    + destruct (sock_read_until c tm t s) as [s1 r1] eqn:E. inversion H; subst.
      apply sock_read_until_spec in E; [|exact W]. destruct E as (H1 & H2 & H3 & H4 & H5 & H6 & H7 & H8 & _).
      rewrite app_nil_r. repeat split; try congruence. apply moved_smoved; congruence.
    + destruct (sock_rut c n t s) as [s1 r1] eqn:E. inversion H; subst.
      apply sock_rut_spec in E; [|exact W]. destruct E as (H1 & H2 & H3 & H4 & H5 & H6 & H7 & H8 & _).
      rewrite app_nil_r. repeat split; try congruence. apply moved_smoved; congruence.
    + apply sock_discard_spec in H as (H1 & H2 & H3 & H4 & H5 & _).
      repeat split; try congruence; auto.
      * apply moved_smoved; congruence.
      * intros c0 _. destruct H5 as [-> | ->]; discriminate.
      * destruct H5 as [-> | ->]; discriminate.
    + destruct (sock_write wd s) as [s1 r1] eqn:E. inversion H; subst.
      apply (write_spec (Sock c)) in E as (H1 & H2 & H3 & H4 & H5 & H6 & H7).
      assert (ret r = [] /\ r <> RRuntime /\ r <> RFuel) as (-> & ? & ?).
      { destruct (is_open s); [destruct H7 as (-> & _) | destruct H6 as (_ & ->)]; auto; repeat split; discriminate. }
      repeat split; try congruence. apply smoved_refl; congruence.
  - destruct o as [| |n t|tm t|n t| |wd]; cbn [step_raw] in H; unfold nodrop in H.
    + apply ser_open_spec in H as (H1 & H2 & H3 & H4 & H5).
      repeat split; auto; try discriminate.
      destruct (is_open s); [destruct H4 as (_ & -> & _) | destruct H5 as (-> & _)]; auto; discriminate.
    + destruct (do_close s) as [s1 r1] eqn:E. inversion H; subst.
      apply do_close_spec in E as (H1 & H2 & H3 & H4 & H5 & H6).
      assert (ret r = [] /\ r <> RRuntime) as [-> ?].
      { destruct (is_open s); [destruct H6 as (-> & _) | destruct H5 as (_ & ->)]; auto; split; auto; discriminate. }
      repeat split; auto; try discriminate. apply smoved_refl; congruence.
    + destruct (ser_read_op sc n t s) as [s1 r1] eqn:E. inversion H; subst.
      apply ser_read_op_spec in E as (H1 & H2 & H3 & H4 & H5 & H6 & H7 & H8 & _).
      rewrite app_nil_r. repeat split; auto; discriminate.
    + destruct (ser_read_until sc tm t s) as [s1 r1] eqn:E. inversion H; subst.
      apply ser_read_until_spec in E as (H1 & H2 & H3 & H4 & H5 & H6 & H7).
      rewrite app_nil_r. repeat split; auto; discriminate.
    + destruct (ser_rut sc n t s) as [s1 r1] eqn:E. inversion H; subst.
      apply ser_rut_spec in E as (H1 & H2 & H3 & H4 & H5 & H6 & H7 & _).
      rewrite app_nil_r. repeat split; auto; discriminate.
    + apply ser_discard_spec in H as (H1 & H2 & H3 & _).
      repeat split; auto; try discriminate. destruct H3 as [-> | ->]; discriminate.
    + destruct (ser_write wd s) as [s1 r1] eqn:E. inversion H; subst.
      apply (write_spec (Serial sc)) in E as (H1 & H2 & H3 & H4 & H5 & H6 & H7).
      assert (ret r = [] /\ r <> RRuntime) as (-> & ?).
      { destruct (is_open s); [destruct H7 as (-> & _) | destruct H6 as (_ & ->)]; auto; split; auto; discriminate. }
      repeat split; auto; try discriminate. apply smoved_refl; congruence.
Qed.

Lemma step_unfold k s o s' x :
  step k s o = (s', x) ->
  step_raw k s o = (s', o_res x, o_dropped x) /\ o_calls x = new_calls s s'.
Proof.
  unfold step. destruct (step_raw k s o) as [[s1 r] d]. intros [= <- <-]. split; reflexivity.
Qed.

Lemma consumed_ret x : consumed x = ret (o_res x) ++ o_dropped x.
Proof. reflexivity. Qed.

(* one call *)
Lemma step_conservation k s o s' x :
  kwf k s -> step k s o = (s', x) -> consumed x ++ total s' = total s /\ kwf k s'.
Proof.
  intros W H. apply step_unfold in H as [H _].
  apply step_raw_spec in H as (H1 & H2 & _); [|exact W].
  split; [rewrite consumed_ret; apply smoved_total, H2 | exact H1].
Qed.

(* a whole call sequence *)
Lemma run_conservation k : forall ops s s' outs,
  kwf k s -> run k s ops = (s', outs) ->
  concat (map consumed outs) ++ total s' = total s /\ kwf k s'.
Proof.
  induction ops as [|o ops IH]; intros s s' outs W H; cbn [run] in H.
  - inversion H; subst. split; [reflexivity | exact W].
  - destruct (step k s o) as [s1 x] eqn:E.
    apply step_conservation in E as [E1 E2]; [|exact W].
    destruct (stops (o_res x)).
    + inversion H; subst. cbn [map concat]. rewrite app_nil_r. split; assumption.
    + destruct (run k s1 ops) as [s2 xs] eqn:R. inversion H; subst.
      apply IH in R as [R1 R2]; [|exact E2]. split; [|exact R2].
      cbn [map concat]. rewrite <- app_assoc, R1. exact E1.
Qed.

Lemma init_kwf_sock c o t0 : wf c o -> kwf (Sock c) (init o t0).
Proof. intros W. split; [exact W | reflexivity]. Qed.

Lemma run_conservation_init k o t0 ops s' outs :
  (forall c, k = Sock c -> wf c o) -> run k (init o t0) ops = (s', outs) ->
  concat (map consumed outs) ++ buf s' ++ pend s' ++ stream_of (orc s') = stream_of o.
Proof.
  intros W H. apply run_conservation in H as [H _].
  - exact H.
  - destruct k as [c|sc]; [apply init_kwf_sock, W; reflexivity | exact I].
Qed.

(* bytes are thrown away only by discard_read and (sockets) by open *)
Lemma dropped_only k s o s' x :
  step k s o = (s', x) -> o_dropped x <> [] -> o = OpDiscard \/ o = OpOpen.
Proof.
  intros H N. apply step_unfold in H as [H _].
  destruct k, o; cbn [step_raw] in H; unfold nodrop in H; auto; inversion H; congruence.
Qed.

Lemma read_exact k s n t s' x b :
  kwf k s -> step k s (OpRead n t) = (s', x) -> o_res x = RBytes b -> len b = n.
Proof.
  intros W H R. apply step_unfold in H as [H _]. destruct k as [c|sc]; cbn [step_raw] in H; unfold nodrop in H.
  - destruct W as [W _]. destruct (sock_read c n t s) as [s1 r1] eqn:E. inversion H; subst.
    apply sock_read_spec in E; [|exact W]. destruct E as (_ & _ & _ & _ & K5 & _). auto.
  - destruct (ser_read_op sc n t s) as [s1 r1] eqn:E. inversion H; subst.
    apply ser_read_op_spec in E as (_ & _ & K3 & _). auto.
Qed.

Lemma read_until_shortest k s tm t s' x b :
  kwf k s -> step k s (OpReadUntil tm t) = (s', x) -> o_res x = RBytes b -> shortest tm b.
Proof.
  intros W H R. apply step_unfold in H as [H _]. destruct k as [c|sc]; cbn [step_raw] in H; unfold nodrop in H.
  - destruct W as [W _]. destruct (sock_read_until c tm t s) as [s1 r1] eqn:E. inversion H; subst.
    apply sock_read_until_spec in E; [|exact W]. destruct E as (_ & _ & _ & _ & K5 & _). auto.
  - destruct (ser_read_until sc tm t s) as [s1 r1] eqn:E. inversion H; subst.
    apply ser_read_until_spec in E as (_ & _ & K3 & _). auto.
Qed.

Lemma rut_len k s n t s' x b :
  kwf k s -> step k s (OpRut n t) = (s', x) -> o_res x = RBytes b ->
  match k with Sock c => rut_slice c = true \/ minp c = 0%N | Serial _ => True end ->
  (len b <= n)%N.
Proof.
  intros W H R C. apply step_unfold in H as [H _]. destruct k as [c|sc]; cbn [step_raw] in H; unfold nodrop in H.
  - destruct W as [W _]. destruct (sock_rut c n t s) as [s1 r1] eqn:E. inversion H; subst.
    apply sock_rut_spec in E; [|exact W]. destruct E as (_ & _ & _ & _ & K5 & _). auto.
  - destruct (ser_rut sc n t s) as [s1 r1] eqn:E. inversion H; subst.
    apply ser_rut_spec in E as (_ & _ & K3 & _). auto.
Qed.

(* a call that does not return data leaves everything it had in the buffer (it may have added
   newly received bytes behind it) and throws nothing away *)
Lemma failed_keeps k s o s' x :
  kwf k s -> step k s o = (s', x) ->
  (exists n t, o = OpRead n t) \/ (exists tm t, o = OpReadUntil tm t) \/ (exists n t, o = OpRut n t) ->
  (forall b, o_res x <> RBytes b) ->
  o_dropped x = [] /\ exists rx, buf s' = buf s ++ rx /\
    rx ++ pend s' ++ stream_of (orc s') = pend s ++ stream_of (orc s).
Proof.
  intros W H Ho Hr. apply step_unfold in H as [H _].
  assert (D : o_dropped x = []).
  { destruct Ho as [(n & t & ->)|[(tm & t & ->)|(n & t & ->)]];
      destruct k; cbn [step_raw] in H; unfold nodrop in H; inversion H; reflexivity. }
  split; [exact D|].
  apply step_raw_spec in H as (_ & (rx & M1 & M2) & _); [|exact W].
  assert (ret (o_res x) = []) as E by (destruct (o_res x); try reflexivity; exfalso; eapply Hr; reflexivity).
  rewrite E, D in M1. cbn [app] in M1. exists rx. split; [now symmetry | exact M2].
Qed.

Lemma new_calls_same s s' : dlog s' = dlog s -> new_calls s s' = [].
Proof. unfold new_calls. intros ->. now rewrite Nat.sub_diag. Qed.

(* closed transport *)
Lemma closed_step k s o s' x :
  is_open s = false -> step k s o = (s', x) ->
  match o with
  | OpOpen => o_res x = RNone /\ is_open s' = true /\ orc s' = orc s /\ clk s' = clk s
  | OpReadUntil tm _ =>
      orc s' = orc s /\ clk s' = clk s /\ pend s' = pend s /\ o_calls x = [] /\
      ((s' = s /\ o_res x = RInvalid) \/
       (exists b, o_res x = RBytes b /\ b ++ buf s' = buf s /\ is_open s' = false))
  | _ => s' = s /\ o_res x = RInvalid /\ o_dropped x = [] /\ o_calls x = []
  end.
Proof.
  intros C H. apply step_unfold in H as [H Hc]. rewrite Hc.
  destruct k as [c|sc], o as [| |n t|tm t|n t| |wd]; cbn [step_raw] in H; unfold nodrop in H.
  - unfold sock_open in H. rewrite C in H. inversion H; subst; sim. auto.
  - unfold do_close in H. rewrite C in H. cbn in H. inversion H; subst. rewrite new_calls_same; auto.
  - unfold sock_read in H. rewrite C in H. cbn in H. inversion H; subst. rewrite new_calls_same; auto.
  - unfold sock_read_until in H. rewrite C in H. cbn [negb] in H.
    destruct (ru_chk_first (cpol c)); cbn [andb] in H.
    { cbn in H. inversion H; subst. rewrite new_calls_same; auto. repeat split; auto. }
    destruct (cut_term tm s) as [[sc0 rc]|] eqn:Ec.
    + cbn in H. inversion H; subst. apply cut_term_Some in Ec as (bb & rest & E1 & _ & Hcat & ->). sim.
      rewrite new_calls_same by reflexivity. repeat split; auto. right. exists bb. sim. auto.
    + cbn in H. inversion H; subst. rewrite new_calls_same; auto. repeat split; auto.
  - unfold sock_rut, sock_read in H. rewrite C in H. cbn in H. inversion H; subst. rewrite new_calls_same; auto.
  - unfold sock_discard in H. rewrite C in H. inversion H; subst. rewrite new_calls_same; auto.
  - unfold sock_write in H. rewrite C in H. cbn in H. inversion H; subst. rewrite new_calls_same; auto.
  - unfold ser_open in H. rewrite C in H. inversion H; subst; sim. auto.
  - unfold do_close in H. rewrite C in H. cbn in H. inversion H; subst. rewrite new_calls_same; auto.
  - unfold ser_read_op in H. rewrite C in H. cbn in H. inversion H; subst. rewrite new_calls_same; auto.
  - unfold ser_read_until in H. rewrite C in H. cbn [negb] in H.
    destruct (ru_chk_first (spol sc)).
    { cbn in H. inversion H; subst. rewrite new_calls_same; auto. repeat split; auto. }
    destruct (cut_term tm s) as [[sc0 rc]|] eqn:Ec.
    + cbn in H. inversion H; subst. apply cut_term_Some in Ec as (bb & rest & E1 & _ & Hcat & ->). sim.
      rewrite new_calls_same by reflexivity. repeat split; auto. right. exists bb. sim. auto.
    + cbn in H. inversion H; subst. rewrite new_calls_same; auto. repeat split; auto.
  - unfold ser_rut, ser_read_op in H. rewrite C in H. cbn in H. inversion H; subst. rewrite new_calls_same; auto.
  - unfold ser_discard in H. rewrite C in H. inversion H; subst. rewrite new_calls_same; auto.
  - unfold ser_write in H. rewrite C in H. cbn in H. inversion H; subst. rewrite new_calls_same; auto.
Qed.

Lemma open_refused k s :
  is_open s = true -> step k s OpOpen = (s, mkout RInvalid [] []).
Proof.
  intros O. unfold step. destruct k; cbn [step_raw]; unfold sock_open, ser_open; rewrite O;
    now rewrite new_calls_same.
Qed.

Lemma close_open k s s' x :
  is_open s = true -> step k s OpClose = (s', x) ->
  o_res x = RNone /\ is_open s' = false /\ buf s' = buf s /\ orc s' = orc s /\ o_calls x = [DClose].
Proof.
  intros O H. apply step_unfold in H as [H Hc]. rewrite Hc.
  assert (E : do_close s = (s', o_res x)).
  { destruct k; cbn [step_raw] in H; unfold nodrop in H; destruct (do_close s); inversion H; subst; reflexivity. }
  unfold do_close in E. rewrite O in E. inversion E; subst; sim. repeat split; auto.
  unfold new_calls. sim. cbn [length]. replace (S (length (dlog s)) - length (dlog s)) with 1 by lia.
  reflexivity.
Qed.

Lemma sock_no_fuel c s o s' x :
  wf c (orc s) -> pend s = [] -> step (Sock c) s o = (s', x) ->
  o_res x <> RFuel /\ o_res x <> RRuntime.
Proof.
  intros W P H. apply step_unfold in H as [H _].
  apply step_raw_spec in H as (_ & _ & F & R); [|split; assumption]. split; [apply (F c eq_refl) | exact R].
Qed.

(* the current QMI_UdpTransport: one 10-byte datagram one tick late, read_until_timeout(4, 0) *)
Lemma rut_len_udp_refuted :
  exists s n t s' x b,
    kwf (Sock udp_cfg_cur) s /\ step (Sock udp_cfg_cur) s (OpRut n t) = (s', x) /\
    o_res x = RBytes b /\ (n < len b)%N.
Proof.
  exists (mkst true [] [] [Chunk [65;66;67;68;69;70;71;72;73;74]%N 1] 0 [DOpen]), 4%N, (Some 0%Z).
  eexists. eexists. eexists. split; [|split; [vm_compute; reflexivity | split; [reflexivity | vm_compute; reflexivity]]].
  split; [|reflexivity]. right. constructor; [vm_compute; discriminate | constructor].
Qed.
