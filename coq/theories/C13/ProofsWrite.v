(* C13 — the write path (every accepted write reaches the device's send call unchanged and in
   order; nothing else ever sends) and the position of every result in the stream. *)
From Coq Require Import List ZArith NArith Bool Lia ZifyBool ZifyNat ZifyN.
Require Import QV.C13.Model QV.C13.Proofs QV.C13.ProofsSerial QV.C13.ProofsRun.
Import ListNotations.

(* the call left the list of sent byte strings as it was *)
Definition quiet (s s' : st) : Prop := sentl (dlog s') = sentl (dlog s).

Ltac qsolve := unfold quiet in *; sim; cbn [sentl] in *; try reflexivity; try congruence.

Lemma dev_recv_quiet c size tmo s s' d : dev_recv c size tmo s = (s', d) -> quiet s s'.
Proof. intros H. apply dev_recv_spec in H as (_ & _ & _ & Hd & _). qsolve. Qed.

Lemma read_loop_quiet c : forall fuel n tmo ts tr s s' r,
  read_loop c fuel n tmo ts tr s = (s', r) -> quiet s s'.
Proof.
  induction fuel as [|f IH]; intros n tmo ts tr s s' r H; cbn [read_loop] in H.
  - inversion H; qsolve.
  - destruct (n <=? len (buf s))%N; [inversion H; subst; qsolve|].
    destruct (tmo_neg tr); [inversion H; subst; qsolve|].
    match type of H with context [dev_recv ?a ?b ?c ?d] => destruct (dev_recv a b c d) as [s1 dv] eqn:Ed end.
    apply dev_recv_quiet in Ed.
    destruct dv as [b| |b|]; [destruct b as [|x b]| | |]; try (inversion H; subst; solve [qsolve]).
    match type of H with context [deadline ?a0 ?a1 ?a2 ?a3] => destruct (deadline a0 a1 a2 a3) end.
    + apply IH in H. qsolve.
    + destruct (late_read (cpol c) && _); inversion H; subst; qsolve.
    + apply IH in H. qsolve.
Qed.

Lemma ru_loop_quiet c term : forall fuel tmo ts tr s s' r,
  ru_loop c fuel term tmo ts tr s = (s', r) -> quiet s s'.
Proof.
  induction fuel as [|f IH]; intros tmo ts tr s s' r H; cbn [ru_loop] in H.
  - inversion H; qsolve.
  - destruct (tmo_neg tr); [inversion H; subst; qsolve|].
    match type of H with context [dev_recv ?a ?b ?c ?d] => destruct (dev_recv a b c d) as [s1 dv] eqn:Ed end.
    apply dev_recv_quiet in Ed.
    destruct dv as [b| |b|]; [destruct b as [|x b]| | |]; try (inversion H; subst; solve [qsolve]).
    destruct (cut_term term (set_buf s1 (buf s1 ++ x :: b))) as [[sc rc]|] eqn:Ec.
    + apply cut_term_Some in Ec as (bb & rest & _ & _ & _ & ->).
      match type of H with context [deadline ?a0 ?a1 ?a2 ?a3] => destruct (deadline a0 a1 a2 a3) end;
        try destruct (late_ru (cpol c)); inversion H; subst; qsolve.
    + match type of H with context [deadline ?a0 ?a1 ?a2 ?a3] => destruct (deadline a0 a1 a2 a3) end;
        [apply IH in H; qsolve | inversion H; subst; qsolve | apply IH in H; qsolve].
Qed.

Lemma discard_loop_quiet c : forall fuel s acc s' r d,
  discard_loop c fuel s acc = (s', r, d) -> quiet s s'.
Proof.
  induction fuel as [|f IH]; intros s acc s' r d H; cbn [discard_loop] in H.
  - inversion H; qsolve.
  - match type of H with context [dev_recv ?a ?b ?c ?d] => destruct (dev_recv a b c d) as [s1 dv] eqn:Ed end.
    apply dev_recv_quiet in Ed.
    destruct dv as [b| |b|]; [destruct b as [|x b]| | |]; try (inversion H; subst; solve [qsolve]).
    destruct (disc_once (cpol c)); [inversion H; subst; qsolve|].
    apply IH in H. qsolve.
Qed.

Lemma ser_arrive_quiet s : quiet s (ser_arrive s).
Proof. destruct (ser_arrive_spec s) as (_ & _ & Hd & _). qsolve. Qed.

Lemma ser_in_waiting_quiet s s' w : ser_in_waiting s = (s', w) -> quiet s s'.
Proof. unfold ser_in_waiting. intros [= <- <-]. pose proof (ser_arrive_quiet s). qsolve. Qed.

Lemma ser_read_quiet tk k s s' b sil : ser_read tk k s = (s', b, sil) -> quiet s s'.
Proof.
  unfold ser_read. pose proof (ser_arrive_quiet s).
  destruct (match orc s with [] => (len (pend s) <? k)%N | _ :: _ => false end); intros [= <- <- <-]; qsolve.
Qed.

Lemma ser_read_loop_quiet sc : forall fuel n tmo ts s s' r,
  ser_read_loop sc fuel n tmo ts s = (s', r) -> quiet s s'.
Proof.
  induction fuel as [|f IH]; intros n tmo ts s s' r H; cbn [ser_read_loop] in H.
  - inversion H; qsolve.
  - destruct (ser_read (tick sc) (n - len (buf s)) s) as [[s1 b] sil] eqn:Er. apply ser_read_quiet in Er.
    destruct (n <=? len (buf (set_buf s1 (buf s1 ++ b))))%N.
    { destruct (deadline _ tmo ts (clk (set_buf s1 (buf s1 ++ b))));
        try destruct (late_read (spol sc)); inversion H; subst; qsolve. }
    destruct (deadline _ tmo ts (clk (set_buf s1 (buf s1 ++ b)))).
    + destruct sil; [inversion H; subst; qsolve|]. apply IH in H. qsolve.
    + inversion H; subst; qsolve.
    + apply IH in H. qsolve.
Qed.

Lemma ser_ru_loop_quiet sc term : forall fuel tmo ts tr s s' r,
  ser_ru_loop sc fuel term tmo ts tr s = (s', r) -> quiet s s'.
Proof.
  induction fuel as [|f IH]; intros tmo ts tr s s' r H; cbn [ser_ru_loop] in H.
  - inversion H; qsolve.
  - destruct (tr_passed _ tr); [inversion H; subst; qsolve|].
    destruct (ser_read (tick sc) 1 s) as [[s1 b] sil] eqn:Er. apply ser_read_quiet in Er.
    destruct (endswith (buf (set_buf s1 (buf s1 ++ b))) term).
    { destruct (deadline _ tmo ts (clk (set_buf s1 (buf s1 ++ b))));
        try destruct (late_ru (spol sc)); inversion H; subst; qsolve. }
    destruct tmo as [t|].
    + apply IH in H. qsolve.
    + destruct sil; [inversion H; subst; qsolve|]. apply IH in H. qsolve.
Qed.

Lemma sock_read_quiet c n t s s' r : sock_read c n t s = (s', r) -> quiet s s'.
Proof.
  unfold sock_read. destruct (is_open s); [apply read_loop_quiet | intros [= <- <-]; qsolve].
Qed.

Lemma ser_read_op_quiet sc n tmo s s' r : ser_read_op sc n tmo s = (s', r) -> quiet s s'.
Proof.
  unfold ser_read_op. intros H. destruct (negb (is_open s)); [inversion H; subst; qsolve|].
  destruct (n <=? len (buf s))%N; [inversion H; subst; qsolve|].
  destruct (tmo_nonpos tmo); [|apply ser_read_loop_quiet in H; exact H].
  destruct (ser_in_waiting s) as [s1 w] eqn:Ew. apply ser_in_waiting_quiet in Ew.
  destruct (n - len (buf s) <=? w)%N; [|inversion H; subst; qsolve].
  destruct (ser_read (tick sc) (n - len (buf s)) s1) as [[s2 b] sil] eqn:Er. apply ser_read_quiet in Er.
  destruct (len (buf (set_buf s2 (buf s2 ++ b))) <? n)%N; inversion H; subst; qsolve.
Qed.

(* what one call adds to the list of sent byte strings *)
Definition wrote (o : op) (r : res) : list (list N) :=
  match o, r with OpWrite d, RNone => [d] | _, _ => [] end.

Lemma step_sent k s o s' x :
  step k s o = (s', x) -> sentl (dlog s') = wrote o (o_res x) ++ sentl (dlog s).
Proof.
  intros H. apply step_unfold in H as [H _].
  destruct k as [c|sc], o as [| |n t|tm t|n t| |wd]; cbn [step_raw] in H; unfold nodrop in H; cbn [wrote app].
  - unfold sock_open in H. destruct (is_open s); inversion H; subst; qsolve.
  - unfold do_close in H. destruct (is_open s); inversion H; subst; qsolve.
  - destruct (sock_read c n t s) as [s1 r1] eqn:E. inversion H; subst. apply sock_read_quiet in E. exact E.
  - unfold sock_read_until in H. destruct (ru_chk_first (cpol c) && negb (is_open s)); [inversion H; subst; qsolve|].
    destruct (cut_term tm s) as [[sc rc]|] eqn:Ec.
    + inversion H; subst. apply cut_term_Some in Ec as (bb & rest & _ & _ & _ & ->). qsolve.
    + destruct (is_open s).
      * destruct (ru_loop c (fuel_of s) tm t (clk s) t s) as [s1 r1] eqn:E. inversion H; subst.
        apply ru_loop_quiet in E. exact E.
      * inversion H; subst. qsolve.
  - unfold sock_rut in H. destruct (sock_read c n t s) as [s1 r1] eqn:E. apply sock_read_quiet in E.
    unfold take_buf in H.
    destruct r1; try (inversion H; subst; exact E);
      try (destruct (buf s1)); destruct (rut_slice c); inversion H; subst; qsolve.
  - unfold sock_discard in H. destruct (is_open s); [|inversion H; subst; qsolve].
    apply discard_loop_quiet in H. qsolve.
  - unfold sock_write in H. destruct (is_open s); inversion H; subst; qsolve.
  - unfold ser_open in H. destruct (is_open s); inversion H; subst; qsolve.
  - unfold do_close in H. destruct (is_open s); inversion H; subst; qsolve.
  - destruct (ser_read_op sc n t s) as [s1 r1] eqn:E. inversion H; subst. apply ser_read_op_quiet in E. exact E.
  - unfold ser_read_until in H. destruct (negb (is_open s)).
    { destruct (ru_chk_first (spol sc)); [inversion H; subst; qsolve|].
      destruct (cut_term tm s) as [[sc0 rc]|] eqn:Ec; [|inversion H; subst; qsolve].
      inversion H; subst sc0 rc. apply cut_term_Some in Ec as (bb & rest & _ & _ & _ & ->). qsolve. }
    set (s1 := match find tm (buf s) with
               | Some _ => s
               | None => let '(sa, w) := ser_in_waiting s in
                         let '(sb, b, _) := ser_read (tick sc) w sa in set_buf sb (buf sb ++ b)
               end) in *.
    assert (Q1 : quiet s s1).
    { subst s1. destruct (find tm (buf s)); [qsolve|].
      destruct (ser_in_waiting s) as [sa w] eqn:Ew. apply ser_in_waiting_quiet in Ew.
      destruct (ser_read (tick sc) w sa) as [[sb b] sil] eqn:Er. apply ser_read_quiet in Er. qsolve. }
    destruct (cut_term tm s1) as [[sc1 rc]|] eqn:Ec.
    + inversion H; subst sc1 rc. apply cut_term_Some in Ec as (bb & rest & _ & _ & _ & E). rewrite E in *. qsolve.
    + destruct (ser_ru_loop sc (ser_fuel t s1) tm t (clk s1) t s1) as [s2 r2] eqn:E. inversion H; subst.
      apply ser_ru_loop_quiet in E. qsolve.
  - unfold ser_rut in H. destruct (ser_read_op sc n t s) as [s1 r1] eqn:E. apply ser_read_op_quiet in E.
    destruct r1; inversion H; subst; qsolve.
  - unfold ser_discard in H. pose proof (ser_arrive_quiet s).
    destruct (is_open s); inversion H; subst; qsolve.
  - unfold ser_write in H. destruct (is_open s); inversion H; subst; qsolve.
Qed.

Lemma aw_nil ops : accepted_writes ops [] = [].
Proof. destruct ops as [|[]]; reflexivity. Qed.

Lemma aw_cons o ops x xs :
  accepted_writes (o :: ops) (x :: xs) = wrote o (o_res x) ++ accepted_writes ops xs.
Proof. destruct o; cbn [accepted_writes wrote app]; try reflexivity. destruct (o_res x); reflexivity. Qed.

Lemma run_sent k : forall ops s s' outs,
  run k s ops = (s', outs) -> sent s' = sent s ++ accepted_writes ops outs.
Proof.
  induction ops as [|o ops IH]; intros s s' outs H; cbn [run] in H.
  - inversion H; subst. cbn. now rewrite app_nil_r.
  - destruct (step k s o) as [s1 x] eqn:E. apply step_sent in E.
    assert (E1 : sent s1 = sent s ++ wrote o (o_res x)).
    { unfold sent. rewrite E, rev_app_distr. f_equal. unfold wrote. destruct o, (o_res x); reflexivity. }
    destruct (stops (o_res x)) eqn:St.
    + inversion H; subst. rewrite aw_cons, aw_nil, app_nil_r. exact E1.
    + destruct (run k s1 ops) as [s2 xs] eqn:R. inversion H; subst. apply IH in R.
      rewrite aw_cons, R, E1, <- app_assoc. reflexivity.
Qed.

Lemma run_sent_init k o t0 ops s' outs :
  run k (init o t0) ops = (s', outs) -> sent s' = accepted_writes ops outs.
Proof. intros H. apply run_sent in H. exact H. Qed.

(* write on an open transport: accepted, exactly one send with the caller's bytes, read side untouched *)
Lemma write_open k s d s' x :
  is_open s = true -> step k s (OpWrite d) = (s', x) ->
  o_res x = RNone /\ o_dropped x = [] /\
  o_calls x = [DSend d] /\
  buf s' = buf s /\ pend s' = pend s /\ orc s' = orc s /\ clk s' = clk s /\ is_open s' = true.
Proof.
  intros O H. apply step_unfold in H as [H Hc]. rewrite Hc.
  destruct k; cbn [step_raw] in H; unfold nodrop, sock_write, ser_write in H; rewrite O in H;
    cbn [fst snd] in H; inversion H; subst; sim; repeat split; auto;
    unfold new_calls; sim; cbn [length].
  - replace (S (length (dlog s)) - length (dlog s)) with 1 by lia. reflexivity.
  - replace (S (length (dlog s)) - length (dlog s)) with 1 by lia. reflexivity.
Qed.

(* ---- position of every result in the stream ------------------------------------------------- *)

(* the bytes call x returned are the stream bytes right after everything earlier calls returned OR
   discarded: a discarded byte (it lies before that offset) can never be part of a later result *)
Lemma result_position k o t0 ops s' pre x post :
  (forall c, k = Sock c -> wf c o) ->
  run k (init o t0) ops = (s', pre ++ x :: post) ->
  firstn (length (returned x)) (skipn (length (concat (map consumed pre))) (stream_of o)) = returned x.
Proof.
  intros W H. apply run_conservation_init in H; [|exact W].
  rewrite map_app, concat_app in H. cbn [map concat] in H. rewrite <- H.
  rewrite <- !app_assoc. rewrite skipn_app, Nat.sub_diag, skipn_all. cbn [app skipn].
  unfold consumed at 1. rewrite <- !app_assoc. rewrite firstn_app, Nat.sub_diag, firstn_all. cbn [firstn].
  now rewrite app_nil_r.
Qed.
