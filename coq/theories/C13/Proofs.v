(* C13 — lemmas about the socket transports (QMI_TcpTransport / QMI_UdpTransport) and the shared
   byte-string helpers.  Serial lemmas: ProofsSerial.v.  Run-level lemmas: ProofsRun.v. *)
From Coq Require Import List ZArith NArith Bool Lia ZifyBool ZifyNat ZifyN.
Require Import QV.C13.Model.
Import ListNotations.

Ltac sim := cbn [is_open buf pend orc clk dlog set_open set_buf set_pend set_orc set_clk logc
                 fst snd nodrop o_res o_dropped o_calls] in *.

(* ------------------------------------------------------------------------------------------ *)
(* take / drop / len                                                                           *)
(* ------------------------------------------------------------------------------------------ *)

Lemma take_drop n l : take n l ++ drop n l = l.
Proof. apply firstn_skipn. Qed.

Lemma len_app a b : len (a ++ b) = (len a + len b)%N.
Proof. unfold len. rewrite app_length. lia. Qed.

Lemma len_nil : len [] = 0%N.
Proof. reflexivity. Qed.

Lemma len_take_le n l : (len (take n l) <= n)%N.
Proof. unfold len, take. pose proof (firstn_le_length (N.to_nat n) l). rewrite firstn_length. lia. Qed.

Lemma len_take n l : (n <= len l)%N -> len (take n l) = n.
Proof. unfold len, take. intros H. rewrite firstn_length. lia. Qed.

Lemma len_0_nil l : len l = 0%N -> l = [].
Proof. destruct l; [reflexivity|]. unfold len. cbn [length]. lia. Qed.

(* ------------------------------------------------------------------------------------------ *)
(* bytes.find / endswith                                                                       *)
(* ------------------------------------------------------------------------------------------ *)

(* [t] occurs in [s] at index [i] *)
Definition occ (t s : list N) (i : nat) : Prop := exists a b, s = a ++ t ++ b /\ length a = i.

(* [b] ends with [t] and contains [t] nowhere else: the shortest data ending with the terminator *)
Definition shortest (t b : list N) : Prop :=
  exists a, b = a ++ t /\ forall i, occ t b i -> i = length a.

Lemma prefixb_spec t : forall s, prefixb t s = true <-> exists b, s = t ++ b.
Proof.
  induction t as [|x t IH]; intros s; cbn [prefixb].
  - split; [intros _; exists s; reflexivity | reflexivity].
  - destruct s as [|y s].
    + split; [discriminate | intros [b Hb]; discriminate].
    + rewrite andb_true_iff, N.eqb_eq, IH. split.
      * intros [-> [b ->]]. exists b. reflexivity.
      * intros [b Hb]. cbn in Hb. inversion Hb; subst. split; [reflexivity | exists b; reflexivity].
Qed.

Lemma occ_0 t s : occ t s 0 <-> prefixb t s = true.
Proof.
  rewrite prefixb_spec. split.
  - intros (a & b & -> & Ha). destruct a; [|discriminate]. exists b. reflexivity.
  - intros [b ->]. exists [], b. split; reflexivity.
Qed.

Lemma occ_S t y s i : occ t (y :: s) (S i) <-> occ t s i.
Proof.
  split.
  - intros (a & b & E & Ha). destruct a as [|z a]; [discriminate|]. cbn in E. inversion E; subst.
    exists a, b. split; [reflexivity | cbn in Ha; lia].
  - intros (a & b & -> & Ha). exists (y :: a), b. split; [reflexivity | cbn; lia].
Qed.

Lemma occ_bound t s i : occ t s i -> i + length t <= length s.
Proof. intros (a & b & -> & <-). rewrite !app_length. lia. Qed.

Lemma find_Some t : forall s p, find t s = Some p ->
  occ t s p /\ forall i, i < p -> ~ occ t s i.
Proof.
  induction s as [|y s IH]; intros p; cbn [find].
  - destruct (prefixb t []) eqn:E; [|discriminate]. intros [= <-]. split; [apply occ_0, E | lia].
  - destruct (prefixb t (y :: s)) eqn:E.
    + intros [= <-]. split; [apply occ_0, E | lia].
    + destruct (find t s) as [q|] eqn:F; cbn [option_map]; [|discriminate]. intros [= <-].
      destruct (IH q eq_refl) as [H1 H2]. split; [apply occ_S, H1|].
      intros [|i] Hi.
      * rewrite occ_0. congruence.
      * rewrite occ_S. apply H2. lia.
Qed.

Lemma find_None t : forall s, find t s = None -> forall i, ~ occ t s i.
Proof.
  induction s as [|y s IH]; cbn [find].
  - destruct (prefixb t []) eqn:E; [discriminate|]. intros _ i H.
    pose proof (occ_bound _ _ _ H) as B. cbn in B. destruct t; [cbn in E; discriminate | cbn in B; lia].
  - destruct (prefixb t (y :: s)) eqn:E; [discriminate|].
    destruct (find t s) eqn:F; cbn [option_map]; [discriminate|]. intros _ [|i].
    + rewrite occ_0. congruence.
    + rewrite occ_S. apply IH. reflexivity.
Qed.

(* an occurrence in a prefix is an occurrence in the whole, and conversely when it fits *)
Lemma occ_app_l t x y i : occ t x i -> occ t (x ++ y) i.
Proof. intros (a & b & -> & Ha). exists a, (b ++ y). split; [now rewrite <- !app_assoc | exact Ha]. Qed.

Lemma app_eq_split {A} (a b c d : list A) :
  a ++ b = c ++ d -> length a <= length c -> exists m, c = a ++ m /\ b = m ++ d.
Proof.
  revert c. induction a as [|x a IH]; intros c E L.
  - exists c. split; [reflexivity | exact E].
  - destruct c as [|z c]; [cbn in L; lia|]. cbn in E. inversion E; subst.
    destruct (IH c H1) as (m & -> & ->); [cbn in L; lia|]. exists m. split; reflexivity.
Qed.

Lemma occ_app_inv t x y i : occ t (x ++ y) i -> i + length t <= length x -> occ t x i.
Proof.
  intros (a & b & E & Ha) L.
  assert (E' : (a ++ t) ++ b = x ++ y) by (rewrite <- app_assoc; symmetry; exact E).
  apply app_eq_split in E' as (m & -> & _); [|rewrite app_length; lia].
  exists a, m. split; [now rewrite <- app_assoc | exact Ha].
Qed.

Lemma shortest_of_find t s p :
  find t s = Some p -> shortest t (firstn (p + length t) s) /\
                       length (firstn (p + length t) s) = p + length t.
Proof.
  intros F. destruct (find_Some _ _ _ F) as [(a & b & E & Ha) Hmin].
  assert (Ef : firstn (p + length t) s = a ++ t).
  { subst s. rewrite app_assoc. rewrite firstn_app.
    replace (p + length t - length (a ++ t)) with 0 by (rewrite app_length; lia).
    rewrite firstn_O, app_nil_r. apply firstn_all2. rewrite app_length. lia. }
  split.
  - exists a. split; [exact Ef|]. intros i Hi. rewrite Ef in Hi.
    pose proof (occ_bound _ _ _ Hi) as B. rewrite app_length in B.
    assert (~ i < p).
    { intros Hlt. apply (Hmin i Hlt). subst s. rewrite app_assoc. apply occ_app_l. exact Hi. }
    lia.
  - rewrite Ef, app_length. lia.
Qed.

Lemma endswith_spec s t : endswith s t = true <-> exists a, s = a ++ t.
Proof.
  unfold endswith. rewrite andb_true_iff, Nat.leb_le, prefixb_spec. split.
  - intros [L [b E]]. exists (firstn (length s - length t) s).
    assert (Hl : length (skipn (length s - length t) s) = length t) by (rewrite skipn_length; lia).
    rewrite E, app_length in Hl. assert (b = []) by (destruct b; [reflexivity | cbn in Hl; lia]).
    subst b. rewrite app_nil_r in E.
    transitivity (firstn (length s - length t) s ++ skipn (length s - length t) s);
      [symmetry; apply firstn_skipn | now rewrite E].
  - intros [a ->]. rewrite app_length. split; [lia|].
    replace (length a + length t - length t) with (length a) by lia.
    exists []. rewrite skipn_app, Nat.sub_diag, skipn_all. cbn. now rewrite app_nil_r.
Qed.

(* ------------------------------------------------------------------------------------------ *)
(* Device well-formedness and measure                                                          *)
(* ------------------------------------------------------------------------------------------ *)

Definition ev_ok (c : cfg) (e : ev) : Prop :=
  match e with Chunk bs _ => (len bs <= N.min (minp c) (maxp c))%N | _ => True end.

(* a byte stream, or datagrams no larger than the receive sizes the transport uses *)
Definition wf (c : cfg) (o : list ev) : Prop := stream c = true \/ Forall (ev_ok c) o.

Definition meas (s : st) : nat := length (orc s) + length (stream_of (orc s)).

Definition ret (r : res) : list N := match r with RBytes b => b | _ => [] end.

Lemma dev_recv_spec c size tmo s s' d :
  dev_recv c size tmo s = (s', d) ->
  is_open s' = is_open s /\ buf s' = buf s /\ pend s' = pend s /\ dlog s' = dlog s /\
  (wf c (orc s) -> wf c (orc s')) /\
  match d with
  | DvData b => b ++ stream_of (orc s') = stream_of (orc s) /\ (len b <= size)%N /\
                (b <> [] -> meas s' < meas s)
  | DvOsErr b => (wf c (orc s) -> (len b <= N.min (minp c) (maxp c))%N) /\ (size < len b)%N /\
                 b ++ stream_of (orc s') = stream_of (orc s)
  | _ => stream_of (orc s') = stream_of (orc s)
  end.
Proof.
  unfold dev_recv, meas. destruct s as [o b p oc ck dl]; sim.
  destruct oc as [|[bs dt|dt|] r].
  - destruct tmo; intros [= <- <-]; sim; repeat split; auto.
  - destruct (stream c) eqn:Es.
    + intros [= <- <-]; sim. repeat split; auto.
      * intros _. left. exact Es.
      * pose proof (take_drop size bs) as TD. destruct (drop size bs) eqn:Ed; cbn [stream_of].
        -- rewrite app_nil_r in TD. now rewrite TD.
        -- rewrite app_assoc, TD. reflexivity.
      * apply len_take_le.
      * intros Hne. pose proof (take_drop size bs) as TD. apply (f_equal (@length N)) in TD.
        rewrite app_length in TD.
        assert (length (take size bs) <> 0) by (destruct (take size bs); [congruence | cbn; lia]).
        destruct (drop size bs) eqn:Ed; cbn [stream_of length] in *; rewrite !app_length; cbn [length] in *; lia.
    + destruct (len bs <=? size)%N eqn:El; intros [= <- <-]; sim.
      * repeat split; auto.
        -- intros [W|W]; [congruence | right; now inversion W].
        -- lia.
        -- intros _. cbn [stream_of length]. rewrite app_length. lia.
      * repeat split; auto.
        -- intros [W|W]; [congruence | right; now inversion W].
        -- intros [W|W]; [congruence | inversion W; subst; assumption].
        -- lia.
  - intros [= <- <-]; sim. repeat split; auto.
    intros [W|W]; [now left | right; now inversion W].
  - intros [= <- <-]; sim. repeat split; auto. rewrite len_nil. lia. congruence.
Qed.

(* ------------------------------------------------------------------------------------------ *)
(* What every call does to the byte stream: [moved s s' out] says that the bytes handed to the *)
(* caller or thrown away ([out]), followed by the new buffer, are the old buffer followed by    *)
(* the bytes [rx] newly received from the device, and the device has exactly [rx] less to give. *)
(* ------------------------------------------------------------------------------------------ *)

Definition moved (s s' : st) (out : list N) : Prop :=
  exists rx, buf s ++ rx = out ++ buf s' /\ rx ++ stream_of (orc s') = stream_of (orc s).

Lemma moved_refl s s' : buf s' = buf s -> orc s' = orc s -> moved s s' [].
Proof. intros Hb Ho. exists []. rewrite Hb, Ho, app_nil_r. split; reflexivity. Qed.

Lemma moved_recv s s1 s' b out :
  buf s1 = buf s ++ b -> b ++ stream_of (orc s1) = stream_of (orc s) ->
  moved s1 s' out -> moved s s' out.
Proof.
  intros Hb Hs (rx & H1 & H2). exists (b ++ rx). split.
  - rewrite app_assoc, <- Hb. exact H1.
  - rewrite <- app_assoc, H2. exact Hs.
Qed.

Lemma moved_cut s s1 s' out k :
  moved s s1 [] -> out = firstn k (buf s1) -> buf s' = skipn k (buf s1) -> orc s' = orc s1 ->
  moved s s' out.
Proof.
  intros (rx & H1 & H2) -> Hb Ho. exists rx. rewrite Hb, Ho, firstn_skipn. split; assumption.
Qed.


(* ---- read ---------------------------------------------------------------------------------- *)

Lemma read_loop_spec c : forall fuel n tmo ts tr s s' r,
  wf c (orc s) -> read_loop c fuel n tmo ts tr s = (s', r) ->
  is_open s' = is_open s /\ pend s' = pend s /\ moved s s' (ret r) /\ wf c (orc s') /\
  (forall b, r = RBytes b -> len b = n) /\
  r <> RRuntime /\ r <> RNone /\ r <> RInvalid /\
  (minp c = 0%N -> r = RTimeout \/ r = REof -> (len (buf s') <= n)%N) /\
  (meas s < fuel -> r <> RFuel).
Proof.
  induction fuel as [|f IH]; intros n tmo ts tr s s' r W H; cbn [read_loop] in H.
  - inversion H; subst. repeat split; try congruence; try (apply moved_refl; reflexivity); try lia.
    intros _ [|]; discriminate.
  - destruct (n <=? len (buf s))%N eqn:En.
    { inversion H; subst; sim. repeat split; try congruence; try assumption.
      - exists []. rewrite app_nil_r. cbn [ret]. split; [symmetry; apply take_drop | reflexivity].
      - intros b0 [= <-]. apply len_take. lia.
      - intros _ [|]; discriminate. }
    destruct (tmo_neg tr) eqn:Etn.
    { inversion H; subst; sim. repeat split; try congruence; try assumption.
      - apply moved_refl; reflexivity.
      - intros _ [|]; discriminate. }
    destruct (dev_recv c (N.max (n - len (buf s)) (minp c)) tr
                (logc (logc s (DSetTmo tr)) (DRecvFrom (N.max (n - len (buf s)) (minp c))))) as [s1 d] eqn:Ed.
    apply dev_recv_spec in Ed as (Eo & Eb & Ep & _ & Ew & Ed). sim.
    destruct d as [b| |b|].
    + destruct Ed as (Es & Elen & Em). destruct b as [|x b].
      * inversion H; subst. repeat split; try congruence; auto.
        -- exists []. cbn [ret app]. rewrite app_nil_r, Eb. split; [reflexivity | exact Es].
        -- intros _ _. rewrite Eb. lia.
      * assert (REC : forall tr', read_loop c f n tmo ts tr' (set_buf s1 (buf s1 ++ x :: b)) = (s', r) ->
          is_open s' = is_open s /\ pend s' = pend s /\ moved s s' (ret r) /\ wf c (orc s') /\
          (forall b, r = RBytes b -> len b = n) /\
          r <> RRuntime /\ r <> RNone /\ r <> RInvalid /\
          (minp c = 0%N -> r = RTimeout \/ r = REof -> (len (buf s') <= n)%N) /\
          (meas s < S f -> r <> RFuel)).
        { intros tr' HH. apply IH in HH; [|sim; auto]. sim.
          destruct HH as (Ho' & Hp' & Hm & Hw & Hb & Hr1 & Hr2 & Hr3 & Hmin & Hf).
          repeat split; try congruence; auto.
          - apply (moved_recv s (set_buf s1 (buf s1 ++ x :: b)) s' (x :: b)); sim;
              [now rewrite Eb | exact Es | exact Hm].
          - intros Hlt. apply Hf. unfold meas in *. sim.
            assert (Hne : x :: b <> []) by discriminate. specialize (Em Hne). unfold meas in Em. sim. lia. }
        destruct (deadline _ tmo ts (clk s1)) as [| |tr'] eqn:E.
        -- apply REC in H. exact H.
        -- destruct (late_read (cpol c) && (n <=? len (buf s1 ++ x :: b))%N) eqn:El.
           ++ apply andb_true_iff in El as [_ El]. inversion H; subst; sim.
              repeat split; try congruence; auto.
              ** exists (x :: b). cbn [ret]. rewrite Eb, take_drop. split; [reflexivity | exact Es].
              ** intros b0 [= <-]. apply len_take. lia.
              ** intros _ [|]; discriminate.
           ++ inversion H; subst; sim. repeat split; try congruence; auto.
              ** exists (x :: b). cbn [ret app]. rewrite Eb. split; [reflexivity | exact Es].
              ** intros M _. rewrite Eb, len_app. lia.
        -- apply REC in H. exact H.
    + inversion H; subst. repeat split; try congruence; auto.
      * exists []. cbn [ret app]. rewrite app_nil_r, Eb. split; [reflexivity | exact Ed].
      * intros _ _. rewrite Eb. lia.
    + exfalso. destruct Ed as (Ebound & Esz & _). specialize (Ebound W). lia.
    + inversion H; subst. repeat split; try congruence; auto.
      * exists []. cbn [ret app]. rewrite app_nil_r, Eb. split; [reflexivity | exact Ed].
      * intros _ [|]; discriminate.
Qed.

(* ---- read_until ---------------------------------------------------------------------------- *)

Lemma cut_term_Some term s s' r :
  cut_term term s = Some (s', r) ->
  exists b rest, r = RBytes b /\ shortest term b /\ b ++ rest = buf s /\ s' = set_buf s rest.
Proof.
  unfold cut_term. destruct (find term (buf s)) as [p|] eqn:F; [|discriminate].
  intros [= <- <-]. eexists. eexists. split; [reflexivity|].
  split; [apply (shortest_of_find _ _ _ F) | split; [apply firstn_skipn | reflexivity]].
Qed.

Lemma cut_term_None term s : cut_term term s = None -> forall i, ~ occ term (buf s) i.
Proof.
  unfold cut_term. destruct (find term (buf s)) eqn:F; [discriminate|]. intros _. now apply find_None.
Qed.

Lemma ru_loop_spec c term : forall fuel tmo ts tr s s' r,
  wf c (orc s) -> ru_loop c fuel term tmo ts tr s = (s', r) ->
  is_open s' = is_open s /\ pend s' = pend s /\ moved s s' (ret r) /\ wf c (orc s') /\
  (forall b, r = RBytes b -> shortest term b) /\
  r <> RRuntime /\ r <> RNone /\ r <> RInvalid /\
  (meas s < fuel -> r <> RFuel).
Proof.
  induction fuel as [|f IH]; intros tmo ts tr s s' r W H; cbn [ru_loop] in H.
  - inversion H; subst. repeat split; try congruence; try (apply moved_refl; reflexivity); try lia.
  - destruct (tmo_neg tr) eqn:Etn.
    { inversion H; subst; sim. repeat split; try congruence; try assumption.
      apply moved_refl; reflexivity. }
    destruct (dev_recv c (maxp c) tr (logc (logc s (DSetTmo tr)) (DRecvFrom (maxp c)))) as [s1 d] eqn:Ed.
    apply dev_recv_spec in Ed as (Eo & Eb & Ep & _ & Ew & Ed). sim.
    destruct d as [b| |b|].
    + destruct Ed as (Es & Elen & Em). destruct b as [|x b].
      * inversion H; subst. repeat split; try congruence; auto.
        exists []. cbn [ret app]. rewrite app_nil_r, Eb. split; [reflexivity | exact Es].
      * assert (Mrecv : moved s (set_buf s1 (buf s1 ++ x :: b)) []).
        { exists (x :: b). sim. rewrite Eb. split; [reflexivity | exact Es]. }
        assert (TMO : (set_buf s1 (buf s1 ++ x :: b), RTimeout) = (s', r) ->
          is_open s' = is_open s /\ pend s' = pend s /\ moved s s' (ret r) /\ wf c (orc s') /\
          (forall b, r = RBytes b -> shortest term b) /\
          r <> RRuntime /\ r <> RNone /\ r <> RInvalid /\ (meas s < S f -> r <> RFuel)).
        { intros HH. inversion HH; subst; sim. repeat split; try congruence; auto. }
        assert (REC : forall tr', ru_loop c f term tmo ts tr' (set_buf s1 (buf s1 ++ x :: b)) = (s', r) ->
          is_open s' = is_open s /\ pend s' = pend s /\ moved s s' (ret r) /\ wf c (orc s') /\
          (forall b, r = RBytes b -> shortest term b) /\
          r <> RRuntime /\ r <> RNone /\ r <> RInvalid /\ (meas s < S f -> r <> RFuel)).
        { intros tr' HH. apply IH in HH; [|sim; auto]. sim.
          destruct HH as (Ho' & Hp' & Hm & Hw & Hb & Hr1 & Hr2 & Hr3 & Hf).
          repeat split; try congruence; auto.
          - apply (moved_recv s (set_buf s1 (buf s1 ++ x :: b)) s' (x :: b)); sim;
              [now rewrite Eb | exact Es | exact Hm].
          - intros Hlt. apply Hf. unfold meas in *. sim.
            assert (Hne : x :: b <> []) by discriminate. specialize (Em Hne). unfold meas in Em. sim. lia. }
        destruct (cut_term term (set_buf s1 (buf s1 ++ x :: b))) as [[sc rc]|] eqn:Ec.
        -- assert (CUT : (sc, rc) = (s', r) ->
             is_open s' = is_open s /\ pend s' = pend s /\ moved s s' (ret r) /\ wf c (orc s') /\
             (forall b, r = RBytes b -> shortest term b) /\
             r <> RRuntime /\ r <> RNone /\ r <> RInvalid /\ (meas s < S f -> r <> RFuel)).
           { intros HH. inversion HH; subst. apply cut_term_Some in Ec as (bb & rest & -> & Hsh & Hcat & ->).
             sim. repeat split; try congruence; auto.
             destruct Mrecv as (rx & M1 & M2). sim. exists rx. cbn [ret app] in *. sim. rewrite Hcat.
             split; assumption. }
           destruct (deadline _ tmo ts (clk s1)); [apply CUT, H | | apply CUT, H].
           destruct (late_ru (cpol c)); [apply CUT, H | apply TMO, H].
        -- destruct (deadline _ tmo ts (clk s1)) as [| |tr'];
             [apply (REC None), H | apply TMO, H | apply (REC (Some tr')), H].
    + inversion H; subst. repeat split; try congruence; auto.
      exists []. cbn [ret app]. rewrite app_nil_r, Eb. split; [reflexivity | exact Ed].
    + exfalso. destruct Ed as (Ebound & Esz & _). specialize (Ebound W). lia.
    + inversion H; subst. repeat split; try congruence; auto.
      exists []. cbn [ret app]. rewrite app_nil_r, Eb. split; [reflexivity | exact Ed].
Qed.

(* ---- discard_read -------------------------------------------------------------------------- *)

Lemma discard_loop_spec c : forall fuel s acc s' r d,
  discard_loop c fuel s acc = (s', r, d) ->
  is_open s' = is_open s /\ pend s' = pend s /\ buf s' = buf s /\
  (wf c (orc s) -> wf c (orc s')) /\
  (exists rx, d = acc ++ rx /\ rx ++ stream_of (orc s') = stream_of (orc s)) /\
  (r = RNone \/ r = RFuel) /\ (meas s < fuel -> r = RNone).
Proof.
  induction fuel as [|f IH]; intros s acc s' r d H; cbn [discard_loop] in H.
  - inversion H; subst. repeat split; auto; try lia. exists []. now rewrite app_nil_r.
  - destruct (dev_recv c (maxp c) (Some 0%Z) (logc s (DRecvFrom (maxp c)))) as [s1 dv] eqn:Ed.
    apply dev_recv_spec in Ed as (Eo & Eb & Ep & _ & Ew & Ed). sim.
    destruct dv as [b| |b|].
    + destruct Ed as (Es & Elen & Em). destruct b as [|x b].
      * inversion H; subst. repeat split; auto. exists []. now rewrite app_nil_r.
      * destruct (disc_once (cpol c)).
        { inversion H; subst. repeat split; auto. exists (x :: b). split; [reflexivity | exact Es]. }
        apply IH in H. destruct H as (Ho' & Hp' & Hb' & Hw' & (rx & Hd & Hs) & Hr & Hf).
        repeat split; try congruence; auto.
        -- exists ((x :: b) ++ rx). split; [now rewrite Hd, <- app_assoc|].
           rewrite <- app_assoc, Hs. exact Es.
        -- intros Hlt. apply Hf. assert (Hne : x :: b <> []) by discriminate.
           specialize (Em Hne). unfold meas in *. sim. lia.
    + inversion H; subst. repeat split; auto. exists []. now rewrite app_nil_r.
    + destruct Ed as (_ & _ & Es). inversion H; subst. repeat split; auto. exists b. split; [reflexivity | exact Es].
    + inversion H; subst. repeat split; auto. exists []. now rewrite app_nil_r.
Qed.

(* ---- the six socket operations -------------------------------------------------------------- *)

Lemma meas_fuel s : meas s < fuel_of s.
Proof. unfold meas, fuel_of. lia. Qed.

Lemma sock_read_spec c n tmo s s' r :
  wf c (orc s) -> sock_read c n tmo s = (s', r) ->
  is_open s' = is_open s /\ pend s' = pend s /\ moved s s' (ret r) /\ wf c (orc s') /\
  (forall b, r = RBytes b -> len b = n) /\
  r <> RRuntime /\ r <> RNone /\ r <> RFuel /\
  (minp c = 0%N -> r = RTimeout \/ r = REof -> (len (buf s') <= n)%N) /\
  (is_open s = false -> s' = s /\ r = RInvalid).
Proof.
  unfold sock_read. intros W H. destruct (is_open s) eqn:Eo.
  - apply read_loop_spec in H; [|exact W].
    destruct H as (H1 & H2 & H3 & H4 & H5 & H6 & H7 & H8 & H9 & H10).
    pose proof (meas_fuel s). repeat split; auto; try congruence.
  - inversion H; subst.
    repeat split; auto; try congruence; try (apply moved_refl; reflexivity); try (intros _ [|]; discriminate).
Qed.

Lemma sock_read_until_spec c term tmo s s' r :
  wf c (orc s) -> sock_read_until c term tmo s = (s', r) ->
  is_open s' = is_open s /\ pend s' = pend s /\ moved s s' (ret r) /\ wf c (orc s') /\
  (forall b, r = RBytes b -> shortest term b) /\
  r <> RRuntime /\ r <> RNone /\ r <> RFuel /\
  (is_open s = false ->
     orc s' = orc s /\ clk s' = clk s /\ dlog s' = dlog s /\
     ((s' = s /\ r = RInvalid) \/ exists b, r = RBytes b)).
Proof.
  unfold sock_read_until. intros W H.
  destruct (ru_chk_first (cpol c) && negb (is_open s)) eqn:Ecf.
  { inversion H; subst. repeat split; auto; try congruence. apply moved_refl; reflexivity. }
  destruct (cut_term term s) as [[sc rc]|] eqn:Ec.
  - inversion H; subst. apply cut_term_Some in Ec as (bb & rest & -> & Hsh & Hcat & ->). sim.
    repeat split; auto; try congruence.
    + exists []. cbn [ret]. sim. rewrite app_nil_r. split; [now symmetry | reflexivity].
    + right. eauto.
  - destruct (is_open s) eqn:Eo.
    + apply ru_loop_spec in H; [|exact W].
      destruct H as (H1 & H2 & H3 & H4 & H5 & H6 & H7 & H8 & H9).
      pose proof (meas_fuel s). repeat split; auto; try congruence.
    + inversion H; subst. repeat split; auto; try congruence. apply moved_refl; reflexivity.
Qed.

Lemma take_buf_spec sl n s s' r :
  take_buf sl n s = (s', r) ->
  exists b rest, r = RBytes b /\ b ++ rest = buf s /\ s' = set_buf s rest /\
            (sl = true -> (len b <= n)%N).
Proof.
  unfold take_buf. destruct sl; intros [= <- <-]; eexists; eexists; (split; [reflexivity|]).
  - split; [apply take_drop | split; [reflexivity | intros _; apply len_take_le]].
  - split; [apply app_nil_r | split; [reflexivity | discriminate]].
Qed.

Lemma sock_rut_spec c n tmo s s' r :
  wf c (orc s) -> sock_rut c n tmo s = (s', r) ->
  is_open s' = is_open s /\ pend s' = pend s /\ moved s s' (ret r) /\ wf c (orc s') /\
  (forall b, r = RBytes b -> rut_slice c = true \/ minp c = 0%N -> (len b <= n)%N) /\
  r <> RRuntime /\ r <> RNone /\ r <> RFuel /\ r <> RTimeout /\
  (r = REof -> buf s' = []) /\
  (is_open s = false -> s' = s /\ r = RInvalid).
Proof.
  unfold sock_rut. intros W H. destruct (sock_read c n tmo s) as [s1 r1] eqn:Er.
  apply sock_read_spec in Er; [|exact W].
  destruct Er as (H1 & H2 & H3 & H4 & H5 & H6 & H7 & H8 & H9 & H10).
  assert (TB : forall s2 r2, take_buf (rut_slice c) n s1 = (s2, r2) -> (r1 = RTimeout \/ r1 = REof) ->
     is_open s2 = is_open s /\ pend s2 = pend s /\ moved s s2 (ret r2) /\ wf c (orc s2) /\
     (forall b, r2 = RBytes b -> rut_slice c = true \/ minp c = 0%N -> (len b <= n)%N) /\
     r2 <> RRuntime /\ r2 <> RNone /\ r2 <> RFuel /\ r2 <> RTimeout /\ (r2 = REof -> buf s2 = []) /\
     (is_open s = false -> s2 = s /\ r2 = RInvalid)).
  { intros s2 r2 T Hr. apply take_buf_spec in T as (b & rest & -> & Hcat & -> & Hsl). sim.
    repeat split; auto; try congruence.
    all: try match goal with Hc : is_open _ = false |- _ =>
               destruct (H10 Hc) as [_ Hx]; destruct Hr; congruence end.
    - destruct H3 as (rx & M1 & M2). exists rx. sim. cbn [ret]. rewrite Hcat.
      destruct Hr as [-> | ->]; cbn [ret app] in M1; split; assumption.
    - intros b0 [= <-] [Hs | Hm]; [now apply Hsl|].
      specialize (H9 Hm Hr). rewrite <- Hcat, len_app in H9. lia. }
  destruct r1;
    try (inversion H; subst; repeat split; auto; try congruence;
         match goal with Hc : is_open _ = false |- _ => destruct (H10 Hc) as [Hx Hy]; congruence end).
  - inversion H; subst. repeat split; auto; try congruence.
    all: try match goal with Hc : is_open _ = false |- _ => destruct (H10 Hc) as [_ Hx]; discriminate end.
    intros b0 [= <-] _. rewrite (H5 b eq_refl). lia.
  - apply TB; auto.
  - destruct (buf s1) eqn:Eb1.
    + inversion H; subst. repeat split; auto; try congruence.
      all: try match goal with Hc : is_open _ = false |- _ => destruct (H10 Hc) as [_ Hx]; discriminate end.
    + apply TB; auto.
Qed.

Lemma sock_discard_spec c s s' r d :
  sock_discard c s = (s', r, d) ->
  is_open s' = is_open s /\ pend s' = pend s /\ moved s s' (ret r ++ d) /\
  (wf c (orc s) -> wf c (orc s')) /\ (r = RNone \/ r = RInvalid) /\
  (is_open s = true -> r = RNone /\ buf s' = []) /\
  (is_open s = false -> s' = s /\ r = RInvalid /\ d = []).
Proof.
  unfold sock_discard. intros H. destruct (is_open s) eqn:Eo.
  - apply discard_loop_spec in H. sim.
    destruct H as (H1 & H2 & H3 & H4 & (rx & Hd & Hs) & H5 & H6).
    assert (r = RNone) as -> by (apply H6; unfold meas, fuel_of; sim; lia).
    repeat split; auto; try congruence.
    exists rx. cbn [ret app]. rewrite H3, Hd, app_nil_r. split; [reflexivity | exact Hs].
  - inversion H; subst. repeat split; auto; try congruence. apply moved_refl; reflexivity.
Qed.

Lemma sock_open_spec s s' r d :
  sock_open s = (s', r, d) ->
  pend s' = pend s /\ orc s' = orc s /\ clk s' = clk s /\ moved s s' (ret r ++ d) /\
  (is_open s = true -> s' = s /\ r = RInvalid /\ d = []) /\
  (is_open s = false -> r = RNone /\ is_open s' = true /\ dlog s' = DOpen :: dlog s).
Proof.
  unfold sock_open. destruct (is_open s) eqn:Eo; intros [= <- <- <-]; sim; repeat split; auto; try congruence.
  - apply moved_refl; reflexivity.
  - exists []. cbn [ret app]. now rewrite !app_nil_r.
Qed.

Lemma do_close_spec s s' r :
  do_close s = (s', r) ->
  pend s' = pend s /\ orc s' = orc s /\ clk s' = clk s /\ buf s' = buf s /\
  (is_open s = false -> s' = s /\ r = RInvalid) /\
  (is_open s = true -> r = RNone /\ is_open s' = false /\ dlog s' = DClose :: dlog s).
Proof.
  unfold do_close. destruct (is_open s) eqn:Eo; intros [= <- <-]; sim; repeat split; auto; congruence.
Qed.
