(* C13 — every outcome the correspondence accepts (that of ANY policy, with the class's constants)
   satisfies the clauses of the property. *)
From Coq Require Import List ZArith NArith Bool Lia.
Require Import QV.C13.Model QV.C13.Proofs QV.C13.ProofsSerial QV.C13.ProofsRun QV.C13.ProofsWrite.
Import ListNotations.

Lemma variants_inv k k' : In k' (variants k) -> k' = k \/ exists p, k' = with_pol k p.
Proof.
  unfold variants. intros [H|H]; [left; now symmetry|]. right.
  apply in_map_iff in H as (p & <- & _). eauto.
Qed.

Lemma variants_self k : In k (variants k).
Proof. left. reflexivity. Qed.

(* the variants really are all 64 policies *)
Lemma all_pols_complete p : In p all_pols.
Proof. destruct p as [[] [] [] [] [] []]; vm_compute; tauto. Qed.

Lemma variants_with_pol k p : In (with_pol k p) (variants k).
Proof. right. apply in_map, all_pols_complete. Qed.

Lemma with_pol_kwf k p s : kwf k s -> kwf (with_pol k p) s.
Proof. destruct k as [c|sc]; cbn [with_pol kwf]; [intros [W P]; split; [exact W | exact P] | auto]. Qed.

Lemma variants_kwf k k' s : In k' (variants k) -> kwf k s -> kwf k' s.
Proof. intros H W. apply variants_inv in H as [-> | [p ->]]; [exact W | now apply with_pol_kwf]. Qed.

(* the side condition of the read_until_timeout bound does not depend on the policy *)
Definition rut_ok (k : kind) : Prop :=
  match k with Sock c => rut_slice c = true \/ minp c = 0%N | Serial _ => True end.

Lemma variants_rut_ok k k' : In k' (variants k) -> rut_ok k -> rut_ok k'.
Proof.
  intros H W. apply variants_inv in H as [-> | [p ->]]; [exact W|]. destruct k; cbn in *; exact W.
Qed.

(* the per-call clauses of C13 *)
Definition c13_clauses (k : kind) (s : st) (o : op) (r : st * outp) : Prop :=
  let '(s', x) := r in
  consumed x ++ total s' = total s /\
  (forall n t b, o = OpRead n t -> o_res x = RBytes b -> len b = n) /\
  (forall tm t b, o = OpReadUntil tm t -> o_res x = RBytes b -> shortest tm b) /\
  ((exists n t, o = OpRead n t) \/ (exists tm t, o = OpReadUntil tm t) \/ (exists n t, o = OpRut n t) ->
   (forall b, o_res x <> RBytes b) ->
   o_dropped x = [] /\ exists rx, buf s' = buf s ++ rx /\
     rx ++ pend s' ++ stream_of (orc s') = pend s ++ stream_of (orc s)) /\
  (forall n t b, o = OpRut n t -> o_res x = RBytes b -> rut_ok k -> (len b <= n)%N) /\
  (is_open s = false ->
     match o with
     | OpOpen => o_res x = RNone /\ is_open s' = true /\ orc s' = orc s /\ clk s' = clk s
     | OpReadUntil tm _ =>
         orc s' = orc s /\ clk s' = clk s /\ pend s' = pend s /\ o_calls x = [] /\
         ((s' = s /\ o_res x = RInvalid) \/
          (exists b, o_res x = RBytes b /\ b ++ buf s' = buf s /\ is_open s' = false))
     | _ => s' = s /\ o_res x = RInvalid /\ o_dropped x = [] /\ o_calls x = []
     end) /\
  sentl (dlog s') = wrote o (o_res x) ++ sentl (dlog s) /\
  o_res x <> RRuntime /\
  kwf k s'.

Lemma step_clauses k s o s' x : kwf k s -> step k s o = (s', x) -> c13_clauses k s o (s', x).
Proof.
  intros W H. unfold c13_clauses.
  destruct (step_conservation _ _ _ _ _ W H) as [C1 C2].
  split; [exact C1|].
  split; [intros n t b -> R; exact (read_exact k s n t s' x b W H R)|].
  split; [intros tm t b -> R; exact (read_until_shortest k s tm t s' x b W H R)|].
  split; [intros Ho Hr; exact (failed_keeps k s o s' x W H Ho Hr)|].
  split; [intros n t b -> R K; apply (rut_len k s n t s' x b W H R); destruct k; exact K|].
  split; [intros C; apply (closed_step _ _ _ _ _ C H)|].
  split; [exact (step_sent k s o s' x H)|].
  split; [|exact C2].
  apply step_unfold in H as [H _]. apply step_raw_spec in H as (_ & _ & _ & R); [exact R | exact W].
Qed.

Lemma allowed_step_sound k s o r : kwf k s -> allowed_step k s o r -> c13_clauses k s o r.
Proof.
  intros W (k' & Hin & H). destruct r as [s' x].
  pose proof (step_clauses k' s o s' x (variants_kwf _ _ _ Hin W) H) as C. unfold c13_clauses in *.
  destruct C as (C1 & C2 & C3 & C4 & C5 & C6 & C7 & C8 & C9).
  split; [exact C1|]. split; [exact C2|]. split; [exact C3|]. split; [exact C4|].
  split; [intros n t b Ho R K; apply (C5 n t b Ho R); eapply variants_rut_ok; eauto|].
  split; [exact C6|]. split; [exact C7|]. split; [exact C8|].
  apply variants_inv in Hin as [-> | [p ->]]; [exact C9|].
  destruct k as [c|sc]; cbn [with_pol kwf] in *; exact C9.
Qed.

Lemma allowed_step_pinned k s o : allowed_step k s o (step k s o).
Proof. exists k. split; [apply variants_self | reflexivity]. Qed.

Lemma allowed_outcomes_pinned k s ops : allowed_outcomes k s ops (run k s ops).
Proof. exists k. split; [apply variants_self | reflexivity]. Qed.

(* whole runs *)
Lemma allowed_outcomes_sound k s ops s' outs :
  kwf k s -> allowed_outcomes k s ops (s', outs) ->
  concat (map consumed outs) ++ total s' = total s /\
  sent s' = sent s ++ accepted_writes ops outs.
Proof.
  intros W (k' & Hin & H). split.
  - apply (run_conservation k' ops s s' outs (variants_kwf _ _ _ Hin W) H).
  - apply (run_sent k' ops s s' outs H).
Qed.
