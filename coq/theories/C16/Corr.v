(* C16 correspondence: compare the model with what was observed on qmi.core.config and
   qmi.core.config_struct.  The section variables of the model are instantiated by observations
   of the library functions they stand for (json.loads with a non-raising pairs hook; float(int)). *)
Require Export QV.Lib.Corr QV.C16.Model.
From Coq Require Import String Ascii.

(* compact case terms: a run of printable ASCII characters is written as a Coq string literal *)
Fixpoint ss (s : string) : str :=
  match s with EmptyString => [] | String a r => N_of_ascii a :: ss r end.

Definition str_eq (a b : str) : bool := list_eqb N.eqb a b.

Section LEq.   (* element test outside the fix, so that nested recursive uses pass the guard *)
  Context {A : Type} (eqb : A -> A -> bool).
  Fixpoint leqb (a b : list A) : bool :=
    match a, b with
    | [], [] => true
    | x :: a', y :: b' => eqb x y && leqb a' b'
    | _, _ => false
    end.
End LEq.

Fixpoint jval_eqb (a b : jval) : bool :=
  match a, b with
  | JNull, JNull => true
  | JBool x, JBool y => Bool.eqb x y
  | JInt x, JInt y => Z.eqb x y
  | JFloat x, JFloat y => str_eq x y
  | JStr x, JStr y => str_eq x y
  | JList x, JList y => leqb jval_eqb x y
  | JObj x, JObj y =>
      (fix go (x y : list (str * jval)) : bool :=
         match x, y with
         | [], [] => true
         | (k, v) :: x', (k', v') :: y' => str_eq k k' && jval_eqb v v' && go x' y'
         | _, _ => false
         end) x y
  | _, _ => false
  end.

Fixpoint cval_eqb (a b : cval) : bool :=
  let items :=
    (fix go (x y : list (str * cval)) : bool :=
       match x, y with
       | [], [] => true
       | (k, v) :: x', (k', v') :: y' => str_eq k k' && cval_eqb v v' && go x' y'
       | _, _ => false
       end) in
  match a, b with
  | VNull, VNull => true
  | VBool x, VBool y => Bool.eqb x y
  | VInt x, VInt y => Z.eqb x y
  | VFloat x, VFloat y => str_eq x y
  | VStr x, VStr y => str_eq x y
  | VList x, VList y => leqb cval_eqb x y
  | VTuple x, VTuple y => leqb cval_eqb x y
  | VDict x, VDict y => items x y
  | VStruct x, VStruct y => items x y
  | _, _ => false
  end.

Definition pelem_eqb (a b : pelem) : bool :=
  match a, b with
  | PIdx i, PIdx j => Nat.eqb i j
  | PKey k, PKey k' => str_eq k k'
  | PField k, PField k' => str_eq k k'
  | _, _ => false
  end.
Definition ekind_eqb (a b : ekind) : bool :=
  match a, b with
  | Mismatch, Mismatch | Missing, Missing | Unknown, Unknown => true
  | _, _ => false
  end.

(* observed outcome of load_config_string *)
Inductive lobs :=
| LoOk (v : jval)       (* returned this (key order kept) *)
| LoValueError          (* ValueError or a subclass (json.JSONDecodeError) *)
| LoConfig              (* QMI_ConfigurationException *)
| LoOther.              (* anything else *)

(* observed outcome of config_struct_from_dict, and of config_struct_to_dict on its result *)
Inductive pobs :=
| PoOk (v : cval) (back : jval)
| PoErr (k : ekind) (p : path)   (* QMI_ConfigurationException with this message kind and item path *)
| PoOther.                       (* any other exception, or an unreadable message *)

(* observed outcome of _check_config_struct_type *)
Inductive cobs :=
| CoOk
| CoErr (k : ckind) (p : list cpelem)   (* QMI_ConfigurationException, message kind and definition path *)
| CoOther.
Definition cpelem_eqb (a b : cpelem) : bool :=
  match a, b with
  | CAny, CAny => true
  | CIdx i, CIdx j => Nat.eqb i j
  | CField k, CField k' => str_eq k k'
  | _, _ => false
  end.
Definition ckind_eqb (a b : ckind) : bool :=
  match a, b with
  | CUnion, CUnion | CNonStrKey, CNonStrKey | CType, CType => true
  | _, _ => false
  end.
Definition cobs_match (m : cres) (o : cobs) : bool :=
  match m, o with
  | COk, CoOk => true
  | CErr k p, CoErr k' p' => ckind_eqb k k' && list_eqb cpelem_eqb p p'
  | _, _ => false
  end.

Definition opt_nat_eqb := option_eqb Nat.eqb.

Inductive case :=
(* text; per line of re.split: None = line kept, Some n = line cut to its first n characters *)
| CStrip (text : str) (cuts : list (option nat))
(* text; cuts; json.loads(stripped text) with raw pairs (None = JSONDecodeError); outcome *)
| CLoad (text : str) (cuts : list (option nat)) (raw : option jval) (obs : lobs)
(* configuration data; dump_config_string(data) (None = QMI_ConfigurationException) *)
| CDump (d : jval) (text : option str)
(* declared type; data; observed float(z) for the integers of the data; outcome *)
| CParse (T : cty) (d : jval) (ftab : list (Z * option str)) (obs : pobs)
(* annotation; outcome of _check_config_struct_type(annotation, []) *)
| CCheck (a : ann) (obs : cobs)
(* annotation (any); data; float table; outcome of _parse_config_value(data, annotation, []) *)
| CParseAnn (a : ann) (d : jval) (ftab : list (Z * option str)) (obs : pobs).

Definition foi_of (tab : list (Z * option str)) (z : Z) : option str :=
  match find (fun e => Z.eqb (fst e) z) tab with Some (_, r) => r | None => None end.

Definition model_cuts (text : str) : list (option nat) := map scan (lines text).

Definition lobs_match (m : lres) (o : lobs) : bool :=
  match m, o with
  | LOk v, LoOk v' => jval_eqb v v'
  | LErr ENotJson, LoValueError | LErr EDupKey, LoValueError => true
  | LErr ENotMapping, LoConfig => true
  | _, _ => false
  end.

Definition pobs_match (m : result cval) (o : pobs) : bool :=
  match m, o with
  | Ok v, PoOk v' back => cval_eqb v v' && jval_eqb (to_data v) back
  | Err k p, PoErr k' p' => ekind_eqb k k' && list_eqb pelem_eqb p p'
  | _, _ => false
  end.

Definition check_case (c : case) : bool :=
  match c with
  | CStrip text cuts => list_eqb opt_nat_eqb (model_cuts text) cuts
  | CLoad text cuts raw obs =>
      list_eqb opt_nat_eqb (model_cuts text) cuts && lobs_match (load (fun _ => raw) text) obs
  | CDump d text => option_eqb str_eq (dump d) text
  | CParse T d ftab obs => pobs_match (from_dict (foi_of ftab) T d) obs
  | CCheck a obs => cobs_match (check a []) obs
  | CParseAnn a d ftab obs => pobs_match (parse_ann (foi_of ftab) a d []) obs
  end.

(* for replays: what the model says *)
Inductive model_res :=
| MCuts (cuts : list (option nat)) (stripped : str)
| MLoad (cuts : list (option nat)) (r : lres)
| MDump (text : option str)
| MParse (r : result cval)
| MCheck (r : cres).
Definition model_out (c : case) : model_res :=
  match c with
  | CStrip text _ => MCuts (model_cuts text) (strip text)
  | CLoad text _ raw _ => MLoad (model_cuts text) (load (fun _ => raw) text)
  | CDump d _ => MDump (dump d)
  | CParse T d ftab _ => MParse (from_dict (foi_of ftab) T d)
  | CCheck a _ => MCheck (check a [])
  | CParseAnn a d ftab _ => MParse (parse_ann (foi_of ftab) a d [])
  end.
