(* C16 correspondence: compare the model with what was observed on qmi.core.config and
   qmi.core.config_struct.  The section variables of the model are instantiated by observations
   of the library functions they stand for (json.loads with a non-raising pairs hook; float(int));
   the OPEN CHOICES of the model (line-break rendering of the stripped text, layout of the dumped
   text, treatment of alternative annotation spellings) are instantiated by what the implementation
   under test was observed to choose.
   Compared: values (mappings up to key order, as Python compares them), accepted / rejected,
   and for configuration errors the ITEM PATHS the message names — never message wording. *)
Require Export QV.Lib.Corr QV.C16.Model.
From Coq Require Import String Ascii.

(* compact case terms: a run of printable ASCII characters is written as a Coq string literal *)
Fixpoint ss (s : string) : str :=
  match s with EmptyString => [] | String a r => N_of_ascii a :: ss r end.

Definition str_eq (a b : str) : bool := list_eqb N.eqb a b.

Section LEq.   (* element test outside the fix, so that nested recursive uses pass the guard *)
  Context {A : Type} (eqb : A -> A -> bool).
  Fixpoint leqb (a b : list A) : bool :=
    match a, b with
    | [], [] => true
    | x :: a', y :: b' => eqb x y && leqb a' b'
    | _, _ => false
    end.
End LEq.

(* mappings are compared as Python compares dicts: same keys, equal values, order irrelevant *)
Fixpoint jval_eqb (a b : jval) : bool :=
  match a, b with
  | JNull, JNull => true
  | JBool x, JBool y => Bool.eqb x y
  | JInt x, JInt y => Z.eqb x y
  | JFloat x, JFloat y => str_eq x y
  | JStr x, JStr y => str_eq x y
  | JList x, JList y => leqb jval_eqb x y
  | JObj x, JObj y =>
      Nat.eqb (List.length x) (List.length y) && negb (dup_keys (map fst x)) &&
      (fix go (x : list (str * jval)) : bool :=
         match x with
         | [] => true
         | (k, v) :: x' => match assoc k y with Some v' => jval_eqb v v' | None => false end && go x'
         end) x
  | _, _ => false
  end.

Fixpoint cval_eqb (a b : cval) : bool :=
  let items := fun (x y : list (str * cval)) =>
    Nat.eqb (List.length x) (List.length y) && negb (dup_keys (map fst x)) &&
    (fix go (x : list (str * cval)) : bool :=
       match x with
       | [] => true
       | (k, v) :: x' => match assoc k y with Some v' => cval_eqb v v' | None => false end && go x'
       end) x in
  match a, b with
  | VNull, VNull => true
  | VBool x, VBool y => Bool.eqb x y
  | VInt x, VInt y => Z.eqb x y
  | VFloat x, VFloat y => str_eq x y
  | VStr x, VStr y => str_eq x y
  | VList x, VList y => leqb cval_eqb x y
  | VTuple x, VTuple y => leqb cval_eqb x y
  | VDict x, VDict y => items x y
  | VStruct x, VStruct y => items x y
  | _, _ => false
  end.

Definition pelem_eqb (a b : pelem) : bool :=
  match a, b with
  | PIdx i, PIdx j => Nat.eqb i j
  | PKey k, PKey k' => str_eq k k'
  | PField k, PField k' => str_eq k k'
  | _, _ => false
  end.
Definition cpelem_eqb (a b : cpelem) : bool :=
  match a, b with
  | CAny, CAny => true
  | CIdx i, CIdx j => Nat.eqb i j
  | CField k, CField k' => str_eq k k'
  | _, _ => false
  end.

(* observed outcome of load_config_string *)
Inductive lobs :=
| LoOk (v : jval)       (* returned this *)
| LoRejected            (* ValueError (incl. json.JSONDecodeError) or QMI_ConfigurationException *)
| LoOther.              (* anything else *)

(* observed outcome of config_struct_from_dict / _parse_config_value, and of config_struct_to_dict
   on the result *)
Inductive pobs :=
| PoOk (v : cval) (back : jval)
| PoErr (named : list path)      (* QMI_ConfigurationException; the item paths its message names *)
| PoOther.                       (* any other exception *)

(* observed outcome of _check_config_struct_type *)
Inductive cobs :=
| CoOk
| CoErr (named : list (list cpelem))   (* QMI_ConfigurationException; the definition paths it names *)
| CoOther.

Definition opt_nat_eqb := option_eqb Nat.eqb.

Inductive case :=
(* text; per line (split at CR / LF) of the implementation's comment-free text: None = line kept,
   Some n = line cut to its first n characters *)
| CStrip (text : str) (cuts : list (option nat))
(* text; cuts; json.loads(comment-free text) with raw pairs (None = JSONDecodeError); outcome *)
| CLoad (text : str) (cuts : list (option nat)) (raw : option jval) (obs : lobs)
(* mapping; dump_config_string(mapping); json.loads of it with raw pairs: whatever the layout, the
   scanner must leave the text alone and loading it must give the mapping back *)
| CDump (d : jval) (text : str) (raw : option jval)
(* data; was dump refused (true) — a non-mapping must be refused *)
| CDumpRefused (d : jval) (refused : bool)
(* mapping; dumped text: equality with the pinned printer (layout is an open choice: a difference
   is recorded in the evidence, it is not a disagreement) *)
| CDumpPinned (d : jval) (text : str)
(* declared type; data; observed float(z) for the integers of the data; outcome *)
| CParse (T : cty) (d : jval) (ftab : list (Z * option str)) (obs : pobs)
(* families of alternative spellings the implementation handles; annotation; outcome of
   _check_config_struct_type(annotation, []) *)
| CCheck (fams : list nat) (a : ann) (obs : cobs)
(* families; annotation (any); data; float table; outcome of _parse_config_value(data, annotation, []) *)
| CParseAnn (fams : list nat) (a : ann) (d : jval) (ftab : list (Z * option str)) (obs : pobs).

Definition foi_of (tab : list (Z * option str)) (z : Z) : option str :=
  match find (fun e => Z.eqb (fst e) z) tab with Some (_, r) => r | None => None end.
Definition pol_of (fams : list nat) (n : nat) : bool := existsb (Nat.eqb n) fams.

Definition model_cuts (text : str) : list (option nat) := map scan (lines text).

Definition lobs_match (m : lres) (o : lobs) : bool :=
  match m, o with
  | LOk v, LoOk v' => jval_eqb v v'
  | LErr _, LoRejected => true
  | _, _ => false
  end.

Definition pobs_match (m : result cval) (o : pobs) : bool :=
  match m, o with
  | Ok v, PoOk v' back => cval_eqb v v' && jval_eqb (to_data v) back
  | Err _ p, PoErr named => existsb (list_eqb pelem_eqb p) named
  | _, _ => false
  end.

Definition cobs_match (m : cres) (o : cobs) : bool :=
  match m, o with
  | COk, CoOk => true
  | CErr _ p, CoErr named => existsb (list_eqb cpelem_eqb p) named
  | _, _ => false
  end.

Definition lres_is (m : lres) (d : jval) : bool :=
  match m with LOk v => jval_eqb v d | _ => false end.

Definition check_case (c : case) : bool :=
  match c with
  | CStrip text cuts => list_eqb opt_nat_eqb (model_cuts text) cuts
  | CLoad text cuts raw obs =>
      list_eqb opt_nat_eqb (model_cuts text) cuts && lobs_match (load (fun _ => raw) text) obs
  | CDump d text raw => str_eq (strip text) text && lres_is (load (fun _ => raw) text) d
  | CDumpRefused d refused => Bool.eqb (match dump d with None => true | Some _ => false end) refused
  | CDumpPinned d text => option_eqb str_eq (dump d) (Some text)
  | CParse T d ftab obs => pobs_match (from_dict (foi_of ftab) T d) obs
  | CCheck fams a obs => cobs_match (check (pol_of fams) a []) obs
  | CParseAnn fams a d ftab obs => pobs_match (parse_ann (pol_of fams) (foi_of ftab) a d []) obs
  end.

(* for replays: what the model says *)
Inductive model_res :=
| MCuts (cuts : list (option nat)) (stripped : str)
| MLoad (cuts : list (option nat)) (r : lres)
| MDump (text : option str)
| MParse (r : result cval)
| MCheck (r : cres).
Definition model_out (c : case) : model_res :=
  match c with
  | CStrip text _ => MCuts (model_cuts text) (strip text)
  | CLoad text _ raw _ => MLoad (model_cuts text) (load (fun _ => raw) text)
  | CDump d text raw => MLoad (model_cuts text) (load (fun _ => raw) text)
  | CDumpRefused d _ => MDump (dump d)
  | CDumpPinned d _ => MDump (dump d)
  | CParse T d ftab _ => MParse (from_dict (foi_of ftab) T d)
  | CCheck fams a _ => MCheck (check (pol_of fams) a [])
  | CParseAnn fams a d ftab _ => MParse (parse_ann (pol_of fams) (foi_of ftab) a d [])
  end.
