(* C16 proofs: collected statements in the form used by Properties.v.
   ProofsA: scanner = language of the comment regular expression, line splitting, duplicate keys, load.
   ProofsDump: the printer's output is untouched by comment stripping; dump/load.
   ProofsB: typed parse — errors name an offending item, strictness, round trips.
   ProofsC: the conversions lose nothing and alter nothing except int -> float.
   ProofsD: the class check accepts exactly the grammar [cty]; checked classes parse inside it. *)
Require Export QV.C16.Model QV.C16.ProofsA QV.C16.ProofsDump QV.C16.ProofsB QV.C16.ProofsC QV.C16.ProofsD.

Lemma scan_is_regex : forall l n,
  scan l = Some n <-> exists p r, l = p ++ cH :: r /\ outside p /\ n = length p.
Proof.
  intros l n. split.
  - apply scan_sound.
  - intros (p & r & -> & Hp & ->). apply scan_hit. assumption.
Qed.

Lemma strip_exact : forall s,
  strip s = unlines (map strip_line (lines s)) /\
  unlines (lines s) = map fixnl s /\
  Forall (Forall (fun c => is_nl c = false)) (lines s) /\
  (forall p r, outside p -> strip_line (p ++ cH :: r) = p) /\
  (forall l, (forall p r, l = p ++ cH :: r -> ~ outside p) -> strip_line l = l).
Proof.
  intro s. repeat split.
  - apply unlines_lines.
  - apply lines_no_nl.
  - apply strip_line_cut.
  - apply strip_line_keep.
Qed.

Lemma no_dup : forall jparse s v, jparse (strip s) = Some v ->
  (dup_in v -> load jparse s = LErr EDupKey) /\
  (forall r, load jparse s = LOk r -> r = v /\ ~ dup_in v /\ exists l, v = JObj l).
Proof.
  intros jparse s v Hp. split.
  - apply load_dup. assumption.
  - intros r Hr. pose proof (load_cases jparse s) as H. rewrite Hr in H.
    destruct H as (H1 & H2 & H3). rewrite Hp in H1. inversion H1; subst. auto.
Qed.

Section B.
Variable foi : Z -> option str.

Lemma parse_total : forall T d p,
  (exists v, parse foi T d p = Ok v) \/
  (exists k q', parse foi T d p = Err k (p ++ q') /\ bad_at foi T d q' k).
Proof.
  intros T d p. destruct (parse foi T d p) as [v|k q] eqn:E; [left; eauto|].
  destruct (parse_err_names_item foi _ _ _ _ _ E) as (q' & -> & Hb). right. eauto.
Qed.

Lemma strict : forall T d q k, bad_at foi T d q k ->
  forall p, exists k' q', parse foi T d p = Err k' (p ++ q') /\ bad_at foi T d q' k'.
Proof.
  intros T d q k Hb p. destruct (bad_refused foi _ _ _ _ Hb p) as (k' & q0 & E).
  destruct (parse_err_names_item foi _ _ _ _ _ E) as (q' & -> & Hb'). eauto.
Qed.

(* the three situations of the property text, at the top of a structure *)
Lemma strict_unknown_field : forall fs l n p, In n (map fst l) -> mem n (fnames fs) = false ->
  exists k q, parse foi (TStruct fs) (JObj l) p = Err k q.
Proof.
  intros. destruct (strict _ _ _ _ (bad_unknown foi fs l n H H0) p) as (k & q & E & _). eauto.
Qed.
Lemma strict_missing_field : forall fs l n t p, field_in fs n t None -> assoc n l = None ->
  exists k q, parse foi (TStruct fs) (JObj l) p = Err k q.
Proof.
  intros. destruct (strict _ _ _ _ (bad_missing foi fs l n t H H0) p) as (k & q & E & _). eauto.
Qed.
Lemma strict_inadmissible : forall T d p, shape_ok foi T d = false ->
  parse foi T d p = Err Mismatch p.
Proof. intros. apply shape_bad. assumption. Qed.

Lemma roundtrip_to_data : forall T v p, wf_ty T -> has_type T v -> parse foi T (to_data v) p = Ok v.
Proof. intros T v p Hw Ht. apply (proj1 (rt_spec_all foi)); assumption. Qed.

Lemma roundtrip_from_data : forall T d p v, parse foi T d p = Ok v -> conv foi T d (to_data v).
Proof. intros T d p v H. eapply (proj1 (cv_spec_all foi)); eassumption. Qed.

Lemma parse_has_type : forall T d p v, wf_ty T -> parse foi T d p = Ok v -> has_type T v.
Proof. intros T d p v Hw H. eapply (proj1 (ht_spec_all foi)); eassumption. Qed.

Lemma reparse_stable : forall T d p v, wf_ty T -> parse foi T d p = Ok v ->
  forall p', parse foi T (to_data v) p' = Ok v.
Proof.
  intros T d p v Hw H p'. apply roundtrip_to_data; [assumption|]. eapply parse_has_type; eassumption.
Qed.
End B.
