(* C16 — property theorems only.  Each is closed by [exact] of a lemma of Proofs*.v and followed by
   Print Assumptions.  The functions quantified over are the very ones the correspondence check
   evaluates against qmi.core.config and qmi.core.config_struct:
     strip / strip_line / scan / lines / unlines   <->  _strip_comments
     load (json.loads = the variable jparse)        <->  load_config_string
     jprint                                         <->  dump_config_string
     parse / from_dict (float(int) = the variable foi), to_data
                                                    <->  config_struct_from_dict, config_struct_to_dict
     check, parse_ann (arbitrary annotations)       <->  _check_config_struct_type, _parse_config_value
   Library behaviour appears only as explicit hypotheses of the statements (never as axioms):
   jparse is ANY function (the json round-trip law is a premise of C16_dump_load only), foi is ANY
   function.  All statements are for all texts, all JSON trees, all declared types and all data. *)
Require Import QV.C16.Model QV.C16.Proofs.

(* ---- comments --------------------------------------------------------------------------- *)
(* The scanner is exactly the regular expression of _strip_comments: it reports position n iff the
   line is p ++ '#' ++ r with p in the language (?:[^Q#]|Q(?:[^\\Q]|\\.)*Q)* and n = |p|. *)
Theorem C16_scan_is_regex : forall l n,
  scan l = Some n <-> exists p r, l = p ++ cH :: r /\ outside p /\ n = length p.
Proof. exact scan_is_regex. Qed.
Print Assumptions C16_scan_is_regex.

(* Stripping works line by line (lines split at every CR and LF, re-joined with LF, nothing else
   touched); a line is cut at its first '#' that is outside a string — the removed part is exactly
   the suffix starting there — and a line without such a '#' is kept whole. *)
Theorem C16_strip_exact : forall s,
  strip s = unlines (map strip_line (lines s)) /\
  unlines (lines s) = map fixnl s /\
  Forall (Forall (fun c => is_nl c = false)) (lines s) /\
  (forall p r, outside p -> strip_line (p ++ cH :: r) = p) /\
  (forall l, (forall p r, l = p ++ cH :: r -> ~ outside p) -> strip_line l = l).
Proof. exact strip_exact. Qed.
Print Assumptions C16_strip_exact.

(* a '#' inside a (complete) string is data: the string is kept whatever it contains *)
Theorem C16_hash_in_string_kept : forall p b r, outside p -> strbody b ->
  strip_line (p ++ cQ :: b ++ cQ :: r) = p ++ cQ :: b ++ cQ :: strip_line r.
Proof. exact strip_line_string_kept. Qed.
Print Assumptions C16_hash_in_string_kept.

(* ---- duplicate keys, load ---------------------------------------------------------------- *)
(* has_dup (the pairs hook) finds a repeated key in any object at any depth, and only then *)
Theorem C16_dup_detected : forall v, has_dup v = true <-> dup_in v.
Proof. exact has_dup_iff. Qed.
Print Assumptions C16_dup_detected.

(* a document whose JSON value repeats a key in any object is rejected; whatever load returns is
   the parsed value, is free of repeated keys and is a mapping *)
Theorem C16_no_dup : forall jparse s v, jparse (strip s) = Some v ->
  (dup_in v -> load jparse s = LErr EDupKey) /\
  (forall r, load jparse s = LOk r -> r = v /\ ~ dup_in v /\ exists l, v = JObj l).
Proof. exact no_dup. Qed.
Print Assumptions C16_no_dup.

(* dump never emits text that comment stripping would change (no '#' outside strings, no string
   running over a line end, no CR) ... *)
Theorem C16_dump_untouched : forall v, atoms_ok v = true -> strip (jprint v) = jprint v.
Proof. exact strip_jprint. Qed.
Print Assumptions C16_dump_untouched.

(* ... hence load (dump d) = d for every mapping d without repeated keys, given json's own round
   trip on the printed text (premise; python's json is not modelled) *)
Theorem C16_dump_load : forall (jparse : str -> option jval) l,
  atoms_ok (JObj l) = true -> ~ dup_in (JObj l) ->
  jparse (jprint (JObj l)) = Some (JObj l) ->
  load jparse (jprint (JObj l)) = LOk (JObj l).
Proof. exact dump_load. Qed.
Print Assumptions C16_dump_load.

(* OPEN CHOICE made explicit: C16 fixes the loaded VALUE, not the intermediate comment-free text.
   Allowed stripped texts for s: every out with strip_ok s out, i.e. equal to the pinned [strip s] up
   to WHICH line-break character (CR or LF) stands at each line end.  The pinned behaviour is one
   element, "a text without '#' is returned unchanged" is another, and — JSON being blind to CR
   versus LF (premise nl_blind; python's json is not modelled) — every element loads to the same
   result, so every clause about load holds for each of them. *)
Theorem C16_strip_choice : forall s,
  strip_ok s (strip s) /\
  (~ In cH s -> strip_ok s s) /\
  (forall jparse out, nl_blind jparse -> strip_ok s out -> load_from jparse out = load jparse s).
Proof.
  intro s. split; [apply strip_ok_pinned|]. split; [apply strip_ok_unchanged|].
  intros jparse out. apply strip_ok_same_load.
Qed.
Print Assumptions C16_strip_choice.

(* OPEN CHOICE made explicit: the layout of the dumped text.  For ANY printer: if comment stripping
   leaves its output alone (true of the pinned printer by C16_dump_untouched) and json reads the
   output back as d, then load (dump d) = d. *)
Theorem C16_dump_load_any_printer : forall (jparse : str -> option jval) text l,
  strip text = text -> jparse text = Some (JObj l) -> ~ dup_in (JObj l) ->
  load jparse text = LOk (JObj l).
Proof. intros jparse text l Hs Hj Hd. apply load_ok; [rewrite Hs; assumption | assumption]. Qed.
Print Assumptions C16_dump_load_any_printer.

(* ---- typed structures --------------------------------------------------------------------- *)
(* parse either succeeds or fails with a configuration error whose path extends the current path
   by the relative path of an item that really is offending (bad_at); there is no other outcome *)
Theorem C16_parse_total : forall foi T d p,
  (exists v, parse foi T d p = Ok v) \/
  (exists k q', parse foi T d p = Err k (p ++ q') /\ bad_at foi T d q' k).
Proof. exact parse_total. Qed.
Print Assumptions C16_parse_total.

(* strictness: if ANY item of the data is offending — unknown field, missing field without default,
   value not admitted by its declared type, at any depth — the parse fails, and the error names an
   offending item *)
Theorem C16_strict : forall foi T d q k, bad_at foi T d q k ->
  forall p, exists k' q', parse foi T d p = Err k' (p ++ q') /\ bad_at foi T d q' k'.
Proof. exact strict. Qed.
Print Assumptions C16_strict.

(* acceptance is exactly the absence of offending items *)
Theorem C16_accept_iff : forall foi T d p,
  (exists v, parse foi T d p = Ok v) <-> (forall q k, ~ bad_at foi T d q k).
Proof. exact parse_ok_iff. Qed.
Print Assumptions C16_accept_iff.

(* a value whose top-level kind the declared type does not admit is refused right there *)
Theorem C16_strict_inadmissible : forall foi T d p, shape_ok foi T d = false ->
  parse foi T d p = Err Mismatch p.
Proof. exact strict_inadmissible. Qed.
Print Assumptions C16_strict_inadmissible.

(* structure -> data -> structure is the identity on every value of the declared type *)
Theorem C16_roundtrip_to_data : forall foi T v p, wf_ty T -> has_type T v ->
  parse foi T (to_data v) p = Ok v.
Proof. exact roundtrip_to_data. Qed.
Print Assumptions C16_roundtrip_to_data.

(* data -> structure -> data returns the data after the documented conversions only (conv:
   int -> float in float positions, defaults filled in, fields in declaration order, no key dropped) *)
Theorem C16_roundtrip_from_data : forall foi T d p v, parse foi T d p = Ok v ->
  conv foi T d (to_data v).
Proof. exact roundtrip_from_data. Qed.
Print Assumptions C16_roundtrip_from_data.

(* type-agnostic: converting back returns everything the data held, altered at most by int -> float
   (bool counts as int, as in Python); mappings may only gain keys (defaults) *)
Theorem C16_no_silent_change : forall foi T d p v, parse foi T d p = Ok v ->
  same_upto foi d (to_data v).
Proof. exact no_silent_change. Qed.
Print Assumptions C16_no_silent_change.

(* what parse returns is a value of the declared type (tuples for Tuple fields, floats for float
   fields, structures with every field set) and re-parsing its data gives the same value — this
   is also why the re-validation inside the generated constructor cannot fail *)
Theorem C16_parse_has_type : forall foi T d p v, wf_ty T -> parse foi T d p = Ok v -> has_type T v.
Proof. exact parse_has_type. Qed.
Print Assumptions C16_parse_has_type.

Theorem C16_reparse_stable : forall foi T d p v, wf_ty T -> parse foi T d p = Ok v ->
  forall p', parse foi T (to_data v) p' = Ok v.
Proof. exact reparse_stable. Qed.
Print Assumptions C16_reparse_stable.

(* ---- class check (_check_config_struct_type) -------------------------------------------- *)
(* OPEN CHOICE made explicit: pol says, per family of alternative spellings (AAlt: `X | None`,
   `list[X]`, ...), whether an implementation refuses the spelling or handles it exactly as the
   annotation it abbreviates.  Every theorem of this part holds FOR EVERY pol: whichever choice an
   implementation makes, the class check accepts exactly what denotes an accepted type and checked
   classes parse inside the accepted grammar, where all theorems above apply.  The code at the time
   of writing is the element pol = (fun _ => false). *)
(* the check accepts an annotation iff it stands for a type of the accepted grammar cty (scalars,
   Any, Optional, List, Dict[str,.], both Tuple forms, structures, bare List/Dict/Tuple) — at any
   depth; multi-member Unions, non-string-key Dicts, the builtin tuple and unrecognised annotations
   are refused *)
Theorem C16_check_accepts_grammar : forall pol a p,
  check pol a p = COk <-> exists T, denote pol a = Some T.
Proof. exact check_ok_denotes. Qed.
Print Assumptions C16_check_accepts_grammar.

(* a refusal carries the definition path of an annotation that really is outside the grammar, with
   the matching message kind; and any such annotation anywhere makes the check refuse *)
Theorem C16_check_refusal_located : forall pol a,
  (forall p k q, check pol a p = CErr k q -> exists q', q = p ++ q' /\ unsup_at pol a q' k) /\
  (forall q k, unsup_at pol a q k ->
     forall p, exists k' q', check pol a p = CErr k' (p ++ q') /\ unsup_at pol a q' k').
Proof. intros pol a. split; [exact (proj1 (ce_all pol) a) | exact (unsup_refused pol a)]. Qed.
Print Assumptions C16_check_refusal_located.

(* on every annotation that stands for an accepted type the parser for arbitrary annotations is the
   parser of the accepted grammar ... *)
Theorem C16_parse_ann_is_parse : forall pol foi a T, denote pol a = Some T ->
  forall d p, parse_ann pol foi a d p = parse foi T d p.
Proof. intros pol foi a T. exact (proj1 (pd_all foi pol) a T). Qed.
Print Assumptions C16_parse_ann_is_parse.

(* ... so for a class that passed the check: parsing is parsing in the accepted grammar (all the
   theorems above apply), and every annotation the parser can be called on while parsing for it —
   every sub-annotation — passes the check itself: the branches for unsupported types (last Union
   member, ignored key type, builtin tuple, fall-through mismatch) are never taken *)
Theorem C16_checked_parses_in_grammar : forall foi pol a p, check pol a p = COk ->
  exists T, denote pol a = Some T /\
    (forall d q, parse_ann pol foi a d q = parse foi T d q) /\
    (forall b, subann b a -> forall p', check pol b p' = COk).
Proof. exact checked_parses_in_grammar. Qed.
Print Assumptions C16_checked_parses_in_grammar.

(* ---- non-vacuity --------------------------------------------------------------------------- *)
Local Open Scope N_scope.
(* line 1: an object with key a# and a string value containing an escaped quote and a '#', then a
   comment containing a quote; CR LF; line 2: an unterminated string containing '#' — kept whole.
   (Q = 34, '#' = 35, backslash = 92) *)
Example C16_example_strip :
  strip [123;34;97;35;34;58;34;120;92;34;35;34;125;32;35;32;99;34;13;10;34;117;32;35;107]
  = [123;34;97;35;34;58;34;120;92;34;35;34;125;32;10;10;34;117;32;35;107].
Proof. vm_compute. reflexivity. Qed.

Example C16_example_outside : outside [123;34;97;35;34;58;34;120;92;34;35;34;125;32].
Proof.
  apply out_chr; [discriminate | discriminate |].
  apply (out_str [97;35]); [repeat constructor; discriminate|].
  apply out_chr; [discriminate | discriminate |].
  apply (out_str [120;92;34;35]).
  - apply sb_chr; [discriminate | discriminate |]. apply sb_esc. apply sb_chr; [discriminate | discriminate | constructor].
  - repeat (apply out_chr; [discriminate | discriminate |]). constructor.
Qed.

Definition ex_foi (z : Z) : option str := if Z.eqb z 3 then Some [51;46;48] else None.
(* class S: t: Tuple[int, float]; o: Optional[List[str]] = None; n: Dict[str, Inner] (Inner: b: bool = True) *)
Definition ex_inner := TStruct (FCons [98] TBool (Some (VBool true)) FNil).
Definition ex_ty := TStruct (FCons [116] (TTuple (TCons TInt (TCons TFloat TNil))) None
                            (FCons [111] (TOpt (TList TStr)) (Some VNull)
                            (FCons [110] (TDict ex_inner) None FNil))).
Definition ex_data := JObj [([110], JObj [([107], JObj [])]); ([116], JList [JBool true; JInt 3])].

Example C16_example_parse :
  parse ex_foi ex_ty ex_data [] =
  Ok (VStruct [([116], VTuple [VBool true; VFloat [51;46;48]]); ([111], VNull);
               ([110], VDict [([107], VStruct [([98], VBool true)])])]).
Proof. vm_compute. reflexivity. Qed.

Example C16_example_wf : wf_ty ex_ty.
Proof.
  unfold ex_ty, ex_inner. repeat (constructor; try reflexivity; try (intros dv E; inversion E; subst)).
Qed.

(* a fixed tuple given a number: refused with the item path (the current code raises TypeError) *)
Example C16_example_tuple_scalar :
  parse ex_foi ex_ty (JObj [([110], JObj []); ([116], JInt 5)]) [] = Err Mismatch [PField [116]].
Proof. vm_compute. reflexivity. Qed.

Example C16_example_bad_deep :
  bad_at ex_foi ex_ty (JObj [([110], JObj [([107], JObj [([122], JNull)])]); ([116], JList [JInt 1; JInt 3])])
         [PField [110]; PKey [107]; PField [122]] Unknown.
Proof.
  eapply bad_field; [apply fi_later; apply fi_later; apply fi_here | reflexivity |].
  eapply (bad_dict _ _ _ 0%nat); [reflexivity|].
  apply bad_unknown; [left; reflexivity | reflexivity].
Qed.

Example C16_example_dup : dup_in (JList [JObj [([97], JInt 1); ([98], JNull); ([97], JInt 1)]]).
Proof.
  eapply dup_list; [left; reflexivity|]. apply dup_here. simpl. intro H.
  inversion H as [|? ? Hn _]; subst. apply Hn. right. left. reflexivity.
Qed.

(* class with fields  a: Optional[List[Tuple[int, Dict[str, float]]]]  and  r: Tuple (bare): accepted *)
Definition ex_ann_ok := AStruct (AFCons [97] (AOpt (AList (ATuple (ACons AInt (ACons (ADict true AFloat) ANil))))) None
                                (AFCons [114] (ARaw RTuple) None AFNil)).
Definition pol_off (_ : nat) := false.
Definition pol_on (_ : nat) := true.
Example C16_example_check_ok : check pol_off ex_ann_ok [] = COk /\
  denote pol_off ex_ann_ok = Some (TStruct (FCons [97] (TOpt (TList (TTuple (TCons TInt (TCons (TDict TFloat) TNil))))) None
                                   (FCons [114] TRawTuple None FNil))).
Proof. split; reflexivity. Qed.
(* field a: List[Tuple[int, Dict[int, float]]]: refused at a.[].[1] for the key type;
   field u: Union[int, str] refused at u; without the check the parser would take str *)
Example C16_example_check_refused :
  check pol_off (AStruct (AFCons [97] (AList (ATuple (ACons AInt (ACons (ADict false AFloat) ANil)))) None AFNil)) []
    = CErr CNonStrKey [CField [97]; CAny; CIdx 1] /\
  check pol_off (AStruct (AFCons [117] (AUnion (ACons AInt (ACons AStr ANil)) false) None AFNil)) []
    = CErr CUnion [CField [117]] /\
  parse_ann pol_off ex_foi (AUnion (ACons AInt (ACons AStr ANil)) false) (JStr [120]) [] = Ok (VStr [120]) /\
  parse_ann pol_off ex_foi (AUnion (ACons AInt (ACons AStr ANil)) false) (JInt 1) [] = Err Mismatch [].
Proof. repeat split; reflexivity. Qed.
Example C16_example_raw_tuple :
  parse ex_foi TRawTuple (JList [JInt 1; JList [JNull]]) [] = Ok (VTuple [VInt 1; VList [VNull]]).
Proof. reflexivity. Qed.

(* the two allowed treatments of the spelling  x: int | None  (family 0), equivalent Optional[int] *)
Example C16_example_alt_spelling :
  check pol_off (AStruct (AFCons [120] (AAlt 0 (AOpt AInt)) None AFNil)) [] = CErr CType [CField [120]] /\
  check pol_on (AStruct (AFCons [120] (AAlt 0 (AOpt AInt)) None AFNil)) [] = COk /\
  denote pol_on (AAlt 0 (AOpt AInt)) = Some (TOpt TInt) /\
  parse_ann pol_on ex_foi (AAlt 0 (AOpt AInt)) JNull [] = Ok VNull /\
  parse_ann pol_on ex_foi (AAlt 0 (AOpt AInt)) (JStr [120]) [] = Err Mismatch [].
Proof. repeat split; reflexivity. Qed.
(* CR LF kept by an implementation that returns comment-free texts unchanged: allowed *)
Example C16_example_strip_choice : strip_ok [123; 13; 10; 125]%N [123; 13; 10; 125]%N /\
  strip [123; 13; 10; 125]%N = [123; 10; 10; 125]%N.
Proof. split; reflexivity. Qed.
