(* C16 — configuration loading (qmi/core/config.py, qmi/core/config_struct.py): executable model,
   no proofs here.

   Part A transcribes config.py:
     _strip_comments      -> [lines], [scan]/[scanm], [strip_line], [unlines], [strip]
                             (the regular expression  ^(?:[^Q#]|Q(?:[^\\Q]|\\.)*Q)*#  — Q the double
                             quote — is transcribed as the three-mode scanner [scanm]; its language is
                             re-stated declaratively as [outside]/[strbody]; ProofsA.v proves the two
                             equal.  An unterminated string, or a backslash as the last character of a
                             line inside a string, makes the expression fail to match: the line is kept
                             whole, '#' included.)
     config_pairs_hook    -> [has_dup]
     load_config_string   -> [load]    (json.loads is the section variable [jparse])
     dump_config_string   -> [dump], [jprint]  (layout of json.dumps(indent=4) and its ensure_ascii
                             string escaping, concretely; float repr text is carried in the float atom)
   Part B transcribes config_struct.py:
     _parse_config_value / _parse_config_dict / _parse_config_struct / configstruct.__init__
                          -> [parse] / [parse_items] / [parse_fields]   (float(int) is the section
                             variable [foi]; [None] = the integer is too large for a float)
     config_struct_to_dict (and the _dictify helpers) -> [to_data]
   Part C (end of file) transcribes _check_config_struct_type over ARBITRARY annotations ([ann], [check])
   and _parse_config_value over arbitrary annotations ([parse_ann]); [denote] maps an annotation to the
   accepted grammar [cty] when it belongs to it.  ProofsD.v: check = Ok iff the annotation denotes, and
   then parse_ann = parse.
   Bare List / list / Dict / dict / Tuple field types are part of [cty] (TRawList, TRawDict, TRawTuple).
   At two places the model states what C16 demands and the code used to let another exception escape
   (found by this check, since repaired in /repo by two fix: commits):
     - a fixed-length Tuple field given a value without a length: [Err Mismatch path] (was TypeError);
     - a float field given an integer beyond the float range: [Err Mismatch path] (was OverflowError).
   OPEN CHOICES (what C16 does not fix is a parameter / an allowed-outcome set of the model, with the code's
   current behaviour as one element; Properties.v proves C16's clauses for every element):
     - line-break rendering of the comment-free intermediate text: [strip_ok] (pinned: [strip]);
     - layout of the dumped text: any text the scanner leaves alone (pinned: [jprint]);
     - alternative spellings of supported annotations ([AAlt], policy [pol]; pinned: all refused);
     - error messages are modelled as (configuration error, item path) only; the [ekind] / [ckind] tags are
       internal to the model and its theorems and are not compared with the implementation.
   Outside the model: data that is not JSON data (tuples, dataclass instances, non-string keys);
   the annotation None / NoneType; f.init = False fields.
   Text is a list of code points (N).  A float is an opaque atom: the text of its repr. *)
From Coq Require Export List Arith ZArith NArith Bool Lia.
Export ListNotations.

Definition str := list N.
Definition str_eqb (a b : str) : bool :=
  (fix go a b := match a, b with
                 | [], [] => true
                 | x :: a', y :: b' => N.eqb x y && go a' b'
                 | _, _ => false
                 end) a b.

(* ------------------------------------------------------------------------------------- *)
(* Part A.1: comment stripping                                                             *)
(* ------------------------------------------------------------------------------------- *)
Definition cQ : N := 34.   (* double quote, written Q in comments *)
Definition cH : N := 35.   (* # *)
Definition cB : N := 92.   (* \ *)
Definition cLF : N := 10.
Definition cCR : N := 13.
Definition is_nl (c : N) : bool := N.eqb c cLF || N.eqb c cCR.

(* re.split(r'[\r\n]', s): always at least one line *)
Fixpoint lines (t : str) : list str :=
  match t with
  | [] => [[]]
  | c :: r => if is_nl c then [] :: lines r
              else match lines r with l :: ls => (c :: l) :: ls | [] => [[c]] end
  end.

(* LF.join(lines) *)
Fixpoint unlines (ls : list str) : str :=
  match ls with
  | [] => []
  | [l] => l
  | l :: ls' => l ++ cLF :: unlines ls'
  end.

(* what split + join do to the line ends: every CR or LF becomes one LF *)
Definition fixnl (c : N) : N := if is_nl c then cLF else c.

(* Scanner for one line.  [scan l] = Some n  iff the regular expression matches and the final '#'
   of the match is at index n;  None iff re_comment.match(line) is None.
   MOut      : outside a string — alternatives [^Q#] and Q...Q of the outer group
   MStr/MEsc : inside a string  — alternatives [^\\Q] and \\. of the inner group; the end of the
              line inside a string (also: a backslash as the very last character) means the string
              alternative cannot match, and since no other alternative can consume the opening quote
              the whole match fails. *)
(* one structural recursion over the line with an explicit mode (outside, inside a string, just
   after a backslash inside a string: the next character is skipped) *)
Inductive mode := MOut | MStr | MEsc.
Fixpoint scanm (m : mode) (l : str) : option nat :=
  match l with
  | [] => None
  | c :: r =>
      match m with
      | MOut => if N.eqb c cH then Some 0%nat
                else if N.eqb c cQ then option_map S (scanm MStr r)
                else option_map S (scanm MOut r)
      | MStr => if N.eqb c cQ then option_map S (scanm MOut r)
                else if N.eqb c cB then option_map S (scanm MEsc r)
                else option_map S (scanm MStr r)
      | MEsc => option_map S (scanm MStr r)
      end
  end.
Definition scan (l : str) : option nat := scanm MOut l.

Definition strip_line (l : str) : str :=
  match scan l with Some n => firstn n l | None => l end.

Definition strip (s : str) : str := unlines (map strip_line (lines s)).

(* Declarative language of the regular expression (used in the theorem statements):
   strbody  = (?:[^\\Q]|\\.)*          outside = (?:[^Q#]|Q strbody Q)*                         *)
Inductive strbody : str -> Prop :=
| sb_nil : strbody []
| sb_chr c r : c <> cQ -> c <> cB -> strbody r -> strbody (c :: r)
| sb_esc c r : strbody r -> strbody (cB :: c :: r).
Inductive outside : str -> Prop :=
| out_nil : outside []
| out_chr c r : c <> cQ -> c <> cH -> outside r -> outside (c :: r)
| out_str b r : strbody b -> outside r -> outside (cQ :: b ++ cQ :: r).

(* ------------------------------------------------------------------------------------- *)
(* Part A.2: JSON values, duplicate keys, load                                             *)
(* ------------------------------------------------------------------------------------- *)
Inductive jval :=
| JNull
| JBool (b : bool)
| JInt (z : Z)
| JFloat (f : str)                 (* opaque atom: repr text *)
| JStr (s : str)
| JList (l : list jval)
| JObj (l : list (str * jval)).    (* key order kept; before the pairs hook: may repeat keys *)

Fixpoint mem (k : str) (ks : list str) : bool :=
  match ks with [] => false | x :: r => str_eqb k x || mem k r end.
Fixpoint dup_keys (ks : list str) : bool :=
  match ks with [] => false | k :: r => mem k r || dup_keys r end.

(* config_pairs_hook is called by json.loads for every object: some object repeats a key *)
Fixpoint has_dup (v : jval) : bool :=
  match v with
  | JList l => existsb has_dup l
  | JObj l => dup_keys (map fst l) || existsb (fun kv => has_dup (snd kv)) l
  | _ => false
  end.

(* declarative: some object of v, at any depth, has two equal keys *)
Inductive dup_in : jval -> Prop :=
| dup_here l : ~ NoDup (map fst l) -> dup_in (JObj l)
| dup_list l v : In v l -> dup_in v -> dup_in (JList l)
| dup_obj l k v : In (k, v) l -> dup_in v -> dup_in (JObj l).

Inductive load_err := ENotJson | EDupKey | ENotMapping.
Inductive lres := LOk (v : jval) | LErr (e : load_err).

Section Load.
  Variable jparse : str -> option jval.     (* json.loads, pairs kept raw *)
  (* everything load_config_string does after the comments are gone *)
  Definition load_from (stripped : str) : lres :=
    match jparse stripped with
    | None => LErr ENotJson                 (* json.JSONDecodeError (a ValueError) *)
    | Some v =>
        if has_dup v then LErr EDupKey      (* ValueError from the hook *)
        else match v with JObj _ => LOk v | _ => LErr ENotMapping end
    end.
  Definition load (s : str) : lres := load_from (strip s).
End Load.

(* OPEN CHOICE (not fixed by C16): how the comment-free intermediate text renders its line ends.
   [strip] is the pinned behaviour (every CR / LF becomes one LF).  Allowed: any text that differs from
   [strip s] only in WHICH line-break character (CR or LF) stands at each line end — e.g. returning a
   text without any '#' unchanged.  JSON cannot tell the two apart ([nl_blind]); Proofs.v shows that
   every allowed outcome loads to the same result. *)
Definition strip_ok (s out : str) : Prop := map fixnl out = strip s.
Definition nl_blind (jparse : str -> option jval) : Prop :=
  forall a b, map fixnl a = map fixnl b -> jparse a = jparse b.

(* ------------------------------------------------------------------------------------- *)
(* Part A.3: dump = json.dumps(cfg, indent=4)                                              *)
(* ------------------------------------------------------------------------------------- *)
Local Open Scope N_scope.
Definition hexdig (n : N) : N := if N.ltb n 10 then 48 + n else 87 + n.   (* lowercase *)
Definition u4 (n : N) : str :=   (* \uXXXX *)
  [cB; 117; hexdig (N.land (N.shiftr n 12) 15); hexdig (N.land (N.shiftr n 8) 15);
   hexdig (N.land (N.shiftr n 4) 15); hexdig (N.land n 15)].
(* json.encoder.py_encode_basestring_ascii, one character *)
Definition esc_char (c : N) : str :=
  if N.eqb c cQ then [cB; cQ]
  else if N.eqb c cB then [cB; cB]
  else if N.eqb c 10 then [cB; 110]
  else if N.eqb c 13 then [cB; 114]
  else if N.eqb c 9 then [cB; 116]
  else if N.eqb c 8 then [cB; 98]
  else if N.eqb c 12 then [cB; 102]
  else if N.leb 32 c && N.leb c 126 then [c]
  else if N.ltb c 65536 then u4 c
  else let n := c - 65536 in
       u4 (N.lor 55296 (N.land (N.shiftr n 10) 1023)) ++ u4 (N.lor 56320 (N.land n 1023)).
Definition jstr (s : str) : str := cQ :: flat_map esc_char s ++ [cQ].

(* decimal text of an integer *)
Fixpoint pos_digits (fuel : nat) (n : N) (acc : str) : str :=
  match fuel with
  | O => acc
  | S f => let acc' := (48 + N.modulo n 10) :: acc in
           if N.ltb n 10 then acc' else pos_digits f (N.div n 10) acc'
  end.
Definition int_text (z : Z) : str :=
  match z with
  | Z0 => [48]
  | Zpos p => pos_digits (S (Pos.size_nat p)) (Npos p) []
  | Zneg p => 45 :: pos_digits (S (Pos.size_nat p)) (Npos p) []
  end.

Definition indent (lvl : nat) : str := repeat 32 (4 * lvl)%nat.
Definition nl_indent (lvl : nat) : str := cLF :: indent lvl.

(* items separated by comma, LF, indent *)
Fixpoint sep_items (lvl : nat) (items : list str) : str :=
  match items with
  | [] => []
  | [x] => x
  | x :: r => x ++ 44 :: nl_indent lvl ++ sep_items lvl r
  end.

Fixpoint jprint_at (lvl : nat) (v : jval) : str :=
  match v with
  | JNull => [110; 117; 108; 108]
  | JBool true => [116; 114; 117; 101]
  | JBool false => [102; 97; 108; 115; 101]
  | JInt z => int_text z
  | JFloat f => f
  | JStr s => jstr s
  | JList [] => [91; 93]
  | JList l => 91 :: nl_indent (S lvl) ++ sep_items (S lvl) (map (jprint_at (S lvl)) l)
                 ++ nl_indent lvl ++ [93]
  | JObj [] => [123; 125]
  | JObj l => 123 :: nl_indent (S lvl)
                ++ sep_items (S lvl) (map (fun kv => jstr (fst kv) ++ 58 :: 32 :: jprint_at (S lvl) (snd kv)) l)
                ++ nl_indent lvl ++ [125]
  end.
Definition jprint (v : jval) : str := jprint_at 0 v.
(* dump_config_string: refuses (QMI_ConfigurationException) anything but a mapping *)
Definition dump (v : jval) : option str := match v with JObj _ => Some (jprint v) | _ => None end.

Local Close Scope N_scope.

(* float atoms that json.dumps can emit: no quote, hash or line break in the repr text *)
Definition atom_ok (f : str) : bool :=
  forallb (fun c => negb (N.eqb c cQ || N.eqb c cH || is_nl c)) f.
Fixpoint atoms_ok (v : jval) : bool :=
  match v with
  | JFloat f => atom_ok f
  | JList l => forallb atoms_ok l
  | JObj l => forallb (fun kv => atoms_ok (snd kv)) l
  | _ => true
  end.

(* ------------------------------------------------------------------------------------- *)
(* Part B: typed configuration structures                                                  *)
(* ------------------------------------------------------------------------------------- *)
(* Values of configuration structures (the Python objects held by the dataclass instances) *)
Inductive cval :=
| VNull
| VBool (b : bool)
| VInt (z : Z)
| VFloat (f : str)
| VStr (s : str)
| VList (l : list cval)
| VTuple (l : list cval)
| VDict (l : list (str * cval))
| VStruct (l : list (str * cval)).   (* dataclass instance: fields in declaration order *)

(* Field types.  TTuple = Tuple[T1,...,Tn] (n >= 1), TVarTuple = Tuple[T, ...]; a struct field
   carries its default (value or factory result) if it has one. *)
Inductive cty :=
| TInt | TFloat | TStr | TBool | TAny
| TOpt (t : cty)
| TList (t : cty)
| TDict (t : cty)
| TVarTuple (t : cty)
| TTuple (ts : ctys)
| TStruct (fs : cfields)
| TRawList | TRawDict | TRawTuple     (* bare List / list, Dict / dict, Tuple: contents not inspected *)
with ctys := TNil | TCons (t : cty) (ts : ctys)
with cfields := FNil | FCons (name : str) (t : cty) (dflt : option cval) (fs : cfields).

Fixpoint tlen (ts : ctys) : nat := match ts with TNil => 0 | TCons _ r => S (tlen r) end.
Fixpoint tnth (ts : ctys) (i : nat) : option cty :=
  match ts, i with
  | TNil, _ => None
  | TCons t _, O => Some t
  | TCons _ r, S j => tnth r j
  end.
Fixpoint fnames (fs : cfields) : list str :=
  match fs with FNil => [] | FCons n _ _ r => n :: fnames r end.
Fixpoint assoc {A} (k : str) (l : list (str * A)) : option A :=
  match l with [] => None | (k', v) :: r => if str_eqb k k' then Some v else assoc k r end.

(* the value passed through unchanged by an Any field *)
Fixpoint embed (d : jval) : cval :=
  match d with
  | JNull => VNull | JBool b => VBool b | JInt z => VInt z | JFloat f => VFloat f | JStr s => VStr s
  | JList l => VList (map embed l)
  | JObj l => VDict (map (fun kv => (fst kv, embed (snd kv))) l)
  end.

(* config_struct_to_dict *)
Fixpoint to_data (v : cval) : jval :=
  match v with
  | VNull => JNull | VBool b => JBool b | VInt z => JInt z | VFloat f => JFloat f | VStr s => JStr s
  | VList l => JList (map to_data l)
  | VTuple l => JList (map to_data l)
  | VDict l => JObj (map (fun kv => (fst kv, to_data (snd kv))) l)
  | VStruct l => JObj (map (fun kv => (fst kv, to_data (snd kv))) l)
  end.

(* item path: [i], [repr(key)], field name; error kinds = the three messages of
   QMI_ConfigurationException raised by config_struct.py *)
Inductive pelem := PIdx (i : nat) | PKey (k : str) | PField (k : str).
Definition path := list pelem.
Inductive ekind := Mismatch | Missing | Unknown.
Inductive result (A : Type) := Ok (a : A) | Err (k : ekind) (p : path).
Arguments Ok {A} a.
Arguments Err {A} k p.

Definition rmap {A B} (f : A -> B) (r : result A) : result B :=
  match r with Ok a => Ok (f a) | Err k p => Err k p end.
Definition rbind {A B} (r : result A) (f : A -> result B) : result B :=
  match r with Ok a => f a | Err k p => Err k p end.

(* for (i, elem) in enumerate(val): path.append([i]) ... *)
Fixpoint parse_elems (f : jval -> path -> result cval) (l : list jval) (i : nat) (p : path)
  : result (list cval) :=
  match l with
  | [] => Ok []
  | e :: r => rbind (f e (p ++ [PIdx i])) (fun v => rmap (cons v) (parse_elems f r (S i) p))
  end.

(* _parse_config_dict *)
Fixpoint parse_items (f : jval -> path -> result cval) (l : list (str * jval)) (p : path)
  : result (list (str * cval)) :=
  match l with
  | [] => Ok []
  | (k, e) :: r => rbind (f e (p ++ [PKey k])) (fun v => rmap (cons (k, v)) (parse_items f r p))
  end.

(* for k in data.keys(): if k not in items — first key that is not a field name *)
Fixpoint first_unknown (names : list str) (ks : list str) : option str :=
  match ks with
  | [] => None
  | k :: r => if mem k names then first_unknown names r else Some k
  end.

Definition b2z (b : bool) : Z := if b then 1%Z else 0%Z.

Section Parse.
  Variable foi : Z -> option str.   (* float(int): None = OverflowError (must become a config error) *)

  Definition to_float (z : Z) (p : path) : result cval :=
    match foi z with Some f => Ok (VFloat f) | None => Err Mismatch p end.

  (* _parse_config_value, in the order of its tests *)
  Fixpoint parse (T : cty) (d : jval) (p : path) {struct T} : result cval :=
    match T with
    | TOpt t => match d with JNull => Ok VNull | _ => parse t d p end
    | TAny => Ok (embed d)
    | TInt => match d with
              | JInt z => Ok (VInt z)
              | JBool b => Ok (VBool b)          (* isinstance(True, int) *)
              | _ => Err Mismatch p end
    | TFloat => match d with
                | JFloat f => Ok (VFloat f)
                | JInt z => to_float z p           (* float(val) *)
                | JBool b => to_float (b2z b) p    (* isinstance(True, int): float(True) = 1.0 *)
                | _ => Err Mismatch p end
    | TStr => match d with JStr s => Ok (VStr s) | _ => Err Mismatch p end
    | TBool => match d with JBool b => Ok (VBool b) | _ => Err Mismatch p end
    | TList t => match d with
                 | JList l => rmap VList (parse_elems (parse t) l 0 p)
                 | _ => Err Mismatch p end
    | TVarTuple t => match d with
                     | JList l => rmap VTuple (parse_elems (parse t) l 0 p)
                     | _ => Err Mismatch p end
    | TTuple ts => match d with
                   | JList l => if Nat.eqb (length l) (tlen ts)
                                then rmap VTuple (parse_tuple ts l 0 p)
                                else Err Mismatch p
                   | _ => Err Mismatch p end     (* required behaviour; see known finding *)
    | TDict t => match d with
                 | JObj l => rmap VDict (parse_items (parse t) l p)
                 | _ => Err Mismatch p end
    | TStruct fs => match d with
                    | JObj l =>
                        rbind (parse_fields fs l p) (fun items =>
                          match first_unknown (fnames fs) (map fst l) with
                          | Some k => Err Unknown (p ++ [PField k])
                          | None => Ok (VStruct items)
                          end)
                    | _ => Err Mismatch p end
    (* untyped aggregates: the value is passed as it is (a bare Tuple turns the list into a tuple) *)
    | TRawList => match d with JList l => Ok (VList (map embed l)) | _ => Err Mismatch p end
    | TRawDict => match d with
                  | JObj l => Ok (VDict (map (fun kv => (fst kv, embed (snd kv))) l))
                  | _ => Err Mismatch p end
    | TRawTuple => match d with JList l => Ok (VTuple (map embed l)) | _ => Err Mismatch p end
    end
  with parse_tuple (ts : ctys) (l : list jval) (i : nat) (p : path) {struct ts}
    : result (list cval) :=
    match ts, l with
    | TNil, _ => Ok []
    | TCons t ts', e :: l' =>
        rbind (parse t e (p ++ [PIdx i])) (fun v => rmap (cons v) (parse_tuple ts' l' (S i) p))
    | TCons _ _, [] => Err Mismatch p     (* unreachable: lengths compared first *)
    end
  (* _parse_config_struct, first loop, followed by the constructor filling in defaults *)
  with parse_fields (fs : cfields) (l : list (str * jval)) (p : path) {struct fs}
    : result (list (str * cval)) :=
    match fs with
    | FNil => Ok []
    | FCons n t dflt fs' =>
        match assoc n l with
        | Some d => rbind (parse t d (p ++ [PField n]))
                      (fun v => rmap (cons (n, v)) (parse_fields fs' l p))
        | None => match dflt with
                  | None => Err Missing (p ++ [PField n])
                  | Some dv => rmap (cons (n, dv)) (parse_fields fs' l p)
                  end
        end
    end.

  (* config_struct_from_dict(data, cls) *)
  Definition from_dict (T : cty) (d : jval) : result cval := parse T d [].
End Parse.

(* ------------------------------------------------------------------------------------- *)
(* Specification vocabulary for the theorems (declarative; nothing here is executed by the  *)
(* correspondence)                                                                          *)
(* ------------------------------------------------------------------------------------- *)
(* a plain value: what an Any field may hold (no tuples, no structures) *)
Inductive plain : cval -> Prop :=
| pl_null : plain VNull | pl_bool b : plain (VBool b) | pl_int z : plain (VInt z)
| pl_float f : plain (VFloat f) | pl_str s : plain (VStr s)
| pl_list l : Forall plain l -> plain (VList l)
| pl_dict l : Forall (fun kv => plain (snd kv)) l -> plain (VDict l).

(* v is a value of declared type T *)
Inductive has_type : cty -> cval -> Prop :=
| ht_any v : plain v -> has_type TAny v
| ht_int z : has_type TInt (VInt z)
| ht_int_bool b : has_type TInt (VBool b)
| ht_float f : has_type TFloat (VFloat f)
| ht_str s : has_type TStr (VStr s)
| ht_bool b : has_type TBool (VBool b)
| ht_opt_none t : has_type (TOpt t) VNull
| ht_opt_some t v : has_type t v -> has_type (TOpt t) v
| ht_list t l : Forall (has_type t) l -> has_type (TList t) (VList l)
| ht_vartuple t l : Forall (has_type t) l -> has_type (TVarTuple t) (VTuple l)
| ht_dict t l : Forall (fun kv => has_type t (snd kv)) l -> has_type (TDict t) (VDict l)
| ht_tuple ts l : tuple_has_type ts l -> has_type (TTuple ts) (VTuple l)
| ht_struct fs l : fields_have_type fs l -> has_type (TStruct fs) (VStruct l)
| ht_rawlist l : Forall plain l -> has_type TRawList (VList l)
| ht_rawdict l : Forall (fun kv => plain (snd kv)) l -> has_type TRawDict (VDict l)
| ht_rawtuple l : Forall plain l -> has_type TRawTuple (VTuple l)
with tuple_has_type : ctys -> list cval -> Prop :=
| tht_nil : tuple_has_type TNil []
| tht_cons t ts v l : has_type t v -> tuple_has_type ts l -> tuple_has_type (TCons t ts) (v :: l)
with fields_have_type : cfields -> list (str * cval) -> Prop :=
| fht_nil : fields_have_type FNil []
| fht_cons n t d fs v l : has_type t v -> fields_have_type fs l ->
    fields_have_type (FCons n t d fs) ((n, v) :: l).

(* a declared type is well formed: field names distinct, defaults are values of the field type *)
Inductive wf_ty : cty -> Prop :=
| wf_int : wf_ty TInt | wf_float : wf_ty TFloat | wf_str : wf_ty TStr | wf_bool : wf_ty TBool
| wf_any : wf_ty TAny
| wf_opt t : wf_ty t -> wf_ty (TOpt t)
| wf_list t : wf_ty t -> wf_ty (TList t)
| wf_dict t : wf_ty t -> wf_ty (TDict t)
| wf_vartuple t : wf_ty t -> wf_ty (TVarTuple t)
| wf_tuple ts : wf_tys ts -> wf_ty (TTuple ts)
| wf_struct fs : wf_fields fs -> wf_ty (TStruct fs)
| wf_rawlist : wf_ty TRawList | wf_rawdict : wf_ty TRawDict | wf_rawtuple : wf_ty TRawTuple
with wf_tys : ctys -> Prop :=
| wft_nil : wf_tys TNil
| wft_cons t ts : wf_ty t -> wf_tys ts -> wf_tys (TCons t ts)
with wf_fields : cfields -> Prop :=
| wff_nil : wf_fields FNil
| wff_cons n t d fs : wf_ty t -> mem n (fnames fs) = false ->
    (forall dv, d = Some dv -> has_type t dv) -> wf_fields fs -> wf_fields (FCons n t d fs).

(* top-level shape test of _parse_config_value: does type T look at a value of this JSON kind at
   all (before descending into its items) *)
Fixpoint shape_ok (foi : Z -> option str) (T : cty) (d : jval) : bool :=
  match T, d with
  | TOpt _, JNull => true
  | TOpt t, _ => shape_ok foi t d
  | TAny, _ => true
  | TInt, (JInt _ | JBool _) => true
  | TFloat, JFloat _ => true
  | TFloat, JInt z => match foi z with Some _ => true | None => false end
  | TFloat, JBool b => match foi (b2z b) with Some _ => true | None => false end
  | TStr, JStr _ => true
  | TBool, JBool _ => true
  | (TList _ | TVarTuple _ | TRawList | TRawTuple), JList _ => true
  | TTuple ts, JList l => Nat.eqb (length l) (tlen ts)
  | (TDict _ | TStruct _ | TRawDict), JObj _ => true
  | _, _ => false
  end.

Inductive field_in : cfields -> str -> cty -> option cval -> Prop :=
| fi_here n t d fs : field_in (FCons n t d fs) n t d
| fi_later n t d n' t' d' fs : field_in fs n t d -> field_in (FCons n' t' d' fs) n t d.

(* [bad_at foi T d q k]: relative to an item of declared type T holding data d, the item at
   relative path q is offending with kind k:
     Mismatch — its value is not admitted by its declared type (at the top level of that item)
     Missing  — it is a field without default that is absent
     Unknown  — it is a key of a structure that is not a declared field *)
Inductive bad_at (foi : Z -> option str) : cty -> jval -> path -> ekind -> Prop :=
| bad_here T d : shape_ok foi T d = false -> bad_at foi T d [] Mismatch
| bad_opt t d q k : d <> JNull -> bad_at foi t d q k -> bad_at foi (TOpt t) d q k
| bad_list t l i e q k : nth_error l i = Some e -> bad_at foi t e q k ->
    bad_at foi (TList t) (JList l) (PIdx i :: q) k
| bad_vartuple t l i e q k : nth_error l i = Some e -> bad_at foi t e q k ->
    bad_at foi (TVarTuple t) (JList l) (PIdx i :: q) k
| bad_tuple ts l i t e q k : length l = tlen ts -> tnth ts i = Some t -> nth_error l i = Some e ->
    bad_at foi t e q k -> bad_at foi (TTuple ts) (JList l) (PIdx i :: q) k
| bad_dict t l n key e q k : nth_error l n = Some (key, e) -> bad_at foi t e q k ->
    bad_at foi (TDict t) (JObj l) (PKey key :: q) k
| bad_field fs l n t dflt e q k : field_in fs n t dflt -> assoc n l = Some e ->
    bad_at foi t e q k -> bad_at foi (TStruct fs) (JObj l) (PField n :: q) k
| bad_missing fs l n t : field_in fs n t None -> assoc n l = None ->
    bad_at foi (TStruct fs) (JObj l) [PField n] Missing
| bad_unknown fs l n : In n (map fst l) -> mem n (fnames fs) = false ->
    bad_at foi (TStruct fs) (JObj l) [PField n] Unknown.

(* [conv foi T d d']: d' is d after the documented conversions for declared type T —
   int -> float in float positions (Python: bool is an int), lists unchanged as JSON (list -> tuple
   only changes the Python container), absent defaulted fields filled in, fields in declaration
   order; everything else identical. *)
Inductive conv (foi : Z -> option str) : cty -> jval -> jval -> Prop :=
| cv_any d : conv foi TAny d d
| cv_int z : conv foi TInt (JInt z) (JInt z)
| cv_int_bool b : conv foi TInt (JBool b) (JBool b)
| cv_float f : conv foi TFloat (JFloat f) (JFloat f)
| cv_float_int z f : foi z = Some f -> conv foi TFloat (JInt z) (JFloat f)
| cv_float_bool b f : foi (b2z b) = Some f -> conv foi TFloat (JBool b) (JFloat f)
| cv_str s : conv foi TStr (JStr s) (JStr s)
| cv_bool b : conv foi TBool (JBool b) (JBool b)
| cv_opt_none t : conv foi (TOpt t) JNull JNull
| cv_opt_some t d d' : d <> JNull -> conv foi t d d' -> conv foi (TOpt t) d d'
| cv_list t l l' : Forall2 (conv foi t) l l' -> conv foi (TList t) (JList l) (JList l')
| cv_vartuple t l l' : Forall2 (conv foi t) l l' -> conv foi (TVarTuple t) (JList l) (JList l')
| cv_tuple ts l l' : conv_tuple foi ts l l' -> conv foi (TTuple ts) (JList l) (JList l')
| cv_dict t l l' : Forall2 (fun a b => fst a = fst b /\ conv foi t (snd a) (snd b)) l l' ->
    conv foi (TDict t) (JObj l) (JObj l')
| cv_struct fs l l' :
    (forall k, In k (map fst l) -> mem k (fnames fs) = true) ->     (* no key of d is dropped *)
    conv_fields foi fs l l' -> conv foi (TStruct fs) (JObj l) (JObj l')
| cv_rawlist l : conv foi TRawList (JList l) (JList l)
| cv_rawdict l : conv foi TRawDict (JObj l) (JObj l)
| cv_rawtuple l : conv foi TRawTuple (JList l) (JList l)
with conv_tuple (foi : Z -> option str) : ctys -> list jval -> list jval -> Prop :=
| cvt_nil : conv_tuple foi TNil [] []
| cvt_cons t ts d d' l l' : conv foi t d d' -> conv_tuple foi ts l l' ->
    conv_tuple foi (TCons t ts) (d :: l) (d' :: l')
with conv_fields (foi : Z -> option str) : cfields -> list (str * jval) -> list (str * jval) -> Prop :=
| cvf_nil l : conv_fields foi FNil l []
| cvf_present n t dflt fs l d d' l' : assoc n l = Some d -> conv foi t d d' ->
    conv_fields foi fs l l' -> conv_fields foi (FCons n t dflt fs) l ((n, d') :: l')
| cvf_default n t dv fs l l' : assoc n l = None ->
    conv_fields foi fs l l' -> conv_fields foi (FCons n t (Some dv) fs) l ((n, to_data dv) :: l').

(* Type-agnostic reading of "no value is silently altered": d' holds everything d holds, changed at
   most by int -> float (Python: bool is an int); mappings may gain keys (defaults), never lose one. *)
Inductive same_upto (foi : Z -> option str) : jval -> jval -> Prop :=
| su_same d : same_upto foi d d
| su_int_float z f : foi z = Some f -> same_upto foi (JInt z) (JFloat f)
| su_bool_float b f : foi (b2z b) = Some f -> same_upto foi (JBool b) (JFloat f)
| su_list l l' : Forall2 (same_upto foi) l l' -> same_upto foi (JList l) (JList l')
| su_obj l l' :
    (forall k d, assoc k l = Some d -> exists d', assoc k l' = Some d' /\ same_upto foi d d') ->
    same_upto foi (JObj l) (JObj l').

(* ------------------------------------------------------------------------------------- *)
(* Part C: annotations as written in a class definition, and _check_config_struct_type      *)
(* ------------------------------------------------------------------------------------- *)
(* Defining a @configstruct class checks nothing; config_struct_from_dict first runs
   _check_config_struct_type on the class and only then parses.  [ann] is everything an annotation
   can be as far as the two functions can tell apart; [cty] (above) is the accepted sub-grammar.
     ARaw RList = List or list, ARaw RDict = Dict or dict, ARaw RTuple = typing.Tuple,
     ARaw RTupleB = the builtin tuple (parsed like a bare Tuple, but refused by the check);
     AOpt a = Optional[a];  AUnion ms n = Union of two or more non-None members ms (n: None is a member);
     ADict kstr a = Dict[K, a] with kstr = (K is str);
     AOther = anything neither function recognises and that has no supported equivalent (Set[int],
              bytes, ...): refused;
     AAlt fam a = another spelling (family fam: 0 = PEP 604 `X | Y`, 1 = PEP 585 `list[X]` ...) of the
              annotation a.  OPEN CHOICE (not fixed by C16): an implementation either refuses the
              spelling as unsupported or handles it EXACTLY as a; the policy [pol : nat -> bool] says
              which, per family.  The code at the time of writing is pol = (fun _ => false). *)
Inductive rawkind := RList | RDict | RTuple | RTupleB.
Inductive ann :=
| AInt | AFloat | AStr | ABool | AAny
| ARaw (k : rawkind)
| AOther
| AAlt (fam : nat) (a : ann)
| AOpt (a : ann)
| AUnion (ms : anns) (has_none : bool)
| AList (a : ann)
| ADict (kstr : bool) (a : ann)
| AVarTuple (a : ann)
| ATuple (ms : anns)
| AStruct (fs : afields)
with anns := ANil | ACons (a : ann) (r : anns)
with afields := AFNil | AFCons (name : str) (a : ann) (dflt : option cval) (r : afields).

(* path in a class definition: "[]", "[i]", field name; the three messages of the check *)
Inductive cpelem := CAny | CIdx (i : nat) | CField (k : str).
Inductive ckind := CUnion | CNonStrKey | CType.
Inductive cres := COk | CErr (k : ckind) (p : list cpelem).
Definition cthen (r k : cres) : cres := match r with COk => k | e => e end.

(* _check_config_struct_type, in the order of its tests *)
Fixpoint check (pol : nat -> bool) (a : ann) (p : list cpelem) {struct a} : cres :=
  match a with
  | AOpt a' => check pol a' p                       (* unwrapped, same path *)
  | AUnion _ _ => CErr CUnion p                 (* raised at the second non-None member *)
  | AInt | AFloat | AStr | ABool | AAny => COk
  | ARaw RTupleB => CErr CType p
  | ARaw _ => COk
  | AList a' => check pol a' (p ++ [CAny])
  | AVarTuple a' => check pol a' (p ++ [CAny])
  | ATuple ms => check_tuple pol ms 0 p
  | ADict kstr a' => if kstr then check pol a' (p ++ [CAny]) else CErr CNonStrKey p
  | AStruct fs => check_fields pol fs p
  | AOther => CErr CType p
  | AAlt fam a' => if pol fam then check pol a' p else CErr CType p
  end
with check_tuple (pol : nat -> bool) (ms : anns) (i : nat) (p : list cpelem) {struct ms} : cres :=
  match ms with
  | ANil => COk
  | ACons a r => cthen (check pol a (p ++ [CIdx i])) (check_tuple pol r (S i) p)
  end
with check_fields (pol : nat -> bool) (fs : afields) (p : list cpelem) {struct fs} : cres :=
  match fs with
  | AFNil => COk
  | AFCons n a _ r => cthen (check pol a (p ++ [CField n])) (check_fields pol r p)
  end.

(* the accepted type an annotation stands for, if any *)
Fixpoint denote (pol : nat -> bool) (a : ann) {struct a} : option cty :=
  match a with
  | AInt => Some TInt | AFloat => Some TFloat | AStr => Some TStr | ABool => Some TBool | AAny => Some TAny
  | ARaw RList => Some TRawList | ARaw RDict => Some TRawDict | ARaw RTuple => Some TRawTuple
  | ARaw RTupleB => None
  | AOther => None
  | AAlt fam a' => if pol fam then denote pol a' else None
  | AOpt a' => option_map TOpt (denote pol a')
  | AUnion _ _ => None
  | AList a' => option_map TList (denote pol a')
  | ADict kstr a' => if kstr then option_map TDict (denote pol a') else None
  | AVarTuple a' => option_map TVarTuple (denote pol a')
  | ATuple ms => option_map TTuple (denote_anns pol ms)
  | AStruct fs => option_map TStruct (denote_fields pol fs)
  end
with denote_anns (pol : nat -> bool) (ms : anns) {struct ms} : option ctys :=
  match ms with
  | ANil => Some TNil
  | ACons a r => match denote pol a, denote_anns pol r with
                 | Some t, Some ts => Some (TCons t ts)
                 | _, _ => None end
  end
with denote_fields (pol : nat -> bool) (fs : afields) {struct fs} : option cfields :=
  match fs with
  | AFNil => Some FNil
  | AFCons n a d r => match denote pol a, denote_fields pol r with
                      | Some t, Some fs' => Some (FCons n t d fs')
                      | _, _ => None end
  end.

Fixpoint alen (ms : anns) : nat := match ms with ANil => 0 | ACons _ r => S (alen r) end.
Fixpoint afnames (fs : afields) : list str :=
  match fs with AFNil => [] | AFCons n _ _ r => n :: afnames r end.

  (* _parse_config_value on ANY annotation (the generated constructor calls it without the check).
     Branches that exist only for annotations outside the accepted grammar: the last member of a
     multi-member Union is taken; a Dict key type is ignored; the builtin tuple is a bare Tuple;
     an unrecognised annotation falls through to the type-mismatch error. *)
  Fixpoint parse_ann (pol : nat -> bool) (foi : Z -> option str) (a : ann) (d : jval) (p : path) {struct a} : result cval :=
    match a with
    | AInt => parse foi TInt d p
    | AFloat => parse foi TFloat d p
    | AStr => parse foi TStr d p
    | ABool => parse foi TBool d p
    | AAny => parse foi TAny d p
    | ARaw RList => parse foi TRawList d p
    | ARaw RDict => parse foi TRawDict d p
    | ARaw RTuple | ARaw RTupleB => parse foi TRawTuple d p
    | AOther => Err Mismatch p
    | AAlt fam a' => if pol fam then parse_ann pol foi a' d p else Err Mismatch p
    | AOpt a' => match d with JNull => Ok VNull | _ => parse_ann pol foi a' d p end
    | AUnion ms hn => if hn then match d with JNull => Ok VNull | _ => parse_last pol foi ms d p end
                      else parse_last pol foi ms d p
    | AList a' => match d with
                  | JList l => rmap VList (parse_elems (parse_ann pol foi a') l 0 p)
                  | _ => Err Mismatch p end
    | AVarTuple a' => match d with
                      | JList l => rmap VTuple (parse_elems (parse_ann pol foi a') l 0 p)
                      | _ => Err Mismatch p end
    | ATuple ms => match d with
                   | JList l => if Nat.eqb (length l) (alen ms)
                                then rmap VTuple (parse_atuple pol foi ms l 0 p)
                                else Err Mismatch p
                   | _ => Err Mismatch p end
    | ADict _ a' => match d with
                    | JObj l => rmap VDict (parse_items (parse_ann pol foi a') l p)
                    | _ => Err Mismatch p end
    | AStruct fs => match d with
                    | JObj l =>
                        rbind (parse_afields pol foi fs l p) (fun items =>
                          match first_unknown (afnames fs) (map fst l) with
                          | Some k => Err Unknown (p ++ [PField k])
                          | None => Ok (VStruct items)
                          end)
                    | _ => Err Mismatch p end
    end
  with parse_last (pol : nat -> bool) (foi : Z -> option str) (ms : anns) (d : jval) (p : path) {struct ms} : result cval :=
    match ms with
    | ANil => Err Mismatch p
    | ACons a ANil => parse_ann pol foi a d p
    | ACons _ r => parse_last pol foi r d p
    end
  with parse_atuple (pol : nat -> bool) (foi : Z -> option str) (ms : anns) (l : list jval) (i : nat) (p : path) {struct ms}
    : result (list cval) :=
    match ms, l with
    | ANil, _ => Ok []
    | ACons a r, e :: l' =>
        rbind (parse_ann pol foi a e (p ++ [PIdx i])) (fun v => rmap (cons v) (parse_atuple pol foi r l' (S i) p))
    | ACons _ _, [] => Err Mismatch p
    end
  with parse_afields (pol : nat -> bool) (foi : Z -> option str) (fs : afields) (l : list (str * jval)) (p : path) {struct fs}
    : result (list (str * cval)) :=
    match fs with
    | AFNil => Ok []
    | AFCons n a dflt r =>
        match assoc n l with
        | Some d => rbind (parse_ann pol foi a d (p ++ [PField n]))
                      (fun v => rmap (cons (n, v)) (parse_afields pol foi r l p))
        | None => match dflt with
                  | None => Err Missing (p ++ [PField n])
                  | Some dv => rmap (cons (n, dv)) (parse_afields pol foi r l p)
                  end
        end
    end.

(* sub-annotations: everything the parser can be called on while parsing for annotation a *)
Inductive subann : ann -> ann -> Prop :=
| sa_refl a : subann a a
| sa_alt b fam a : subann b a -> subann b (AAlt fam a)
| sa_opt b a : subann b a -> subann b (AOpt a)
| sa_union b ms hn : subann_anns b ms -> subann b (AUnion ms hn)
| sa_list b a : subann b a -> subann b (AList a)
| sa_dict b k a : subann b a -> subann b (ADict k a)
| sa_vartuple b a : subann b a -> subann b (AVarTuple a)
| sa_tuple b ms : subann_anns b ms -> subann b (ATuple ms)
| sa_struct b fs : subann_fields b fs -> subann b (AStruct fs)
with subann_anns : ann -> anns -> Prop :=
| saa_here b a r : subann b a -> subann_anns b (ACons a r)
| saa_later b a r : subann_anns b r -> subann_anns b (ACons a r)
with subann_fields : ann -> afields -> Prop :=
| saf_here b n a d r : subann b a -> subann_fields b (AFCons n a d r)
| saf_later b n a d r : subann_fields b r -> subann_fields b (AFCons n a d r).

Fixpoint anth (ms : anns) (i : nat) : option ann :=
  match ms, i with
  | ANil, _ => None
  | ACons a _, O => Some a
  | ACons _ r, S j => anth r j
  end.
Inductive afield_in : afields -> str -> ann -> option cval -> Prop :=
| afi_here n a d r : afield_in (AFCons n a d r) n a d
| afi_later n a d n' a' d' r : afield_in r n a d -> afield_in (AFCons n' a' d' r) n a d.

(* the annotation at definition path q is refused, with this message kind *)
Inductive unsup_at (pol : nat -> bool) : ann -> list cpelem -> ckind -> Prop :=
| un_union ms hn : unsup_at pol (AUnion ms hn) [] CUnion
| un_key a : unsup_at pol (ADict false a) [] CNonStrKey
| un_other : unsup_at pol AOther [] CType
| un_alt_off fam a : pol fam = false -> unsup_at pol (AAlt fam a) [] CType
| un_alt_on fam a q k : pol fam = true -> unsup_at pol a q k -> unsup_at pol (AAlt fam a) q k
| un_tupleb : unsup_at pol (ARaw RTupleB) [] CType
| un_opt a q k : unsup_at pol a q k -> unsup_at pol (AOpt a) q k
| un_list a q k : unsup_at pol a q k -> unsup_at pol (AList a) (CAny :: q) k
| un_dict a q k : unsup_at pol a q k -> unsup_at pol (ADict true a) (CAny :: q) k
| un_vartuple a q k : unsup_at pol a q k -> unsup_at pol (AVarTuple a) (CAny :: q) k
| un_tuple ms i a q k : anth ms i = Some a -> unsup_at pol a q k -> unsup_at pol (ATuple ms) (CIdx i :: q) k
| un_struct fs n a d q k : afield_in fs n a d -> unsup_at pol a q k -> unsup_at pol (AStruct fs) (CField n :: q) k.
