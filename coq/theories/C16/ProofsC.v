(* C16 proofs: the conversions of [conv] never lose or alter a value except int -> float. *)
Require Import QV.C16.Model QV.C16.ProofsA QV.C16.ProofsB.

Section C.
Variable foi : Z -> option str.

Lemma Forall2_imp {A B} (P Q : A -> B -> Prop) l l' :
  (forall a b, P a b -> Q a b) -> Forall2 P l l' -> Forall2 Q l l'.
Proof. intros H F. induction F; constructor; auto. Qed.

Definition su_ty (T : cty) : Prop := forall d d', conv foi T d d' -> same_upto foi d d'.
Definition su_tys (ts : ctys) : Prop :=
  forall l l', conv_tuple foi ts l l' -> Forall2 (same_upto foi) l l'.
Definition su_fields (fs : cfields) : Prop :=
  forall l l', conv_fields foi fs l l' -> forall k d, mem k (fnames fs) = true -> assoc k l = Some d ->
    exists d', assoc k l' = Some d' /\ same_upto foi d d'.

Lemma su_all : (forall T, su_ty T) /\ (forall ts, su_tys ts) /\ (forall fs, su_fields fs).
Proof.
  apply cty_mutind; unfold su_ty, su_tys, su_fields.
  - intros d d' H. inversion H; subst; constructor.
  - intros d d' H. inversion H; subst; try constructor; assumption.
  - intros d d' H. inversion H; subst; constructor.
  - intros d d' H. inversion H; subst; constructor.
  - intros d d' H. inversion H; subst; constructor.
  - intros t IH d d' H. inversion H; subst; [constructor | apply IH; assumption].
  - intros t IH d d' H. inversion H; subst. apply su_list.
    eapply Forall2_imp; [|eassumption]. intros; apply IH; assumption.
  - intros t IH d d' H. inversion H; subst. apply su_obj.
    match goal with HF : Forall2 _ l l' |- _ => clear H; induction HF as [|[k0 a] [k1 b] l l' [Hk Hc] _ IHl] end.
    + intros k d E. discriminate.
    + simpl in Hk, Hc. subst k1. intros k d E. simpl in *. destruct (str_eqb k k0).
      * inversion E; subst. exists b. split; [reflexivity | apply IH; assumption].
      * apply IHl; assumption.
  - intros t IH d d' H. inversion H; subst. apply su_list.
    eapply Forall2_imp; [|eassumption]. intros; apply IH; assumption.
  - intros ts IH d d' H. inversion H; subst. apply su_list. apply IH. assumption.
  - intros fs IH d d' H. inversion H; subst. apply su_obj. intros k d E.
    eapply IH; [eassumption | | eassumption].
    match goal with HK : forall k, In k (map fst l) -> _ |- _ => apply HK end.
    clear -E. induction l as [|[k0 a] l IHl]; [discriminate|]. simpl in *.
    destruct (str_eqb k k0) eqn:Ek; [left; symmetry; apply str_eqb_spec; assumption | right; auto].
  - intros d d' H. inversion H; subst; constructor.
  - intros d d' H. inversion H; subst; constructor.
  - intros d d' H. inversion H; subst; constructor.
  - intros l l' H. inversion H; subst. constructor.
  - intros t IHt ts IHts l l' H. inversion H; subst. constructor; [apply IHt | apply IHts]; assumption.
  - intros l l' H k d Hm. discriminate.
  - intros n t IHt dflt fs IHfs l l' H k d Hm E. simpl in Hm. inversion H; subst.
    + simpl. destruct (str_eqb k n) eqn:Ek.
      * apply str_eqb_spec in Ek. subst k.
        match goal with HA : assoc n l = Some ?x |- _ => rewrite HA in E; inversion E; subst end.
        eexists. split; [reflexivity | apply IHt; assumption].
      * simpl in Hm. eapply IHfs; eassumption.
    + simpl. destruct (str_eqb k n) eqn:Ek.
      * apply str_eqb_spec in Ek. subst k. congruence.
      * simpl in Hm. eapply IHfs; eassumption.
Qed.

Lemma no_silent_change : forall T d p v, parse foi T d p = Ok v -> same_upto foi d (to_data v).
Proof.
  intros T d p v H. apply (proj1 su_all T). eapply (proj1 (cv_spec_all foi)). eassumption.
Qed.
End C.
