(* C16 proofs, part A: comment scanner = the regular expression's language; duplicate keys;
   printer output is left alone by the scanner; dump/load. *)
Require Import QV.C16.Model.
From Coq Require Import ZifyBool ZifyNat ZifyN.

Lemma str_eqb_spec : forall a b, str_eqb a b = true <-> a = b.
Proof.
  induction a as [|x a IH]; intros [|y b]; simpl; split; intro E; try reflexivity; try discriminate.
  - apply andb_true_iff in E as [E1 E2]. apply N.eqb_eq in E1. apply IH in E2. congruence.
  - inversion E; subst. apply andb_true_iff; split; [apply N.eqb_refl | apply IH; reflexivity].
Qed.

Lemma str_eqb_refl : forall a, str_eqb a a = true.
Proof. intro a. apply str_eqb_spec. reflexivity. Qed.

(* ---------------- scanner vs declarative language ---------------- *)
Lemma omap_S_add : forall (o : option nat) k,
  option_map S (option_map (Nat.add k) o) = option_map (Nat.add (S k)) o.
Proof. intros [n|] k; reflexivity. Qed.

Lemma scan_strbody : forall b r, strbody b ->
  scanm MStr (b ++ r) = option_map (Nat.add (length b)) (scanm MStr r).
Proof.
  intros b r Hb. induction Hb as [| c b' Hq Hb' Hb IH | c b' Hb IH].
  - simpl. destruct (scanm MStr r); reflexivity.
  - simpl. apply N.eqb_neq in Hq, Hb'. rewrite Hq, Hb'. rewrite IH. apply omap_S_add.
  - cbn [app scanm length]. change (N.eqb cB cQ) with false. change (N.eqb cB cB) with true.
    cbv iota. rewrite IH. rewrite !omap_S_add. reflexivity.
Qed.

Lemma scan_outside : forall p r, outside p ->
  scanm MOut (p ++ r) = option_map (Nat.add (length p)) (scanm MOut r).
Proof.
  intros p r Hp. induction Hp as [| c p' Hq Hh Hp IH | b p' Hb Hp IH].
  - simpl. destruct (scanm MOut r); reflexivity.
  - simpl. apply N.eqb_neq in Hq, Hh. rewrite Hq, Hh. rewrite IH. apply omap_S_add.
  - cbn [app scanm]. change (N.eqb cQ cH) with false. change (N.eqb cQ cQ) with true. cbv iota.
    rewrite <- app_assoc. rewrite scan_strbody by assumption.
    cbn [app scanm]. change (N.eqb cQ cQ) with true. cbv iota. rewrite IH.
    destruct (scanm MOut r) as [n|]; simpl; [|reflexivity].
    f_equal. rewrite app_length. simpl. lia.
Qed.

Lemma scan_hit : forall p r, outside p -> scan (p ++ cH :: r) = Some (length p).
Proof.
  intros p r Hp. unfold scan. rewrite scan_outside by assumption. simpl. f_equal. lia.
Qed.

Lemma scan_outside_none : forall p, outside p -> scan p = None.
Proof.
  intros p Hp. unfold scan. rewrite <- (app_nil_r p). rewrite scan_outside by assumption. reflexivity.
Qed.

Lemma scan_sound_all : forall l,
  (forall n, scanm MOut l = Some n ->
     exists p r, l = p ++ cH :: r /\ outside p /\ n = length p) /\
  (forall n, scanm MStr l = Some n ->
     exists b p r, l = b ++ cQ :: p ++ cH :: r /\ strbody b /\ outside p /\ n = (length b + 1 + length p)%nat) /\
  (forall n, scanm MEsc l = Some n ->
     exists c b p r, l = c :: b ++ cQ :: p ++ cH :: r /\ strbody b /\ outside p /\
                     n = (1 + length b + 1 + length p)%nat).
Proof.
  induction l as [|c l [IHo [IHs IHe]]].
  - repeat split; intros n H; discriminate.
  - repeat split; intros n H; simpl in H.
    + destruct (N.eqb c cH) eqn:Eh.
      * apply N.eqb_eq in Eh. subst c. inversion H; subst. exists [], l. repeat split. constructor.
      * destruct (N.eqb c cQ) eqn:Eq.
        -- apply N.eqb_eq in Eq. subst c.
           destruct (scanm MStr l) as [m|] eqn:E; [|discriminate]. inversion H; subst.
           destruct (IHs m eq_refl) as (b & p & r & -> & Hb & Hp & ->).
           exists (cQ :: b ++ cQ :: p), r. repeat split.
           ++ simpl. rewrite <- app_assoc. reflexivity.
           ++ constructor; assumption.
           ++ simpl. rewrite app_length. simpl. lia.
        -- destruct (scanm MOut l) as [m|] eqn:E; [|discriminate]. inversion H; subst.
           destruct (IHo m eq_refl) as (p & r & -> & Hp & ->).
           apply N.eqb_neq in Eh, Eq.
           exists (c :: p), r. repeat split. constructor; assumption.
    + destruct (N.eqb c cQ) eqn:Eq.
      * apply N.eqb_eq in Eq. subst c.
        destruct (scanm MOut l) as [m|] eqn:E; [|discriminate]. inversion H; subst.
        destruct (IHo m eq_refl) as (p & r & -> & Hp & ->).
        exists [], p, r. repeat split; try assumption; constructor.
      * destruct (N.eqb c cB) eqn:Eb.
        -- apply N.eqb_eq in Eb. subst c.
           destruct (scanm MEsc l) as [m|] eqn:E; [|discriminate]. inversion H; subst.
           destruct (IHe m eq_refl) as (c & b & p & r & -> & Hb & Hp & ->).
           exists (cB :: c :: b), p, r. repeat split; try assumption; try (constructor; assumption); try (simpl; lia).
        -- destruct (scanm MStr l) as [m|] eqn:E; [|discriminate]. inversion H; subst.
           destruct (IHs m eq_refl) as (b & p & r & -> & Hb & Hp & ->).
           apply N.eqb_neq in Eq, Eb.
           exists (c :: b), p, r. repeat split; try assumption; constructor; assumption.
    + destruct (scanm MStr l) as [m|] eqn:E; [|discriminate]. inversion H; subst.
      destruct (IHs m eq_refl) as (b & p & r & -> & Hb & Hp & ->).
      exists c, b, p, r. repeat split; assumption.
Qed.

Lemma scan_sound : forall l n, scan l = Some n ->
  exists p r, l = p ++ cH :: r /\ outside p /\ n = length p.
Proof. intros l n H. exact (proj1 (scan_sound_all l) n H). Qed.

Lemma firstn_len_app : forall (p r : str), firstn (length p) (p ++ r) = p.
Proof.
  intros. rewrite firstn_app, Nat.sub_diag, firstn_all. simpl. apply app_nil_r.
Qed.

(* the three clauses of C16_strip_exact for one line *)
Lemma strip_line_cut : forall p r, outside p -> strip_line (p ++ cH :: r) = p.
Proof.
  intros p r Hp. unfold strip_line. rewrite scan_hit by assumption. apply firstn_len_app.
Qed.

Lemma strip_line_keep : forall l,
  (forall p r, l = p ++ cH :: r -> ~ outside p) -> strip_line l = l.
Proof.
  intros l H. unfold strip_line. destruct (scan l) as [n|] eqn:E; [|reflexivity].
  destruct (scan_sound l n E) as (p & r & -> & Hp & _). exfalso. exact (H p r eq_refl Hp).
Qed.

Lemma strip_line_app : forall p r, outside p -> strip_line (p ++ r) = p ++ strip_line r.
Proof.
  intros p r Hp. unfold strip_line, scan. rewrite scan_outside by assumption.
  destruct (scanm MOut r) as [n|]; simpl; [|reflexivity].
  rewrite firstn_app. replace (length p + n - length p)%nat with n by lia.
  rewrite firstn_all2 by lia. reflexivity.
Qed.

Lemma outside_app : forall a b, outside a -> outside b -> outside (a ++ b).
Proof.
  intros a b Ha Hb. induction Ha; simpl.
  - assumption.
  - constructor; assumption.
  - rewrite <- app_assoc. simpl. constructor; assumption.
Qed.

(* a '#' inside a string is data: a complete string after an outside prefix is always kept *)
Lemma strip_line_string_kept : forall p b r, outside p -> strbody b ->
  strip_line (p ++ cQ :: b ++ cQ :: r) = p ++ cQ :: b ++ cQ :: strip_line r.
Proof.
  intros p b r Hp Hb.
  assert (Ho : outside (p ++ cQ :: b ++ [cQ])).
  { apply outside_app; [assumption|]. change (cQ :: b ++ [cQ]) with (cQ :: b ++ cQ :: []).
    constructor; [assumption | constructor]. }
  replace (p ++ cQ :: b ++ cQ :: r) with ((p ++ cQ :: b ++ [cQ]) ++ r)
    by (rewrite <- !app_assoc; simpl; rewrite <- app_assoc; reflexivity).
  rewrite strip_line_app by assumption.
  rewrite <- !app_assoc. simpl. rewrite <- app_assoc. reflexivity.
Qed.

(* the result never contains a '#' that was outside a string: the result of a cut is outside *)
Lemma strip_line_prefix : forall l, exists r, l = strip_line l ++ r.
Proof.
  intro l. unfold strip_line. destruct (scan l) as [n|].
  - exists (skipn n l). symmetry. apply firstn_skipn.
  - exists []. symmetry. apply app_nil_r.
Qed.

(* ---------------- lines / unlines ---------------- *)

Lemma lines_nonempty : forall t, lines t <> [].
Proof.
  induction t as [|c t IH]; simpl; [discriminate|].
  destruct (is_nl c); [discriminate|]. destruct (lines t); [contradiction | discriminate].
Qed.

Lemma unlines_cons : forall l ls, ls <> [] -> unlines (l :: ls) = l ++ cLF :: unlines ls.
Proof. intros l [|x ls] H; [contradiction | reflexivity]. Qed.

Lemma unlines_lines : forall t, unlines (lines t) = map fixnl t.
Proof.
  induction t as [|c t IH]; [reflexivity|].
  cbn [lines map]. unfold fixnl at 1. destruct (is_nl c) eqn:E.
  - rewrite unlines_cons by apply lines_nonempty. simpl. rewrite IH. reflexivity.
  - pose proof (lines_nonempty t) as Hn. destruct (lines t) as [|l ls] eqn:El; [contradiction|].
    rewrite <- IH. destruct ls; reflexivity.
Qed.

Lemma lines_no_nl : forall t, Forall (Forall (fun c => is_nl c = false)) (lines t).
Proof.
  induction t as [|c t IH]; simpl.
  - repeat constructor.
  - destruct (is_nl c) eqn:E.
    + constructor; [constructor | assumption].
    + pose proof (lines_nonempty t) as Hn. destruct (lines t) as [|l ls]; [contradiction|].
      inversion IH; subst. constructor; [constructor; assumption | assumption].
Qed.

Lemma lines_app_nonl : forall a t, Forall (fun c => is_nl c = false) a ->
  lines (a ++ t) = (a ++ hd [] (lines t)) :: tl (lines t).
Proof.
  induction a as [|c a IH]; intros t Ha.
  - simpl. pose proof (lines_nonempty t). destruct (lines t); [contradiction | reflexivity].
  - inversion Ha; subst. simpl. rewrite H1. rewrite IH by assumption. reflexivity.
Qed.

(* ---------------- duplicate keys ---------------- *)
Lemma mem_In : forall k ks, mem k ks = true <-> In k ks.
Proof.
  induction ks as [|x ks IH]; simpl; [split; [discriminate | contradiction]|].
  rewrite orb_true_iff, IH, str_eqb_spec. split; intros [H|H]; auto.
Qed.

Lemma dup_keys_NoDup : forall ks, dup_keys ks = false <-> NoDup ks.
Proof.
  induction ks as [|k ks IH]; simpl.
  - split; [constructor | reflexivity].
  - rewrite orb_false_iff, IH. split.
    + intros [Hm Hn]. constructor; [|assumption]. intro Hin. apply mem_In in Hin. congruence.
    + intro H. inversion H; subst. split; [|assumption].
      destruct (mem k ks) eqn:E; [|reflexivity]. apply mem_In in E. contradiction.
Qed.

Section JvalInd.
  Variable P : jval -> Prop.
  Hypothesis Hnull : P JNull.
  Hypothesis Hbool : forall b, P (JBool b).
  Hypothesis Hint : forall z, P (JInt z).
  Hypothesis Hfloat : forall f, P (JFloat f).
  Hypothesis Hstr : forall s, P (JStr s).
  Hypothesis Hlist : forall l, Forall P l -> P (JList l).
  Hypothesis Hobj : forall l, Forall (fun kv => P (snd kv)) l -> P (JObj l).
  Fixpoint jval_ind' (v : jval) : P v :=
    match v with
    | JNull => Hnull | JBool b => Hbool b | JInt z => Hint z | JFloat f => Hfloat f | JStr s => Hstr s
    | JList l => Hlist l ((fix go (l : list jval) : Forall P l :=
                             match l with [] => Forall_nil _ | x :: r => Forall_cons _ (jval_ind' x) (go r) end) l)
    | JObj l => Hobj l ((fix go (l : list (str * jval)) : Forall (fun kv => P (snd kv)) l :=
                           match l with
                           | [] => Forall_nil _
                           | x :: r => Forall_cons (P := fun kv => P (snd kv)) x (jval_ind' (snd x)) (go r)
                           end) l)
    end.
End JvalInd.

Lemma has_dup_iff : forall v, has_dup v = true <-> dup_in v.
Proof.
  induction v as [| | | | | l IH | l IH] using jval_ind'; simpl;
    try (split; [discriminate | intro H; inversion H]).
  - rewrite existsb_exists. split.
    + intros (x & Hin & Hx). rewrite Forall_forall in IH. apply (IH x Hin) in Hx.
      eapply dup_list; eassumption.
    + intro H. inversion H; subst. rewrite Forall_forall in IH. exists v. split; [assumption|].
      apply (IH v); assumption.
  - rewrite orb_true_iff, existsb_exists. rewrite Forall_forall in IH. split.
    + intros [Hd | (x & Hin & Hx)].
      * apply dup_here. intro Hn. apply dup_keys_NoDup in Hn. congruence.
      * destruct x as [k v]. apply (IH _ Hin) in Hx. eapply dup_obj; eassumption.
    + intro H. inversion H; subst.
      * left. destruct (dup_keys (map fst l)) eqn:E; [reflexivity|].
        apply dup_keys_NoDup in E. contradiction.
      * right. exists (k, v). split; [assumption|]. apply (IH (k, v)); assumption.
Qed.

Lemma load_dup : forall jparse s v, jparse (strip s) = Some v -> dup_in v ->
  load jparse s = LErr EDupKey.
Proof.
  intros jparse s v Hp Hd. unfold load, load_from. rewrite Hp. apply has_dup_iff in Hd. rewrite Hd. reflexivity.
Qed.

Lemma load_ok : forall jparse s l, jparse (strip s) = Some (JObj l) -> ~ dup_in (JObj l) ->
  load jparse s = LOk (JObj l).
Proof.
  intros jparse s l Hp Hd. unfold load, load_from. rewrite Hp.
  destruct (has_dup (JObj l)) eqn:E; [|reflexivity]. apply has_dup_iff in E. contradiction.
Qed.

Lemma load_cases : forall jparse s,
  match load jparse s with
  | LOk v => jparse (strip s) = Some v /\ ~ dup_in v /\ exists l, v = JObj l
  | LErr ENotJson => jparse (strip s) = None
  | LErr EDupKey => exists v, jparse (strip s) = Some v /\ dup_in v
  | LErr ENotMapping => exists v, jparse (strip s) = Some v /\ ~ dup_in v /\ forall l, v <> JObj l
  end.
Proof.
  intros. unfold load, load_from. destruct (jparse (strip s)) as [v|]; [|reflexivity].
  destruct (has_dup v) eqn:E.
  - exists v. split; [reflexivity | apply has_dup_iff; assumption].
  - assert (Hn : ~ dup_in v) by (intro H; apply has_dup_iff in H; congruence).
    destruct v; try (exists v; fail);
      try (eexists; split; [reflexivity | split; [assumption | intros l0 H0; discriminate]]).
    split; [reflexivity | split; [assumption | eexists; reflexivity]].
Qed.

(* ---------------- open choice: line-break rendering of the stripped text ---------------- *)
Lemma fixnl_idem : forall c, fixnl (fixnl c) = fixnl c.
Proof. intro c. unfold fixnl. destruct (is_nl c) eqn:E; [reflexivity | rewrite E; reflexivity]. Qed.

Lemma strip_fixnl : forall s, map fixnl (strip s) = strip s.
Proof.
  intro s. unfold strip.
  assert (H : Forall (Forall (fun c => is_nl c = false)) (map strip_line (lines s))).
  { pose proof (lines_no_nl s) as Hl. induction Hl as [|l ls Hl _ IH]; simpl; constructor; [|assumption].
    destruct (strip_line_prefix l) as (r & E). rewrite E in Hl. apply Forall_app in Hl. tauto. }
  induction H as [|l ls Hl _ IH]; [reflexivity|].
  assert (El : map fixnl l = l).
  { clear -Hl. induction Hl as [|c l Hc _ IHl]; [reflexivity|]. simpl. rewrite IHl. unfold fixnl. rewrite Hc. reflexivity. }
  destruct ls as [|l2 ls]; [simpl; exact El|].
  change (unlines (l :: l2 :: ls)) with (l ++ cLF :: unlines (l2 :: ls)).
  rewrite map_app. cbn [map]. change (fixnl cLF) with cLF. rewrite El, IH. reflexivity.
Qed.

(* the pinned behaviour is one allowed outcome ... *)
Lemma strip_ok_pinned : forall s, strip_ok s (strip s).
Proof. intro s. apply strip_fixnl. Qed.

(* ... returning a text without '#' unchanged is another ... *)
Lemma scanm_no_hash : forall l m, ~ In cH l -> scanm m l = None.
Proof.
  induction l as [|c l IH]; intros m H; [destruct m; reflexivity|].
  assert (Hc : N.eqb c cH = false) by (apply N.eqb_neq; intro E; apply H; left; assumption).
  assert (Hl : ~ In cH l) by (intro E; apply H; right; assumption).
  destruct m; simpl; rewrite ?Hc; repeat match goal with |- context [if ?b then _ else _] => destruct b end;
    rewrite IH by assumption; reflexivity.
Qed.

Lemma lines_in : forall s l c, In l (lines s) -> In c l -> In c s.
Proof.
  induction s as [|x s IH]; intros l c Hl Hc; simpl in Hl.
  - destruct Hl as [<-|[]]. contradiction.
  - destruct (is_nl x).
    + destruct Hl as [<-|Hl]; [contradiction | right; eapply IH; eassumption].
    + pose proof (lines_nonempty s) as Hn. destruct (lines s) as [|l0 ls] eqn:E; [contradiction|].
      destruct Hl as [<-|Hl].
      * destruct Hc as [<-|Hc]; [left; reflexivity | right; apply (IH l0 c); [left; reflexivity | assumption]].
      * right. apply (IH l c); [right; assumption | assumption].
Qed.

Lemma strip_no_hash : forall s, ~ In cH s -> strip s = map fixnl s.
Proof.
  intros s H. unfold strip. rewrite <- unlines_lines. f_equal.
  rewrite <- (map_id (lines s)) at 2. apply map_ext_in. intros l Hl.
  unfold strip_line, scan. rewrite scanm_no_hash; [reflexivity|].
  intro Hc. apply H. eapply lines_in; eassumption.
Qed.

Lemma strip_ok_unchanged : forall s, ~ In cH s -> strip_ok s s.
Proof. intros s H. unfold strip_ok. symmetry. apply strip_no_hash. assumption. Qed.

(* ... and every allowed outcome loads to the same result, JSON being blind to CR versus LF *)
Lemma strip_ok_same_load : forall jparse s out, nl_blind jparse -> strip_ok s out ->
  load_from jparse out = load jparse s.
Proof.
  intros jparse s out Hb Hok. unfold load, load_from.
  rewrite (Hb out (strip s)); [reflexivity|]. rewrite strip_fixnl. exact Hok.
Qed.
