(* C16 proofs, part B: the typed parse.  Structural (mutual) induction over ALL declared types. *)
Require Import QV.C16.Model QV.C16.ProofsA.

Scheme cty_mut := Induction for cty Sort Prop
  with ctys_mut := Induction for ctys Sort Prop
  with cfields_mut := Induction for cfields Sort Prop.
Combined Scheme cty_mutind from cty_mut, ctys_mut, cfields_mut.

Section B.
Variable foi : Z -> option str.
Notation parse := (parse foi).
Notation parse_tuple := (parse_tuple foi).
Notation parse_fields := (parse_fields foi).

(* ---------------- generic facts about the list walkers ---------------- *)
Lemma rbind_ok {A B} (r : result A) (f : A -> result B) b :
  rbind r f = Ok b -> exists a, r = Ok a /\ f a = Ok b.
Proof. destruct r; simpl; intro H; [eauto | discriminate]. Qed.
Lemma rbind_err {A B} (r : result A) (f : A -> result B) k q :
  rbind r f = Err k q -> r = Err k q \/ exists a, r = Ok a /\ f a = Err k q.
Proof. destruct r; simpl; intro H; [right; eauto | left; inversion H; reflexivity]. Qed.
Lemma rmap_ok {A B} (f : A -> B) r b : rmap f r = Ok b -> exists a, r = Ok a /\ b = f a.
Proof. destruct r; simpl; intro H; inversion H; eauto. Qed.
Lemma rmap_err {A B} (f : A -> B) r k q : rmap f r = Err k q -> r = Err k q.
Proof. destruct r; simpl; intro H; [discriminate | inversion H; reflexivity]. Qed.

Lemma parse_elems_err : forall f l i p k q, parse_elems f l i p = Err k q ->
  exists j e, nth_error l j = Some e /\ f e (p ++ [PIdx (i + j)]) = Err k q.
Proof.
  induction l as [|e l IH]; intros i p k q H; simpl in H; [discriminate|].
  apply rbind_err in H as [H | (v & Hv & H)].
  - exists 0, e. rewrite Nat.add_0_r. split; [reflexivity | assumption].
  - apply rmap_err in H. destruct (IH _ _ _ _ H) as (j & e' & Hn & He).
    exists (S j), e'. split; [assumption|]. rewrite <- plus_n_Sm. assumption.
Qed.

Lemma parse_elems_ok : forall f l i p vs, parse_elems f l i p = Ok vs ->
  length vs = length l /\
  forall j e, nth_error l j = Some e ->
    exists v, nth_error vs j = Some v /\ f e (p ++ [PIdx (i + j)]) = Ok v.
Proof.
  induction l as [|e l IH]; intros i p vs H; simpl in H.
  - inversion H; subst. split; [reflexivity|]. intros [|j] e0 Hn; discriminate.
  - apply rbind_ok in H as (v & Hv & H). apply rmap_ok in H as (vs' & H & ->).
    destruct (IH _ _ _ H) as [Hl Hall]. split; [simpl; congruence|].
    intros [|j] e0 Hn; simpl in Hn.
    + inversion Hn; subst. exists v. rewrite Nat.add_0_r. split; [reflexivity | assumption].
    + destruct (Hall j e0 Hn) as (v0 & H1 & H2). exists v0. rewrite <- plus_n_Sm. split; assumption.
Qed.

Lemma parse_items_err : forall f l p k q, parse_items f l p = Err k q ->
  exists n key e, nth_error l n = Some (key, e) /\ f e (p ++ [PKey key]) = Err k q.
Proof.
  induction l as [|[key e] l IH]; intros p k q H; simpl in H; [discriminate|].
  apply rbind_err in H as [H | (v & Hv & H)].
  - exists 0, key, e. split; [reflexivity | assumption].
  - apply rmap_err in H. destruct (IH _ _ _ H) as (n & key' & e' & Hn & He).
    exists (S n), key', e'. split; assumption.
Qed.

Lemma parse_items_ok : forall f l p vs, parse_items f l p = Ok vs ->
  Forall2 (fun a b => fst a = fst b /\ f (snd a) (p ++ [PKey (fst a)]) = Ok (snd b)) l vs.
Proof.
  induction l as [|[key e] l IH]; intros p vs H; simpl in H.
  - inversion H; subst. constructor.
  - apply rbind_ok in H as (v & Hv & H). apply rmap_ok in H as (vs' & H & ->).
    constructor; [split; [reflexivity | assumption] | apply IH; assumption].
Qed.

Lemma first_unknown_some : forall names ks k, first_unknown names ks = Some k ->
  In k ks /\ mem k names = false.
Proof.
  induction ks as [|x ks IH]; intros k H; simpl in H; [discriminate|].
  destruct (mem x names) eqn:E.
  - destruct (IH _ H). split; [right|]; assumption.
  - inversion H; subst. split; [left; reflexivity | assumption].
Qed.

Lemma first_unknown_none : forall names ks, first_unknown names ks = None <->
  forall k, In k ks -> mem k names = true.
Proof.
  induction ks as [|x ks IH]; simpl.
  - split; [intros _ k [] | reflexivity].
  - destruct (mem x names) eqn:E.
    + rewrite IH. split; [intros H k [<-|Hk]; auto | intros H k Hk; apply H; right; assumption].
    + split; [discriminate | intro H; specialize (H x (or_introl eq_refl)); congruence].
Qed.

(* ---------------- shape test ---------------- *)
Lemma shape_bad : forall T d p, shape_ok foi T d = false -> parse T d p = Err Mismatch p.
Proof.
  induction T; intros d p H; destruct d; simpl in *; try discriminate; try reflexivity;
    try (apply IHT; assumption).
  - unfold to_float. destruct (foi (b2z b)); [discriminate | reflexivity].
  - unfold to_float. destruct (foi z); [discriminate | reflexivity].
  - rewrite H. reflexivity.
Qed.

(* ---------------- errors name an offending item below the current path ---------------- *)
Definition err_spec_ty (T : cty) : Prop :=
  forall d p k q, parse T d p = Err k q -> exists q', q = p ++ q' /\ bad_at foi T d q' k.
Definition err_spec_tys (ts : ctys) : Prop :=
  forall l i p k q, parse_tuple ts l i p = Err k q -> length l = tlen ts ->
    exists j t e q', tnth ts j = Some t /\ nth_error l j = Some e /\
                     q = p ++ PIdx (i + j) :: q' /\ bad_at foi t e q' k.
Definition err_spec_fields (fs : cfields) : Prop :=
  forall l p k q, parse_fields fs l p = Err k q ->
    exists n t dflt, field_in fs n t dflt /\
      ((exists e q', assoc n l = Some e /\ q = p ++ PField n :: q' /\ bad_at foi t e q' k) \/
       (dflt = None /\ assoc n l = None /\ k = Missing /\ q = p ++ [PField n])).

Lemma app_snoc {A} (p : list A) x q : (p ++ [x]) ++ q = p ++ x :: q.
Proof. rewrite <- app_assoc. reflexivity. Qed.

Lemma here_mismatch : forall T d p, shape_ok foi T d = false ->
  exists q', p = p ++ q' /\ bad_at foi T d q' Mismatch.
Proof. intros. exists []. split; [symmetry; apply app_nil_r | constructor; assumption]. Qed.

Lemma err_spec_all :
  (forall T, err_spec_ty T) /\ (forall ts, err_spec_tys ts) /\ (forall fs, err_spec_fields fs).
Proof.
  apply cty_mutind; unfold err_spec_ty, err_spec_tys, err_spec_fields.
  - (* TInt *) intros d p k q H. destruct d; simpl in H; inversion H; subst; apply here_mismatch; reflexivity.
  - (* TFloat *) intros d p k q H. destruct d; simpl in H; try (inversion H; subst; apply here_mismatch; reflexivity).
    + unfold to_float in H. destruct (foi (b2z b)) eqn:E; inversion H; subst.
      apply here_mismatch. simpl. rewrite E. reflexivity.
    + unfold to_float in H. destruct (foi z) eqn:E; inversion H; subst.
      apply here_mismatch. simpl. rewrite E. reflexivity.
  - (* TStr *) intros d p k q H. destruct d; simpl in H; inversion H; subst; apply here_mismatch; reflexivity.
  - (* TBool *) intros d p k q H. destruct d; simpl in H; inversion H; subst; apply here_mismatch; reflexivity.
  - (* TAny *) intros d p k q H. simpl in H. discriminate.
  - (* TOpt *) intros t IH d p k q H.
    destruct d; simpl in H; try discriminate;
      (destruct (IH _ _ _ _ H) as (q' & -> & Hb); exists q'; split; [reflexivity|];
       apply bad_opt; [discriminate | assumption]).
  - (* TList *) intros t IH d p k q H.
    destruct d; simpl in H; try (inversion H; subst; apply here_mismatch; reflexivity).
    apply rmap_err in H. apply parse_elems_err in H as (j & e & Hn & He).
    destruct (IH _ _ _ _ He) as (q' & -> & Hb). exists (PIdx j :: q'). rewrite app_snoc.
    split; [reflexivity | eapply bad_list; eassumption].
  - (* TDict *) intros t IH d p k q H.
    destruct d; simpl in H; try (inversion H; subst; apply here_mismatch; reflexivity).
    apply rmap_err in H. apply parse_items_err in H as (n & key & e & Hn & He).
    destruct (IH _ _ _ _ He) as (q' & -> & Hb). exists (PKey key :: q'). rewrite app_snoc.
    split; [reflexivity | eapply bad_dict; eassumption].
  - (* TVarTuple *) intros t IH d p k q H.
    destruct d; simpl in H; try (inversion H; subst; apply here_mismatch; reflexivity).
    apply rmap_err in H. apply parse_elems_err in H as (j & e & Hn & He).
    destruct (IH _ _ _ _ He) as (q' & -> & Hb). exists (PIdx j :: q'). rewrite app_snoc.
    split; [reflexivity | eapply bad_vartuple; eassumption].
  - (* TTuple *) intros ts IH d p k q H.
    destruct d; simpl in H; try (inversion H; subst; apply here_mismatch; reflexivity).
    destruct (Nat.eqb (length l) (tlen ts)) eqn:El.
    + apply rmap_err in H. apply Nat.eqb_eq in El.
      destruct (IH _ _ _ _ _ H El) as (j & t & e & q' & Ht & Hn & -> & Hb).
      exists (PIdx j :: q'). split; [reflexivity | eapply bad_tuple; eassumption].
    + inversion H; subst. apply here_mismatch. simpl. assumption.
  - (* TStruct *) intros fs IH d p k q H.
    destruct d; simpl in H; try (inversion H; subst; apply here_mismatch; reflexivity).
    apply rbind_err in H as [H | (items & Hi & H)].
    + destruct (IH _ _ _ _ H) as (n & t & dflt & Hin & [(e & q' & Ha & -> & Hb) | (-> & Ha & -> & ->)]).
      * exists (PField n :: q'). split; [reflexivity | eapply bad_field; eassumption].
      * exists [PField n]. split; [reflexivity | eapply bad_missing; eassumption].
    + destruct (first_unknown (fnames fs) (map fst l)) as [u|] eqn:Eu; [|discriminate].
      inversion H; subst. apply first_unknown_some in Eu as [Hin Hm].
      exists [PField u]. split; [reflexivity | apply bad_unknown; assumption].
  - (* TRawList *) intros d p k q H. destruct d; simpl in H; inversion H; subst; apply here_mismatch; reflexivity.
  - (* TRawDict *) intros d p k q H. destruct d; simpl in H; inversion H; subst; apply here_mismatch; reflexivity.
  - (* TRawTuple *) intros d p k q H. destruct d; simpl in H; inversion H; subst; apply here_mismatch; reflexivity.
  - (* TNil *) intros l i p k q H. simpl in H. discriminate.
  - (* TCons *) intros t IHt ts IHts l i p k q H Hl.
    destruct l as [|e l]; simpl in H, Hl; [discriminate|].
    apply rbind_err in H as [H | (v & Hv & H)].
    + destruct (IHt _ _ _ _ H) as (q' & -> & Hb). exists 0, t, e, q'.
      rewrite Nat.add_0_r, app_snoc. repeat split; assumption.
    + apply rmap_err in H. injection Hl as Hl.
      destruct (IHts _ _ _ _ _ H Hl) as (j & t' & e' & q' & Ht & Hn & -> & Hb).
      exists (S j), t', e', q'. rewrite <- plus_n_Sm. repeat split; assumption.
  - (* FNil *) intros l p k q H. simpl in H. discriminate.
  - (* FCons *) intros n t IHt dflt fs IHfs l p k q H. simpl in H.
    destruct (assoc n l) as [d|] eqn:Ea.
    + apply rbind_err in H as [H | (v & Hv & H)].
      * destruct (IHt _ _ _ _ H) as (q' & -> & Hb). exists n, t, dflt. split; [constructor|].
        left. exists d, q'. rewrite app_snoc. repeat split; assumption.
      * apply rmap_err in H. destruct (IHfs _ _ _ _ H) as (n' & t' & d' & Hin & Hcase).
        exists n', t', d'. split; [constructor; assumption | assumption].
    + destruct dflt as [dv|].
      * apply rmap_err in H. destruct (IHfs _ _ _ _ H) as (n' & t' & d' & Hin & Hcase).
        exists n', t', d'. split; [constructor; assumption | assumption].
      * inversion H; subst. exists n, t, None. split; [constructor|]. right. repeat split; assumption.
Qed.

Lemma parse_err_names_item : forall T d p k q, parse T d p = Err k q ->
  exists q', q = p ++ q' /\ bad_at foi T d q' k.
Proof. exact (proj1 err_spec_all). Qed.

(* ---------------- strictness: an offending item anywhere makes the parse fail ---------------- *)
Lemma parse_tuple_ok : forall ts l i p vs, parse_tuple ts l i p = Ok vs ->
  forall j t e, tnth ts j = Some t -> nth_error l j = Some e ->
    exists v, parse t e (p ++ [PIdx (i + j)]) = Ok v.
Proof.
  induction ts as [|t0 ts IH]; intros l i p vs H j t e Ht Hn.
  - destruct j; discriminate.
  - destruct l as [|e0 l]; simpl in H; [discriminate|].
    apply rbind_ok in H as (v & Hv & H). apply rmap_ok in H as (vs' & H & ->).
    destruct j as [|j]; simpl in Ht, Hn.
    + inversion Ht; inversion Hn; subst. rewrite Nat.add_0_r. eauto.
    + replace (i + S j) with (S i + j) by lia. eapply IH; eassumption.
Qed.

Lemma parse_fields_ok : forall fs l p items, parse_fields fs l p = Ok items ->
  forall n t dflt, field_in fs n t dflt ->
    (forall e, assoc n l = Some e -> exists v, parse t e (p ++ [PField n]) = Ok v) /\
    (assoc n l = None -> dflt <> None).
Proof.
  induction fs as [|n0 t0 d0 fs IH]; intros l p items H n t dflt Hin; [inversion Hin|].
  simpl in H.
  assert (Hrest : exists items', parse_fields fs l p = Ok items').
  { destruct (assoc n0 l).
    - apply rbind_ok in H as (v & _ & H). apply rmap_ok in H as (x & H & _). eauto.
    - destruct d0; [|discriminate]. apply rmap_ok in H as (x & H & _). eauto. }
  destruct Hrest as (items' & Hrest).
  inversion Hin; subst.
  - split.
    + intros e He. rewrite He in H. apply rbind_ok in H as (v & Hv & _). eauto.
    + intro Hn. rewrite Hn in H. destruct dflt; [discriminate | discriminate].
  - eapply IH; eassumption.
Qed.

Lemma bad_refused : forall T d q' k, bad_at foi T d q' k ->
  forall p, exists k' q, parse T d p = Err k' q.
Proof.
  intros T d q' k H. induction H; intro p.
  - eexists _, _. apply shape_bad. assumption.
  - destruct (IHbad_at p) as (k' & q0 & E). exists k', q0.
    destruct d; try contradiction; simpl; assumption.
  - simpl. destruct (parse_elems (parse t) l 0 p) as [vs|k' q0] eqn:E; [|simpl; eauto].
    apply parse_elems_ok in E as [_ E]. destruct (E _ _ H) as (v & _ & Hv).
    destruct (IHbad_at (p ++ [PIdx (0 + i)])) as (k' & q0 & E'). congruence.
  - simpl. destruct (parse_elems (parse t) l 0 p) as [vs|k' q0] eqn:E; [|simpl; eauto].
    apply parse_elems_ok in E as [_ E]. destruct (E _ _ H) as (v & _ & Hv).
    destruct (IHbad_at (p ++ [PIdx (0 + i)])) as (k' & q0 & E'). congruence.
  - simpl. rewrite H. rewrite Nat.eqb_refl.
    destruct (parse_tuple ts l 0 p) as [vs|k' q0] eqn:E; [|simpl; eauto].
    destruct (parse_tuple_ok _ _ _ _ _ E _ _ _ H0 H1) as (v & Hv).
    destruct (IHbad_at (p ++ [PIdx (0 + i)])) as (k' & q0 & E'). congruence.
  - simpl. destruct (parse_items (parse t) l p) as [vs|k' q0] eqn:E; [|simpl; eauto].
    apply parse_items_ok in E.
    assert (Hv : exists v, parse t e (p ++ [PKey key]) = Ok v).
    { clear -E H. revert n H. induction E as [|a b l vs [_ Hab] _ IH]; intros [|n] Hn; try discriminate.
      - simpl in Hn. inversion Hn; subst. simpl in Hab. eauto.
      - eapply IH. exact Hn. }
    destruct Hv as (v & Hv). destruct (IHbad_at (p ++ [PKey key])) as (k' & q0 & E'). congruence.
  - simpl. destruct (parse_fields fs l p) as [items|k' q0] eqn:E; [|simpl; eauto].
    destruct (parse_fields_ok _ _ _ _ E _ _ _ H) as [Hp _]. destruct (Hp _ H0) as (v & Hv).
    destruct (IHbad_at (p ++ [PField n])) as (k' & q0 & E'). congruence.
  - simpl. destruct (parse_fields fs l p) as [items|k' q0] eqn:E; [|simpl; eauto].
    destruct (parse_fields_ok _ _ _ _ E _ _ _ H) as [_ Hd]. exfalso. apply (Hd H0). reflexivity.
  - simpl. destruct (parse_fields fs l p) as [items|k' q0] eqn:E; [|simpl; eauto].
    simpl. destruct (first_unknown (fnames fs) (map fst l)) as [u|] eqn:Eu; [eauto|].
    rewrite first_unknown_none in Eu. rewrite (Eu _ H) in H0. discriminate.
Qed.

Lemma parse_ok_iff : forall T d p,
  (exists v, parse T d p = Ok v) <-> (forall q k, ~ bad_at foi T d q k).
Proof.
  intros T d p. split.
  - intros (v & Hv) q k Hb. destruct (bad_refused _ _ _ _ Hb p) as (k' & q0 & E). congruence.
  - intro H. destruct (parse T d p) as [v|k q] eqn:E; [eauto|].
    destruct (parse_err_names_item _ _ _ _ _ E) as (q' & _ & Hb). exfalso. exact (H _ _ Hb).
Qed.

(* ---------------- round trips ---------------- *)
Section CvalInd.
  Variable P : cval -> Prop.
  Hypothesis Hnull : P VNull.
  Hypothesis Hbool : forall b, P (VBool b).
  Hypothesis Hint : forall z, P (VInt z).
  Hypothesis Hfloat : forall f, P (VFloat f).
  Hypothesis Hstr : forall s, P (VStr s).
  Hypothesis Hlist : forall l, Forall P l -> P (VList l).
  Hypothesis Htuple : forall l, Forall P l -> P (VTuple l).
  Hypothesis Hdict : forall l, Forall (fun kv => P (snd kv)) l -> P (VDict l).
  Hypothesis Hstruct : forall l, Forall (fun kv => P (snd kv)) l -> P (VStruct l).
  Fixpoint cval_ind' (v : cval) : P v :=
    let fl := fix go (l : list cval) : Forall P l :=
                match l with [] => Forall_nil _ | x :: r => Forall_cons _ (cval_ind' x) (go r) end in
    let fo := fix go (l : list (str * cval)) : Forall (fun kv => P (snd kv)) l :=
                match l with
                | [] => Forall_nil _
                | x :: r => Forall_cons (P := fun kv => P (snd kv)) x (cval_ind' (snd x)) (go r)
                end in
    match v with
    | VNull => Hnull | VBool b => Hbool b | VInt z => Hint z | VFloat f => Hfloat f | VStr s => Hstr s
    | VList l => Hlist l (fl l) | VTuple l => Htuple l (fl l)
    | VDict l => Hdict l (fo l) | VStruct l => Hstruct l (fo l)
    end.
End CvalInd.

Lemma to_data_embed : forall d, to_data (embed d) = d.
Proof.
  induction d as [| | | | | l IH | l IH] using jval_ind'; simpl; try reflexivity.
  - f_equal. rewrite map_map. induction IH as [|x l Hx _ IHl]; simpl; [reflexivity | congruence].
  - f_equal. rewrite map_map. induction IH as [|[k x] l Hx _ IHl]; simpl in *; [reflexivity | congruence].
Qed.

Lemma embed_plain : forall d, plain (embed d).
Proof.
  induction d as [| | | | | l IH | l IH] using jval_ind'; simpl; try constructor.
  - induction IH; simpl; constructor; assumption.
  - induction IH; simpl; constructor; assumption.
Qed.

Lemma embed_to_data : forall v, plain v -> embed (to_data v) = v.
Proof.
  induction v as [| | | | | l IH | l IH | l IH | l IH] using cval_ind'; intro Hp; simpl;
    try reflexivity; inversion Hp; subst.
  - f_equal. rewrite map_map. induction IH as [|x l Hx _ IHl]; simpl; [reflexivity|].
    inversion H0; subst. rewrite Hx by assumption. f_equal. apply IHl; [constructor|]; assumption.
  - f_equal. rewrite map_map. induction IH as [|[k x] l Hx _ IHl]; simpl in *; [reflexivity|].
    inversion H0; subst. simpl in *. rewrite Hx by assumption. f_equal. apply IHl; [constructor|]; assumption.
Qed.

Lemma to_data_null : forall v, to_data v = JNull -> v = VNull.
Proof. destruct v; simpl; intro H; try discriminate; reflexivity. Qed.

Lemma map_embed_plain : forall l, Forall plain (map embed l).
Proof. intro l. apply Forall_forall. intros x Hx. apply in_map_iff in Hx as (y & <- & _). apply embed_plain. Qed.
Lemma map_embed_plain_kv : forall l : list (str * jval),
  Forall (fun kv => plain (snd kv)) (map (fun kv => (fst kv, embed (snd kv))) l).
Proof. intro l. apply Forall_forall. intros x Hx. apply in_map_iff in Hx as (y & <- & _). apply embed_plain. Qed.
Lemma map_to_data_embed : forall l, map to_data (map embed l) = l.
Proof. induction l as [|x l IH]; simpl; [reflexivity|]. rewrite to_data_embed, IH. reflexivity. Qed.
Lemma map_to_data_embed_kv : forall l : list (str * jval),
  map (fun kv => (fst kv, to_data (snd kv))) (map (fun kv => (fst kv, embed (snd kv))) l) = l.
Proof. induction l as [|[k x] l IH]; simpl; [reflexivity|]. rewrite to_data_embed, IH. reflexivity. Qed.
Lemma map_embed_to_data : forall l, Forall plain l -> map embed (map to_data l) = l.
Proof. induction 1 as [|x l Hx _ IH]; simpl; [reflexivity|]. rewrite embed_to_data, IH by assumption. reflexivity. Qed.
Lemma map_embed_to_data_kv : forall l : list (str * cval), Forall (fun kv => plain (snd kv)) l ->
  map (fun kv => (fst kv, embed (snd kv))) (map (fun kv => (fst kv, to_data (snd kv))) l) = l.
Proof.
  induction 1 as [|[k x] l Hx _ IH]; simpl in *; [reflexivity|]. rewrite embed_to_data, IH by assumption. reflexivity.
Qed.

(* parse yields values of the declared type *)
Definition ht_spec_ty (T : cty) : Prop :=
  wf_ty T -> forall d p v, parse T d p = Ok v -> has_type T v.
Definition ht_spec_tys (ts : ctys) : Prop :=
  wf_tys ts -> forall l i p vs, parse_tuple ts l i p = Ok vs -> length l = tlen ts -> tuple_has_type ts vs.
Definition ht_spec_fields (fs : cfields) : Prop :=
  wf_fields fs -> forall l p items, parse_fields fs l p = Ok items -> fields_have_type fs items.

Lemma elems_has_type : forall (t : cty) l i p vs,
  (forall d p v, parse t d p = Ok v -> has_type t v) ->
  parse_elems (parse t) l i p = Ok vs -> Forall (has_type t) vs.
Proof.
  induction l as [|e l IH]; intros i p vs Ht H; simpl in H.
  - inversion H; constructor.
  - apply rbind_ok in H as (v & Hv & H). apply rmap_ok in H as (vs' & H & ->).
    constructor; [eapply Ht; eassumption | eapply IH; eassumption].
Qed.

Lemma ht_spec_all :
  (forall T, ht_spec_ty T) /\ (forall ts, ht_spec_tys ts) /\ (forall fs, ht_spec_fields fs).
Proof.
  apply cty_mutind; unfold ht_spec_ty, ht_spec_tys, ht_spec_fields.
  - intros _ d p v H. destruct d; simpl in H; inversion H; constructor.
  - intros _ d p v H. destruct d; simpl in H; try discriminate; unfold to_float in H.
    + destruct (foi (b2z b)); inversion H; constructor.
    + destruct (foi z); inversion H; constructor.
    + inversion H; constructor.
  - intros _ d p v H. destruct d; simpl in H; inversion H; constructor.
  - intros _ d p v H. destruct d; simpl in H; inversion H; constructor.
  - intros _ d p v H. simpl in H. inversion H. constructor. apply embed_plain.
  - intros t IH Hw d p v H. inversion Hw; subst.
    destruct d; simpl in H; try (apply ht_opt_some; eapply IH; eassumption).
    inversion H. constructor.
  - intros t IH Hw d p v H. inversion Hw; subst. destruct d; simpl in H; try discriminate.
    apply rmap_ok in H as (vs & H & ->). constructor. eapply elems_has_type; [|eassumption]. intros; eapply IH; eassumption.
  - intros t IH Hw d p v H. inversion Hw; subst. destruct d; simpl in H; try discriminate.
    apply rmap_ok in H as (vs & H & ->). constructor. apply parse_items_ok in H.
    induction H as [|a b l vs [_ Hab] _ IHl]; constructor; [eapply IH; eassumption | assumption].
  - intros t IH Hw d p v H. inversion Hw; subst. destruct d; simpl in H; try discriminate.
    apply rmap_ok in H as (vs & H & ->). constructor. eapply elems_has_type; [|eassumption]. intros; eapply IH; eassumption.
  - intros ts IH Hw d p v H. inversion Hw; subst. destruct d; simpl in H; try discriminate.
    destruct (Nat.eqb (length l) (tlen ts)) eqn:El; [|discriminate]. apply Nat.eqb_eq in El.
    apply rmap_ok in H as (vs & H & ->). constructor. eapply IH; eassumption.
  - intros fs IH Hw d p v H. inversion Hw; subst. destruct d; simpl in H; try discriminate.
    apply rbind_ok in H as (items & Hi & H).
    destruct (first_unknown (fnames fs) (map fst l)); [discriminate|]. inversion H; subst.
    constructor. eapply IH; eassumption.
  - intros _ d p v H. destruct d; simpl in H; inversion H. constructor. apply map_embed_plain.
  - intros _ d p v H. destruct d; simpl in H; inversion H. constructor. apply map_embed_plain_kv.
  - intros _ d p v H. destruct d; simpl in H; inversion H. constructor. apply map_embed_plain.
  - intros _ l i p vs H Hl. simpl in H. inversion H. constructor.
  - intros t IHt ts IHts Hw l i p vs H Hl. inversion Hw; subst.
    destruct l as [|e l]; simpl in H, Hl; [discriminate|].
    apply rbind_ok in H as (v & Hv & H). apply rmap_ok in H as (vs' & H & ->).
    constructor; [eapply IHt; eassumption | eapply IHts; try eassumption; congruence].
  - intros _ l p items H. simpl in H. inversion H. constructor.
  - intros n t IHt dflt fs IHfs Hw l p items H. inversion Hw; subst. simpl in H.
    destruct (assoc n l) as [d|].
    + apply rbind_ok in H as (v & Hv & H). apply rmap_ok in H as (r & H & ->).
      constructor; [eapply IHt; eassumption | eapply IHfs; eassumption].
    + destruct dflt as [dv|]; [|discriminate]. apply rmap_ok in H as (r & H & ->).
      constructor; [auto | eapply IHfs; eassumption].
Qed.

(* parse (to_data v) = v for every value of the declared type *)
Definition rt_spec_ty (T : cty) : Prop :=
  wf_ty T -> forall v p, has_type T v -> parse T (to_data v) p = Ok v.
Definition rt_spec_tys (ts : ctys) : Prop :=
  wf_tys ts -> forall vs i p, tuple_has_type ts vs -> parse_tuple ts (map to_data vs) i p = Ok vs.
Definition rt_spec_fields (fs : cfields) : Prop :=
  wf_fields fs -> forall items (L : list (str * jval)) p, fields_have_type fs items ->
    (forall n v, In (n, v) items -> assoc n L = Some (to_data v)) ->
    parse_fields fs L p = Ok items.

Lemma elems_rt : forall (t : cty) vs i p,
  Forall (fun v => forall p, parse t (to_data v) p = Ok v) vs ->
  parse_elems (parse t) (map to_data vs) i p = Ok vs.
Proof.
  induction vs as [|v vs IH]; intros i p H; simpl; [reflexivity|].
  inversion H; subst. rewrite H2. simpl. rewrite IH by assumption. reflexivity.
Qed.

Lemma fht_names : forall fs items, fields_have_type fs items -> map fst items = fnames fs.
Proof. induction 1; simpl; congruence. Qed.

Lemma assoc_in_nodup : forall (items : list (str * cval)) n v,
  NoDup (map fst items) -> In (n, v) items ->
  assoc n (map (fun kv => (fst kv, to_data (snd kv))) items) = Some (to_data v).
Proof.
  induction items as [|[k x] items IH]; intros n v Hnd Hin; [contradiction|].
  simpl in *. inversion Hnd; subst. destruct Hin as [E|Hin].
  - inversion E; subst. rewrite str_eqb_refl. reflexivity.
  - destruct (str_eqb n k) eqn:Ek.
    + apply str_eqb_spec in Ek. subst. exfalso. apply H1.
      change k with (fst (k, v)). apply in_map. assumption.
    + apply IH; assumption.
Qed.

Lemma wf_fields_nodup : forall fs, wf_fields fs -> NoDup (fnames fs).
Proof.
  induction 1; simpl; constructor; try assumption.
  intro Hin. apply mem_In in Hin. congruence.
Qed.

Lemma rt_spec_all :
  (forall T, rt_spec_ty T) /\ (forall ts, rt_spec_tys ts) /\ (forall fs, rt_spec_fields fs).
Proof.
  apply cty_mutind; unfold rt_spec_ty, rt_spec_tys, rt_spec_fields.
  - intros _ v p H. inversion H; reflexivity.
  - intros _ v p H. inversion H; reflexivity.
  - intros _ v p H. inversion H; reflexivity.
  - intros _ v p H. inversion H; reflexivity.
  - intros _ v p H. inversion H; subst. simpl. rewrite embed_to_data by assumption. reflexivity.
  - intros t IH Hw v p H. inversion Hw; subst. inversion H; subst; [reflexivity|].
    destruct (to_data v) eqn:E; simpl; try (rewrite <- E; apply IH; assumption).
    apply to_data_null in E. subst. reflexivity.
  - intros t IH Hw v p H. inversion Hw; subst. inversion H; subst. simpl.
    rewrite elems_rt; [reflexivity|]. eapply Forall_impl; [|eassumption]. intros; apply IH; assumption.
  - intros t IH Hw v p H. inversion Hw; subst. inversion H; subst. simpl.
    match goal with HF : Forall _ l |- _ => rename HF into HF0 end.
    assert (E : parse_items (parse t) (map (fun kv => (fst kv, to_data (snd kv))) l) p = Ok l).
    { clear H. induction HF0 as [|[k x] l Hx _ IHl]; simpl; [reflexivity|]. simpl in Hx.
      rewrite IH by assumption. simpl. rewrite IHl. reflexivity. }
    rewrite E. reflexivity.
  - intros t IH Hw v p H. inversion Hw; subst. inversion H; subst. simpl.
    rewrite elems_rt; [reflexivity|]. eapply Forall_impl; [|eassumption]. intros; apply IH; assumption.
  - intros ts IH Hw v p H. inversion Hw; subst. inversion H; subst. simpl.
    match goal with HF : tuple_has_type ts l |- _ => rename HF into HT0 end.
    assert (El : length (map to_data l) = tlen ts).
    { rewrite map_length. clear -HT0. induction HT0; simpl; congruence. }
    rewrite El, Nat.eqb_refl. rewrite IH by assumption. reflexivity.
  - intros fs IH Hw v p H. inversion Hw; subst. inversion H; subst. simpl.
    match goal with HF : fields_have_type fs l |- _ => rename HF into HF0 end.
    match goal with HF : wf_fields fs |- _ => rename HF into HW0 end.
    pose proof (fht_names _ _ HF0) as Hn. pose proof (wf_fields_nodup _ HW0) as Hnd.
    rewrite (IH HW0 l _ p HF0).
    + assert (Ek : map fst (map (fun kv : str * cval => (fst kv, to_data (snd kv))) l) = fnames fs).
      { rewrite map_map. simpl. rewrite <- Hn. apply map_ext. reflexivity. }
      cbn [rbind]. rewrite Ek.
      assert (Eu : first_unknown (fnames fs) (fnames fs) = None).
      { apply first_unknown_none. intros k Hk. apply mem_In. assumption. }
      rewrite Eu. reflexivity.
    + intros n v Hin. apply assoc_in_nodup; [rewrite Hn|]; assumption.
  - intros _ v p H. inversion H; subst. simpl. rewrite map_embed_to_data by assumption. reflexivity.
  - intros _ v p H. inversion H; subst. simpl. rewrite map_embed_to_data_kv by assumption. reflexivity.
  - intros _ v p H. inversion H; subst. simpl. rewrite map_embed_to_data by assumption. reflexivity.
  - intros _ vs i p H. inversion H; reflexivity.
  - intros t IHt ts IHts Hw vs i p H. inversion Hw; subst. inversion H; subst. simpl.
    rewrite IHt by assumption. simpl. rewrite IHts by assumption. reflexivity.
  - intros _ items L p H _. inversion H; reflexivity.
  - intros n t IHt dflt fs IHfs Hw items L p H HL. inversion Hw; subst. inversion H; subst. simpl.
    rewrite (HL n v (or_introl eq_refl)). rewrite IHt by assumption. simpl.
    match goal with HF : fields_have_type fs ?l0 |- _ => rename HF into HF0; rename l0 into l1 end.
    match goal with HF : wf_fields fs |- _ => rename HF into HW0 end.
    rewrite (IHfs HW0 l1 L p HF0); [reflexivity|]. intros n' v' Hin. apply HL. right. assumption.
Qed.

(* to_data (parse d) is d after the documented conversions *)
Definition cv_spec_ty (T : cty) : Prop :=
  forall d p v, parse T d p = Ok v -> conv foi T d (to_data v).
Definition cv_spec_tys (ts : ctys) : Prop :=
  forall l i p vs, parse_tuple ts l i p = Ok vs -> length l = tlen ts -> conv_tuple foi ts l (map to_data vs).
Definition cv_spec_fields (fs : cfields) : Prop :=
  forall l p items, parse_fields fs l p = Ok items ->
    conv_fields foi fs l (map (fun kv => (fst kv, to_data (snd kv))) items).

Lemma elems_conv : forall (t : cty) l i p vs,
  (forall d p v, parse t d p = Ok v -> conv foi t d (to_data v)) ->
  parse_elems (parse t) l i p = Ok vs -> Forall2 (conv foi t) l (map to_data vs).
Proof.
  induction l as [|e l IH]; intros i p vs Ht H; simpl in H.
  - inversion H; constructor.
  - apply rbind_ok in H as (v & Hv & H). apply rmap_ok in H as (vs' & H & ->).
    simpl. constructor; [eapply Ht; eassumption | eapply IH; eassumption].
Qed.

Lemma cv_spec_all :
  (forall T, cv_spec_ty T) /\ (forall ts, cv_spec_tys ts) /\ (forall fs, cv_spec_fields fs).
Proof.
  apply cty_mutind; unfold cv_spec_ty, cv_spec_tys, cv_spec_fields.
  - intros d p v H. destruct d; simpl in H; inversion H; constructor.
  - intros d p v H. destruct d; simpl in H; try discriminate; unfold to_float in H.
    + destruct (foi (b2z b)) eqn:E; inversion H; constructor; assumption.
    + destruct (foi z) eqn:E; inversion H; constructor; assumption.
    + inversion H; constructor.
  - intros d p v H. destruct d; simpl in H; inversion H; constructor.
  - intros d p v H. destruct d; simpl in H; inversion H; constructor.
  - intros d p v H. simpl in H. inversion H. rewrite to_data_embed. constructor.
  - intros t IH d p v H.
    destruct d; simpl in H; try (apply cv_opt_some; [discriminate | eapply IH; eassumption]).
    inversion H. constructor.
  - intros t IH d p v H. destruct d; simpl in H; try discriminate.
    apply rmap_ok in H as (vs & H & ->). simpl. constructor. eapply elems_conv; eassumption.
  - intros t IH d p v H. destruct d; simpl in H; try discriminate.
    apply rmap_ok in H as (vs & H & ->). simpl. constructor. apply parse_items_ok in H.
    induction H as [|a b l vs [Hk Hab] _ IHl]; simpl; constructor; [|assumption].
    simpl. split; [assumption | eapply IH; eassumption].
  - intros t IH d p v H. destruct d; simpl in H; try discriminate.
    apply rmap_ok in H as (vs & H & ->). simpl. constructor. eapply elems_conv; eassumption.
  - intros ts IH d p v H. destruct d; simpl in H; try discriminate.
    destruct (Nat.eqb (length l) (tlen ts)) eqn:El; [|discriminate]. apply Nat.eqb_eq in El.
    apply rmap_ok in H as (vs & H & ->). simpl. constructor. eapply IH; eassumption.
  - intros fs IH d p v H. destruct d; simpl in H; try discriminate.
    apply rbind_ok in H as (items & Hi & H).
    destruct (first_unknown (fnames fs) (map fst l)) eqn:Eu; [discriminate|]. inversion H; subst.
    simpl. constructor; [apply first_unknown_none; assumption | eapply IH; eassumption].
  - intros d p v H. destruct d; simpl in H; inversion H. simpl. rewrite map_to_data_embed. constructor.
  - intros d p v H. destruct d; simpl in H; inversion H. simpl. rewrite map_to_data_embed_kv. constructor.
  - intros d p v H. destruct d; simpl in H; inversion H. simpl. rewrite map_to_data_embed. constructor.
  - intros l i p vs H Hl. simpl in H. inversion H. destruct l; [constructor | discriminate].
  - intros t IHt ts IHts l i p vs H Hl.
    destruct l as [|e l]; simpl in H, Hl; [discriminate|].
    apply rbind_ok in H as (v & Hv & H). apply rmap_ok in H as (vs' & H & ->).
    simpl. constructor; [eapply IHt; eassumption | eapply IHts; try eassumption; congruence].
  - intros l p items H. simpl in H. inversion H. constructor.
  - intros n t IHt dflt fs IHfs l p items H. simpl in H.
    destruct (assoc n l) as [d|] eqn:Ea.
    + apply rbind_ok in H as (v & Hv & H). apply rmap_ok in H as (r & H & ->).
      simpl. eapply cvf_present; [eassumption | eapply IHt; eassumption | eapply IHfs; eassumption].
    + destruct dflt as [dv|]; [|discriminate]. apply rmap_ok in H as (r & H & ->).
      simpl. apply cvf_default; [assumption | eapply IHfs; eassumption].
Qed.

End B.
