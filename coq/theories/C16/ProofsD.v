(* C16 proofs, part D: _check_config_struct_type accepts exactly the annotations that stand for a
   type of the accepted grammar [cty]; on those the parser for arbitrary annotations IS the parser of
   the accepted grammar, and every annotation it can be called on is accepted too. *)
Require Import QV.C16.Model QV.C16.ProofsA QV.C16.ProofsB.

Scheme ann_mut := Induction for ann Sort Prop
  with anns_mut := Induction for anns Sort Prop
  with afields_mut := Induction for afields Sort Prop.
Combined Scheme ann_mutind from ann_mut, anns_mut, afields_mut.

Lemma parse_elems_ext : forall f g l i p, (forall e q, f e q = g e q) ->
  parse_elems f l i p = parse_elems g l i p.
Proof.
  intros f g l. induction l as [|e l IH]; intros i p H; simpl; [reflexivity|].
  rewrite H. destruct (g e (p ++ [PIdx i])); simpl; [|reflexivity]. rewrite IH by assumption. reflexivity.
Qed.
Lemma parse_items_ext : forall f g l p, (forall e q, f e q = g e q) ->
  parse_items f l p = parse_items g l p.
Proof.
  intros f g l. induction l as [|[k e] l IH]; intros p H; simpl; [reflexivity|].
  rewrite H. destruct (g e (p ++ [PKey k])); simpl; [|reflexivity]. rewrite IH by assumption. reflexivity.
Qed.

Section D.
Variable foi : Z -> option str.
Variable pol : nat -> bool.     (* the open choice: which families of alternative spellings are handled *)
Notation check := (check pol).
Notation check_tuple := (check_tuple pol).
Notation check_fields := (check_fields pol).
Notation denote := (denote pol).
Notation denote_anns := (denote_anns pol).
Notation denote_fields := (denote_fields pol).
Notation parse_ann := (parse_ann pol).
Notation parse_atuple := (parse_atuple pol).
Notation parse_afields := (parse_afields pol).
Notation unsup_at := (unsup_at pol).

(* ---------------- parse_ann = parse on every annotation that denotes an accepted type ---------------- *)
Definition pd_ann (a : ann) : Prop :=
  forall T, denote a = Some T -> forall d p, parse_ann foi a d p = parse foi T d p.
Definition pd_anns (ms : anns) : Prop :=
  forall ts, denote_anns ms = Some ts ->
    alen ms = tlen ts /\ forall l i p, parse_atuple foi ms l i p = parse_tuple foi ts l i p.
Definition pd_fields (fs : afields) : Prop :=
  forall fs', denote_fields fs = Some fs' ->
    afnames fs = fnames fs' /\ forall l p, parse_afields foi fs l p = parse_fields foi fs' l p.

Lemma pd_all : (forall a, pd_ann a) /\ (forall ms, pd_anns ms) /\ (forall fs, pd_fields fs).
Proof.
  apply ann_mutind; unfold pd_ann, pd_anns, pd_fields.
  - intros T H d p. inversion H. reflexivity.
  - intros T H d p. inversion H. reflexivity.
  - intros T H d p. inversion H. reflexivity.
  - intros T H d p. inversion H. reflexivity.
  - intros T H d p. inversion H. reflexivity.
  - intros k T H d p. destruct k; inversion H; reflexivity.
  - intros T H. discriminate.
  - intros fam a IH T H d p.
    assert (E : denote (AAlt fam a) = if pol fam then denote a else None) by reflexivity. rewrite E in H.
    assert (E2 : parse_ann foi (AAlt fam a) d p = if pol fam then parse_ann foi a d p else Err Mismatch p) by reflexivity.
    rewrite E2. revert H. destruct (pol fam); intro H; [apply IH; assumption | discriminate H].
  - intros a IH T H d p. simpl in H. destruct (denote a) as [t|]; [|discriminate]. inversion H; subst.
    simpl. destruct d; try reflexivity; apply IH; reflexivity.
  - intros ms _ hn T H. discriminate.
  - intros a IH T H d p. simpl in H. destruct (denote a) as [t|]; [|discriminate]. inversion H; subst.
    simpl. destruct d; try reflexivity. f_equal. apply parse_elems_ext. intros; apply IH; reflexivity.
  - intros kstr a IH T H d p. simpl in H. destruct kstr; [|discriminate].
    destruct (denote a) as [t|]; [|discriminate]. inversion H; subst.
    simpl. destruct d; try reflexivity. f_equal. apply parse_items_ext. intros; apply IH; reflexivity.
  - intros a IH T H d p. simpl in H. destruct (denote a) as [t|]; [|discriminate]. inversion H; subst.
    simpl. destruct d; try reflexivity. f_equal. apply parse_elems_ext. intros; apply IH; reflexivity.
  - intros ms IH T H d p. simpl in H. destruct (denote_anns ms) as [ts|]; [|discriminate]. inversion H; subst.
    destruct (IH ts eq_refl) as [Hl Hp]. simpl. destruct d; try reflexivity. rewrite Hl, Hp. reflexivity.
  - intros fs IH T H d p. simpl in H. destruct (denote_fields fs) as [fs'|]; [|discriminate]. inversion H; subst.
    destruct (IH fs' eq_refl) as [Hn Hp]. simpl. destruct d; try reflexivity. rewrite Hn, Hp. reflexivity.
  - intros ts H. inversion H; subst. split; [reflexivity | intros; reflexivity].
  - intros a IHa r IHr ts H. simpl in H.
    destruct (denote a) as [t|]; [|discriminate]. destruct (denote_anns r) as [ts'|]; [|discriminate].
    inversion H; subst. destruct (IHr ts' eq_refl) as [Hl Hp]. split; [simpl; congruence|].
    intros l i p. simpl. destruct l as [|e l]; [reflexivity|]. rewrite (IHa t eq_refl), Hp. reflexivity.
  - intros fs' H. inversion H; subst. split; [reflexivity | intros; reflexivity].
  - intros n a IHa dflt r IHr fs' H. simpl in H.
    destruct (denote a) as [t|]; [|discriminate]. destruct (denote_fields r) as [fr|]; [|discriminate].
    inversion H; subst. destruct (IHr fr eq_refl) as [Hn Hp]. split; [simpl; congruence|].
    intros l p. simpl. rewrite Hp. destruct (assoc n l); [rewrite (IHa t eq_refl)|]; reflexivity.
Qed.

(* ---------------- the check accepts exactly the annotations that denote ---------------- *)
Definition ck_ann (a : ann) : Prop := forall p, check a p = COk <-> denote a <> None.
Definition ck_anns (ms : anns) : Prop := forall i p, check_tuple ms i p = COk <-> denote_anns ms <> None.
Definition ck_fields (fs : afields) : Prop := forall p, check_fields fs p = COk <-> denote_fields fs <> None.

Lemma omap_none {A B} (f : A -> B) o : option_map f o <> None <-> o <> None.
Proof. destruct o; simpl; split; intro H; try assumption; try discriminate; contradiction. Qed.

Lemma ck_all : (forall a, ck_ann a) /\ (forall ms, ck_anns ms) /\ (forall fs, ck_fields fs).
Proof.
  apply ann_mutind; unfold ck_ann, ck_anns, ck_fields.
  - intros p. simpl. split; [discriminate | reflexivity].
  - intros p. simpl. split; [discriminate | reflexivity].
  - intros p. simpl. split; [discriminate | reflexivity].
  - intros p. simpl. split; [discriminate | reflexivity].
  - intros p. simpl. split; [discriminate | reflexivity].
  - intros k p. destruct k; simpl; split; try discriminate; try reflexivity. intro H; contradiction.
  - intros p. simpl. split; [discriminate | intro H; contradiction].
  - intros fam a IH p. simpl. destruct (pol fam); [apply IH | split; [discriminate | intro H; contradiction]].
  - intros a IH p. simpl. rewrite omap_none. apply IH.
  - intros ms _ hn p. simpl. split; [discriminate | intro H; contradiction].
  - intros a IH p. simpl. rewrite omap_none. apply IH.
  - intros kstr a IH p. simpl. destruct kstr; [rewrite omap_none; apply IH|].
    split; [discriminate | intro H; contradiction].
  - intros a IH p. simpl. rewrite omap_none. apply IH.
  - intros ms IH p. simpl. rewrite omap_none. apply IH.
  - intros fs IH p. simpl. rewrite omap_none. apply IH.
  - intros i p. simpl. split; [discriminate | reflexivity].
  - intros a IHa r IHr i p. simpl. specialize (IHa (p ++ [CIdx i])). specialize (IHr (S i) p).
    destruct (check a (p ++ [CIdx i])) eqn:Ea; simpl.
    + destruct (denote a) as [t|]; [|exfalso; apply (proj1 IHa eq_refl); reflexivity].
      rewrite IHr. destruct (denote_anns r); split; intro H; try assumption; try discriminate; contradiction.
    + split; [discriminate|]. intro H. destruct (denote a) as [t|]; [|contradiction].
      assert (Hx : CErr k p0 = COk) by (apply IHa; discriminate). discriminate.
  - intros p. simpl. split; [discriminate | reflexivity].
  - intros n a IHa dflt r IHr p. simpl. specialize (IHa (p ++ [CField n])). specialize (IHr p).
    destruct (check a (p ++ [CField n])) eqn:Ea; simpl.
    + destruct (denote a) as [t|]; [|exfalso; apply (proj1 IHa eq_refl); reflexivity].
      rewrite IHr. destruct (denote_fields r); split; intro H; try assumption; try discriminate; contradiction.
    + split; [discriminate|]. intro H. destruct (denote a) as [t|]; [|contradiction].
      assert (Hx : CErr k p0 = COk) by (apply IHa; discriminate). discriminate.
Qed.

Lemma check_ok_denotes : forall a p, check a p = COk <-> exists T, denote a = Some T.
Proof.
  intros a p. rewrite (proj1 ck_all a p). destruct (denote a) as [T|]; split; intro H.
  - eauto. - discriminate. - contradiction. - destruct H as (T & H). discriminate.
Qed.

(* ---------------- a refusal names an annotation that is outside the grammar ---------------- *)
Definition ce_ann (a : ann) : Prop :=
  forall p k q, check a p = CErr k q -> exists q', q = p ++ q' /\ unsup_at a q' k.
Definition ce_anns (ms : anns) : Prop :=
  forall i p k q, check_tuple ms i p = CErr k q ->
    exists j a q', anth ms j = Some a /\ q = p ++ CIdx (i + j) :: q' /\ unsup_at a q' k.
Definition ce_fields (fs : afields) : Prop :=
  forall p k q, check_fields fs p = CErr k q ->
    exists n a d q', afield_in fs n a d /\ q = p ++ CField n :: q' /\ unsup_at a q' k.

Lemma here_unsup : forall a (p : list cpelem) k, unsup_at a [] k -> exists q', p = p ++ q' /\ unsup_at a q' k.
Proof. intros. exists []. split; [symmetry; apply app_nil_r | assumption]. Qed.

Lemma ce_all : (forall a, ce_ann a) /\ (forall ms, ce_anns ms) /\ (forall fs, ce_fields fs).
Proof.
  apply ann_mutind; unfold ce_ann, ce_anns, ce_fields; try (intros p k q H; discriminate).
  - intros rk p k q H. destruct rk; simpl in H; try discriminate. inversion H; subst.
    apply here_unsup. constructor.
  - intros p k q H. inversion H; subst. apply here_unsup. constructor.
  - intros fam a IH p k q H. simpl in H. destruct (pol fam) eqn:Ef.
    + destruct (IH _ _ _ H) as (q' & -> & Hu). exists q'. split; [reflexivity | apply un_alt_on; assumption].
    + inversion H; subst. apply here_unsup. apply un_alt_off. assumption.
  - intros a IH p k q H. simpl in H. destruct (IH _ _ _ H) as (q' & -> & Hu).
    exists q'. split; [reflexivity | constructor; assumption].
  - intros ms _ hn p k q H. inversion H; subst. apply here_unsup. constructor.
  - intros a IH p k q H. simpl in H. destruct (IH _ _ _ H) as (q' & -> & Hu).
    exists (CAny :: q'). rewrite app_snoc. split; [reflexivity | constructor; assumption].
  - intros kstr a IH p k q H. simpl in H. destruct kstr.
    + destruct (IH _ _ _ H) as (q' & -> & Hu).
      exists (CAny :: q'). rewrite app_snoc. split; [reflexivity | constructor; assumption].
    + inversion H; subst. apply here_unsup. constructor.
  - intros a IH p k q H. simpl in H. destruct (IH _ _ _ H) as (q' & -> & Hu).
    exists (CAny :: q'). rewrite app_snoc. split; [reflexivity | constructor; assumption].
  - intros ms IH p k q H. simpl in H. destruct (IH _ _ _ _ H) as (j & a & q' & Ha & -> & Hu).
    exists (CIdx j :: q'). split; [reflexivity | econstructor; eassumption].
  - intros fs IH p k q H. simpl in H. destruct (IH _ _ _ H) as (n & a & d & q' & Ha & -> & Hu).
    exists (CField n :: q'). split; [reflexivity | econstructor; eassumption].
  - intros a IHa r IHr i p k q H. simpl in H.
    destruct (check a (p ++ [CIdx i])) eqn:Ea; simpl in H.
    + destruct (IHr _ _ _ _ H) as (j & a' & q' & Ha & -> & Hu).
      exists (S j), a', q'. rewrite <- plus_n_Sm. repeat split; assumption.
    + inversion H; subst. destruct (IHa _ _ _ Ea) as (q' & -> & Hu).
      exists 0, a, q'. rewrite Nat.add_0_r, app_snoc. repeat split; assumption.
  - intros n a IHa dflt r IHr p k q H. simpl in H.
    destruct (check a (p ++ [CField n])) eqn:Ea; simpl in H.
    + destruct (IHr _ _ _ H) as (n' & a' & d' & q' & Ha & -> & Hu).
      exists n', a', d', q'. repeat split; [constructor; assumption | assumption].
    + inversion H; subst. destruct (IHa _ _ _ Ea) as (q' & -> & Hu).
      exists n, a, dflt, q'. rewrite app_snoc. repeat split; [constructor | assumption].
Qed.

Lemma anth_denote_none : forall ms i a, anth ms i = Some a -> denote a = None -> denote_anns ms = None.
Proof.
  induction ms as [|a0 r IH]; intros i a H Hn; [destruct i; discriminate|].
  simpl. destruct i as [|i]; simpl in H.
  - inversion H; subst. rewrite Hn. reflexivity.
  - rewrite (IH _ _ H Hn). destruct (denote a0); reflexivity.
Qed.
Lemma afield_denote_none : forall fs n a d, afield_in fs n a d -> denote a = None -> denote_fields fs = None.
Proof.
  induction 1; intro Hn; simpl.
  - rewrite Hn. reflexivity.
  - rewrite (IHafield_in Hn). destruct (denote a'); reflexivity.
Qed.

Lemma unsup_denote_none : forall a q k, unsup_at a q k -> denote a = None.
Proof.
  induction 1; simpl; try reflexivity; try (rewrite IHunsup_at; reflexivity);
    try (match goal with E : pol _ = _ |- _ => rewrite E end; try assumption; reflexivity).
  - rewrite (anth_denote_none _ _ _ H IHunsup_at). reflexivity.
  - rewrite (afield_denote_none _ _ _ _ H IHunsup_at). reflexivity.
Qed.

Lemma unsup_refused : forall a q k, unsup_at a q k ->
  forall p, exists k' q', check a p = CErr k' (p ++ q') /\ unsup_at a q' k'.
Proof.
  intros a q k H p. destruct (check a p) as [|k' q0] eqn:E.
  - apply check_ok_denotes in E as (T & E). rewrite (unsup_denote_none _ _ _ H) in E. discriminate.
  - destruct (proj1 ce_all a _ _ _ E) as (q' & -> & Hu). eauto.
Qed.

(* ---------------- everything below an accepted annotation is accepted ---------------- *)
Definition sb_ann (a : ann) : Prop := denote a <> None -> forall b, subann b a -> denote b <> None.
Definition sb_anns (ms : anns) : Prop := denote_anns ms <> None -> forall b, subann_anns b ms -> denote b <> None.
Definition sb_fields (fs : afields) : Prop :=
  denote_fields fs <> None -> forall b, subann_fields b fs -> denote b <> None.

Lemma sb_all : (forall a, sb_ann a) /\ (forall ms, sb_anns ms) /\ (forall fs, sb_fields fs).
Proof.
  apply ann_mutind; unfold sb_ann, sb_anns, sb_fields;
    try (intros Hd b Hs; inversion Hs; subst; assumption).
  - intros k Hd b Hs. inversion Hs; subst. assumption.
  - intros fam a IH Hd b Hs. inversion Hs; subst; [assumption|]. apply IH; [|assumption].
    assert (E : denote (AAlt fam a) = if pol fam then denote a else None) by reflexivity. rewrite E in Hd.
    revert Hd. destruct (pol fam); intro Hd; [assumption | contradiction].
  - intros a IH Hd b Hs. inversion Hs; subst; [assumption|]. apply IH; [|assumption].
    simpl in Hd. apply omap_none in Hd. assumption.
  - intros ms _ hn Hd. simpl in Hd. contradiction.
  - intros a IH Hd b Hs. inversion Hs; subst; [assumption|]. apply IH; [|assumption].
    simpl in Hd. apply omap_none in Hd. assumption.
  - intros kstr a IH Hd b Hs. inversion Hs; subst; [assumption|]. apply IH; [|assumption].
    simpl in Hd. destruct kstr; [apply omap_none in Hd; assumption | contradiction].
  - intros a IH Hd b Hs. inversion Hs; subst; [assumption|]. apply IH; [|assumption].
    simpl in Hd. apply omap_none in Hd. assumption.
  - intros ms IH Hd b Hs. inversion Hs; subst; [assumption|]. apply IH; [|assumption].
    simpl in Hd. apply omap_none in Hd. assumption.
  - intros fs IH Hd b Hs. inversion Hs; subst; [assumption|]. apply IH; [|assumption].
    simpl in Hd. apply omap_none in Hd. assumption.
  - intros a IHa r IHr Hd b Hs. simpl in Hd.
    destruct (denote a) as [t|] eqn:Ea; [|contradiction].
    destruct (denote_anns r) as [ts|] eqn:Er; [|contradiction].
    inversion Hs; subst; [apply IHa; [discriminate | assumption] | apply IHr; [discriminate | assumption]].
  - intros n a IHa dflt r IHr Hd b Hs. simpl in Hd.
    destruct (denote a) as [t|] eqn:Ea; [|contradiction].
    destruct (denote_fields r) as [fr|] eqn:Er; [|contradiction].
    inversion Hs; subst; [apply IHa; [discriminate | assumption] | apply IHr; [discriminate | assumption]].
Qed.

(* the statement used in Properties.v *)
Lemma checked_parses_in_grammar : forall a p, check a p = COk ->
  exists T, denote a = Some T /\
    (forall d q, parse_ann foi a d q = parse foi T d q) /\
    (forall b, subann b a -> forall p', check b p' = COk).
Proof.
  intros a p H. apply check_ok_denotes in H as (T & HT). exists T. split; [exact HT|]. split.
  - apply (proj1 pd_all a T HT).
  - intros b Hs p'. apply (proj1 ck_all b p'). apply (proj1 sb_all a); [rewrite HT; discriminate | assumption].
Qed.
End D.
