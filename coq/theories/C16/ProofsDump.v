(* C16 proofs: the text printed by dump (json.dumps(indent=4) layout) has no '#' outside a string
   and no string running over a line end, hence comment stripping leaves it alone; dump/load. *)
Require Import QV.C16.Model QV.C16.ProofsA.
From Coq Require Import ZifyBool ZifyNat ZifyN.

(* text whose strings are complete, without line breaks inside, no '#' outside strings, no CR *)
Inductive Clean : str -> Prop :=
| cl_nil : Clean []
| cl_chr c t : c <> cQ -> c <> cH -> c <> cCR -> Clean t -> Clean (c :: t)
| cl_str b t : strbody b -> Forall (fun c => is_nl c = false) b -> Clean t -> Clean (cQ :: b ++ cQ :: t).

Lemma Clean_app : forall a b, Clean a -> Clean b -> Clean (a ++ b).
Proof.
  intros a b Ha Hb. induction Ha; simpl.
  - assumption.
  - constructor; assumption.
  - rewrite <- app_assoc. simpl. constructor; assumption.
Qed.

Definition plainc (c : N) : Prop := c <> cQ /\ c <> cH /\ c <> cCR.
Lemma Clean_simple : forall l, Forall plainc l -> Clean l.
Proof.
  induction 1 as [|c l (H1 & H2 & H3) _ IH]; constructor; assumption.
Qed.

Lemma Clean_lines : forall t, Clean t -> Forall outside (lines t).
Proof.
  intros t H. induction H as [| c t Hq Hh Hr H IH | b t Hb Hn H IH].
  - simpl. repeat constructor.
  - simpl. destruct (is_nl c).
    + constructor; [constructor | assumption].
    + pose proof (lines_nonempty t) as Hne. destruct (lines t) as [|l ls]; [contradiction|].
      inversion IH; subst. constructor; [constructor; assumption | assumption].
  - replace (cQ :: b ++ cQ :: t) with ((cQ :: b ++ [cQ]) ++ t)
      by (simpl; rewrite <- app_assoc; reflexivity).
    rewrite lines_app_nonl.
    + pose proof (lines_nonempty t) as Hne. destruct (lines t) as [|l ls]; [contradiction|].
      inversion IH; subst. simpl. constructor; [|assumption].
      rewrite <- app_assoc. simpl. constructor; assumption.
    + constructor; [reflexivity|]. apply Forall_app. split; [assumption | repeat constructor].
Qed.

Lemma Clean_fixnl : forall t, Clean t -> map fixnl t = t.
Proof.
  intros t H. induction H as [| c t Hq Hh Hr H IH | b t Hb Hn H IH].
  - reflexivity.
  - simpl. rewrite IH. f_equal. unfold fixnl, is_nl.
    destruct (N.eqb c cLF) eqn:E1; simpl.
    + apply N.eqb_eq in E1. congruence.
    + destruct (N.eqb c cCR) eqn:E2; [apply N.eqb_eq in E2; contradiction | reflexivity].
  - simpl. rewrite map_app. simpl. rewrite IH. f_equal. f_equal.
    clear -Hn. induction Hn as [|c b Hc _ IHb]; [reflexivity|]. simpl. rewrite IHb.
    unfold fixnl. rewrite Hc. reflexivity.
Qed.

Lemma strip_clean : forall t, Clean t -> strip t = t.
Proof.
  intros t H. unfold strip.
  assert (E : map strip_line (lines t) = lines t).
  { pose proof (Clean_lines t H) as Hl. induction Hl as [|l ls Hl _ IH]; [reflexivity|].
    simpl. rewrite IH. f_equal. unfold strip_line. rewrite scan_outside_none by assumption. reflexivity. }
  rewrite E, unlines_lines. apply Clean_fixnl. assumption.
Qed.

(* ---------------- the printer emits clean text ---------------- *)
Lemma strbody_app : forall a b, strbody a -> strbody b -> strbody (a ++ b).
Proof. intros a b Ha Hb. induction Ha; simpl; try constructor; assumption. Qed.

Definition hexsafe (c : N) : Prop :=
  c <> cQ /\ c <> cB /\ is_nl c = false.

Lemma hexdig_safe : forall n, hexsafe (hexdig n).
Proof.
  intro n. unfold hexsafe, hexdig, is_nl, cQ, cB, cLF, cCR.
  destruct (N.ltb n 10) eqn:E.
  - apply N.ltb_lt in E. repeat split; lia.
  - apply N.ltb_ge in E. repeat split; lia.
Qed.

Lemma u4_body : forall n, strbody (u4 n) /\ Forall (fun c => is_nl c = false) (u4 n).
Proof.
  intro n. unfold u4.
  destruct (hexdig_safe (N.land (N.shiftr n 12) 15)) as (a1 & a2 & a3).
  destruct (hexdig_safe (N.land (N.shiftr n 8) 15)) as (b1 & b2 & b3).
  destruct (hexdig_safe (N.land (N.shiftr n 4) 15)) as (c1 & c2 & c3).
  destruct (hexdig_safe (N.land n 15)) as (d1 & d2 & d3).
  split.
  - apply sb_esc. repeat (apply sb_chr; [assumption | assumption |]). constructor.
  - repeat (constructor; try assumption); reflexivity.
Qed.

Lemma esc_char_body : forall c, strbody (esc_char c) /\ Forall (fun x => is_nl x = false) (esc_char c).
Proof.
  intro c. unfold esc_char.
  repeat match goal with
  | |- context [if N.eqb c ?k then _ else _] =>
      destruct (N.eqb c k) eqn:?; [split; [apply sb_esc; constructor | repeat constructor]|]
  end.
  destruct (N.leb 32 c && N.leb c 126) eqn:Er.
  - apply andb_true_iff in Er as [E1 E2]. apply N.leb_le in E1, E2.
    repeat match goal with H : N.eqb _ _ = false |- _ => apply N.eqb_neq in H end.
    split.
    + apply sb_chr; [assumption | assumption | constructor].
    + constructor; [|constructor]. unfold is_nl, cLF, cCR.
      apply orb_false_iff; split; apply N.eqb_neq; lia.
  - destruct (N.ltb c 65536).
    + apply u4_body.
    + split.
      * apply strbody_app; apply u4_body.
      * apply Forall_app; split; apply u4_body.
Qed.

Lemma flat_esc_body : forall s, strbody (flat_map esc_char s) /\
                                Forall (fun x => is_nl x = false) (flat_map esc_char s).
Proof.
  induction s as [|c s [IH1 IH2]]; simpl.
  - split; constructor.
  - destruct (esc_char_body c) as [H1 H2]. split.
    + apply strbody_app; assumption.
    + apply Forall_app; split; assumption.
Qed.

Lemma jstr_clean : forall s t, Clean t -> Clean (jstr s ++ t).
Proof.
  intros s t Ht. unfold jstr. simpl. rewrite <- app_assoc. simpl.
  destruct (flat_esc_body s) as [H1 H2]. constructor; assumption.
Qed.

Lemma pos_digits_plain : forall fuel n acc, Forall plainc acc -> Forall plainc (pos_digits fuel n acc).
Proof.
  induction fuel as [|f IH]; intros n acc Ha; simpl; [assumption|].
  assert (Hd : plainc (48 + N.modulo n 10)%N).
  { unfold plainc, cQ, cH, cCR. pose proof (N.le_0_l (N.modulo n 10)). repeat split; lia. }
  destruct (N.ltb n 10).
  - constructor; assumption.
  - apply IH. constructor; assumption.
Qed.

Lemma int_text_plain : forall z, Forall plainc (int_text z).
Proof.
  intros [|p|p]; unfold int_text.
  - repeat constructor; discriminate.
  - apply pos_digits_plain. constructor.
  - constructor; [repeat split; discriminate|]. apply pos_digits_plain. constructor.
Qed.

Lemma repeat_plain : forall n, Forall plainc (repeat 32%N n).
Proof. induction n; simpl; constructor; [repeat split; discriminate | assumption]. Qed.

Lemma nl_indent_clean : forall lvl, Clean (nl_indent lvl).
Proof.
  intro lvl. unfold nl_indent, indent. apply Clean_simple.
  constructor; [repeat split; discriminate | apply repeat_plain].
Qed.

Lemma sep_items_clean : forall lvl items, Forall Clean items -> Clean (sep_items lvl items).
Proof.
  intros lvl items H. induction H as [|x r Hx Hr IH]; [constructor|].
  destruct r as [|y r'].
  - simpl. assumption.
  - change (sep_items lvl (x :: y :: r')) with (x ++ 44%N :: nl_indent lvl ++ sep_items lvl (y :: r')).
    apply Clean_app; [assumption|]. constructor; try discriminate.
    apply Clean_app; [apply nl_indent_clean | assumption].
Qed.

Lemma atom_plain : forall f, atom_ok f = true -> Forall plainc f.
Proof.
  intros f H. unfold atom_ok in H. rewrite forallb_forall in H. apply Forall_forall. intros c Hc.
  specialize (H c Hc). apply negb_true_iff in H. apply orb_false_iff in H as [H H3].
  apply orb_false_iff in H as [H1 H2]. unfold is_nl in H3. apply orb_false_iff in H3 as [_ H3].
  apply N.eqb_neq in H1, H2, H3. repeat split; assumption.
Qed.

Lemma jprint_clean : forall v lvl, atoms_ok v = true -> Clean (jprint_at lvl v).
Proof.
  induction v as [| b | z | f | s | l IH | l IH] using jval_ind'; intros lvl Hok.
  - simpl. apply Clean_simple. repeat constructor; discriminate.
  - destruct b; simpl; apply Clean_simple; repeat constructor; discriminate.
  - simpl. apply Clean_simple. apply int_text_plain.
  - simpl. apply Clean_simple. apply atom_plain. exact Hok.
  - simpl. rewrite <- (app_nil_r (jstr s)). apply jstr_clean. constructor.
  - destruct l as [|x l']; [simpl; apply Clean_simple; repeat constructor; discriminate|].
    remember (x :: l') as l eqn:El.
    assert (E : jprint_at lvl (JList l) =
                91%N :: nl_indent (S lvl) ++ sep_items (S lvl) (map (jprint_at (S lvl)) l) ++ nl_indent lvl ++ [93%N])
      by (subst l; reflexivity).
    rewrite E. constructor; try discriminate.
    apply Clean_app; [apply nl_indent_clean|]. apply Clean_app.
    + apply sep_items_clean. simpl in Hok. rewrite forallb_forall in Hok.
      rewrite Forall_forall in IH. apply Forall_forall. intros y Hy. apply in_map_iff in Hy as (w & <- & Hw).
      apply IH; [assumption | apply Hok; assumption].
    + apply Clean_app; [apply nl_indent_clean | apply Clean_simple; repeat constructor; discriminate].
  - destruct l as [|x l']; [simpl; apply Clean_simple; repeat constructor; discriminate|].
    remember (x :: l') as l eqn:El.
    assert (E : jprint_at lvl (JObj l) =
                123%N :: nl_indent (S lvl)
                  ++ sep_items (S lvl) (map (fun kv => jstr (fst kv) ++ 58%N :: 32%N :: jprint_at (S lvl) (snd kv)) l)
                  ++ nl_indent lvl ++ [125%N])
      by (subst l; reflexivity).
    rewrite E. constructor; try discriminate.
    apply Clean_app; [apply nl_indent_clean|]. apply Clean_app.
    + apply sep_items_clean. simpl in Hok. rewrite forallb_forall in Hok.
      rewrite Forall_forall in IH. apply Forall_forall. intros y Hy. apply in_map_iff in Hy as (w & <- & Hw).
      apply jstr_clean. constructor; try discriminate. constructor; try discriminate.
      apply (IH w Hw). apply Hok; assumption.
    + apply Clean_app; [apply nl_indent_clean | apply Clean_simple; repeat constructor; discriminate].
Qed.

Lemma strip_jprint : forall v, atoms_ok v = true -> strip (jprint v) = jprint v.
Proof. intros v H. apply strip_clean. apply jprint_clean. assumption. Qed.

Lemma dump_load : forall (jparse : str -> option jval) l,
  atoms_ok (JObj l) = true -> ~ dup_in (JObj l) ->
  jparse (jprint (JObj l)) = Some (JObj l) ->
  load jparse (jprint (JObj l)) = LOk (JObj l).
Proof.
  intros jparse l Hok Hd Hj. apply load_ok; [|assumption].
  rewrite strip_jprint by assumption. assumption.
Qed.
