(* C11 — "a stop request always wakes a waiting task": a small concurrent machine at
   synchronisation-operation granularity, and the thread programs transcribed from
     qmi/core/task.py   _TaskThread.stop_task (part after the state check), wait_for_condition,
                        QMI_Task.sleep, QMI_LoopTask.run
     qmi/core/pubsub.py QMI_SignalReceiver.get_next_signal, _receive_signal, _wait_for_condition
   plus threading.Condition.wait_for / Event.wait / Event.set as monitors.

   Threads: TW = the task thread (waiter), TS = the thread calling stop (stopper),
            TE = environment delivering signals any number of times.
   Locks:   0 = the receiver's queue condition lock, 1 = _TaskThread._wait_cond_lock.
   Shared:  flag = task._stop_requested, q = "receive queue is non-empty" (finite abstraction),
            wc = "_TaskThread._wait_cond is registered".
   A step of thread t executes t's next VISIBLE instruction (a synchronisation operation or an
   unlocked read of the flag) and then t's following internal instructions up to the next visible
   one: exactly the granularity at which the deterministic scheduler of the harness can switch
   threads, so recorded implementation schedules are replayed step by step against [step]. *)
From Coq Require Export List Arith Bool.
Export ListNotations.

Inductive tid := TW | TS | TE.

Inductive instr :=
| Acq (l : nat) | Rel (l : nat)
| WaitCv (timed : bool)          (* Condition.wait: release lock 0 and park; resumed by Resume *)
| NotifyCv
| SetFlag | ReadFlag             (* Event.set ; Event.is_set (unlocked read) *)
| EvWait (timed : bool)          (* Event.wait(timeout): r := signaled *)
| ReadQ | SetQ (b : bool) | ReadWc | SetWc (b : bool)
| JmpIf (t : nat) | JmpIfNot (t : nat) | Jmp (t : nat)
| SetRet (b : bool) | JmpIfRet (t : nat) | JmpIfTO (t : nat)
| SetTO (b : bool)               (* tout := b (a wait with timeout 0 has expired when it returns) *)
| Mark (k : nat)                 (* 0 stop exception raised, 1 loop_finalize ran, 2 got signal, 3 timed out *)
| MarkLate                       (* ghost: late := flag (the wait starts after the stop request) *)
| Halt.

Inductive park := Run | ParkCv (notified timedout timed : bool) | ParkEv (woken timedout timed : bool).

Record thr := mkT {
  pc : nat; r : bool; ret : bool; tout : bool; pk : park;
  m_exc : bool; m_fin : bool; m_sig : bool; m_tmo : bool; late : bool }.

Record state := mkS {
  l0 : option tid; l1 : option tid; flag : bool; q : bool; wc : bool;
  tw : thr; ts : thr; te : thr }.

Definition thr0 := mkT 0 false false false Run false false false false false.
Definition init : state := mkS None None false false false thr0 thr0 thr0.

Definition get (s : state) (t : tid) : thr := match t with TW => tw s | TS => ts s | TE => te s end.
Definition put (s : state) (t : tid) (x : thr) : state :=
  match t with
  | TW => mkS (l0 s) (l1 s) (flag s) (q s) (wc s) x (ts s) (te s)
  | TS => mkS (l0 s) (l1 s) (flag s) (q s) (wc s) (tw s) x (te s)
  | TE => mkS (l0 s) (l1 s) (flag s) (q s) (wc s) (tw s) (ts s) x
  end.

Definition set_pc (x : thr) (n : nat) : thr :=
  mkT n (r x) (ret x) (tout x) (pk x) (m_exc x) (m_fin x) (m_sig x) (m_tmo x) (late x).
Definition set_r (x : thr) (b : bool) : thr :=
  mkT (pc x) b (ret x) (tout x) (pk x) (m_exc x) (m_fin x) (m_sig x) (m_tmo x) (late x).
Definition set_ret (x : thr) (b : bool) : thr :=
  mkT (pc x) (r x) b (tout x) (pk x) (m_exc x) (m_fin x) (m_sig x) (m_tmo x) (late x).
Definition set_tout (x : thr) (b : bool) : thr :=
  mkT (pc x) (r x) (ret x) b (pk x) (m_exc x) (m_fin x) (m_sig x) (m_tmo x) (late x).
Definition set_pk (x : thr) (p : park) : thr :=
  mkT (pc x) (r x) (ret x) (tout x) p (m_exc x) (m_fin x) (m_sig x) (m_tmo x) (late x).
Definition set_mark (x : thr) (k : nat) : thr :=
  match k with
  | 0 => mkT (pc x) (r x) (ret x) (tout x) (pk x) true (m_fin x) (m_sig x) (m_tmo x) (late x)
  | 1 => mkT (pc x) (r x) (ret x) (tout x) (pk x) (m_exc x) true (m_sig x) (m_tmo x) (late x)
  | 2 => mkT (pc x) (r x) (ret x) (tout x) (pk x) (m_exc x) (m_fin x) true (m_tmo x) (late x)
  | _ => mkT (pc x) (r x) (ret x) (tout x) (pk x) (m_exc x) (m_fin x) (m_sig x) true (late x)
  end.
Definition set_late (x : thr) (b : bool) : thr :=
  mkT (pc x) (r x) (ret x) (tout x) (pk x) (m_exc x) (m_fin x) (m_sig x) (m_tmo x) b.

Definition set_lock (s : state) (l : nat) (o : option tid) : state :=
  match l with
  | 0 => mkS o (l1 s) (flag s) (q s) (wc s) (tw s) (ts s) (te s)
  | _ => mkS (l0 s) o (flag s) (q s) (wc s) (tw s) (ts s) (te s)
  end.
Definition lock_of (s : state) (l : nat) : option tid := match l with 0 => l0 s | _ => l1 s end.
Definition set_flag (s : state) (b : bool) := mkS (l0 s) (l1 s) b (q s) (wc s) (tw s) (ts s) (te s).
Definition set_q (s : state) (b : bool) := mkS (l0 s) (l1 s) (flag s) b (wc s) (tw s) (ts s) (te s).
Definition set_wc (s : state) (b : bool) := mkS (l0 s) (l1 s) (flag s) (q s) b (tw s) (ts s) (te s).

Definition tid_eqb (a b : tid) : bool :=
  match a, b with TW, TW | TS, TS | TE, TE => true | _, _ => false end.

(* notify_all on the queue condition / Event.set: mark every parked thread *)
Definition notify_thr (x : thr) : thr :=
  match pk x with ParkCv _ to tm => set_pk x (ParkCv true to tm) | _ => x end.
Definition notify_all (s : state) : state :=
  mkS (l0 s) (l1 s) (flag s) (q s) (wc s) (notify_thr (tw s)) (notify_thr (ts s)) (notify_thr (te s)).
Definition wake_ev_thr (x : thr) : thr :=
  match pk x with ParkEv _ to tm => set_pk x (ParkEv true to tm) | _ => x end.
Definition wake_ev_all (s : state) : state :=
  mkS (l0 s) (l1 s) (flag s) (q s) (wc s) (wake_ev_thr (tw s)) (wake_ev_thr (ts s)) (wake_ev_thr (te s)).

Definition visible (i : instr) : bool :=
  match i with Acq _ | WaitCv _ | SetFlag | ReadFlag | EvWait _ => true | _ => false end.

(* what the harness can observe about a visible step *)
Inductive obs :=
| OAcq (l : nat) | OPark | OResume (notified : bool) | OSet | ORead (b : bool)
| OEvWait (immediate : bool)   (* Event.wait found the flag set (true) or parked (false) *)
| OEvResume (signaled : bool).

Definition obs_eqb (a b : obs) : bool :=
  match a, b with
  | OAcq l, OAcq l' => Nat.eqb l l'
  | OPark, OPark | OSet, OSet => true
  | OResume x, OResume y | ORead x, ORead y | OEvWait x, OEvWait y | OEvResume x, OEvResume y => Bool.eqb x y
  | _, _ => false
  end.

Section Machine.
  Variable prog : tid -> list instr.

  Definition fetch (t : tid) (n : nat) : instr := nth n (prog t) Halt.

  (* run internal instructions of thread t until a visible one or Halt (fuel-bounded) *)
  Fixpoint internal (fuel : nat) (s : state) (t : tid) : state :=
    match fuel with
    | 0 => s
    | S f =>
        let x := get s t in
        let nxt := set_pc x (S (pc x)) in
        match fetch t (pc x) with
        | Rel l => internal f (put (set_lock s l None) t nxt) t
        | NotifyCv => internal f (put (notify_all s) t nxt) t
        | ReadQ => internal f (put s t (set_r nxt (q s))) t
        | SetQ b => internal f (put (set_q s b) t nxt) t
        | ReadWc => internal f (put s t (set_r nxt (wc s))) t
        | SetWc b => internal f (put (set_wc s b) t nxt) t
        | JmpIf k => internal f (put s t (if r x then set_pc x k else nxt)) t
        | JmpIfNot k => internal f (put s t (if r x then nxt else set_pc x k)) t
        | Jmp k => internal f (put s t (set_pc x k)) t
        | SetRet b => internal f (put s t (set_ret nxt b)) t
        | JmpIfRet k => internal f (put s t (if ret x then set_pc x k else nxt)) t
        | JmpIfTO k => internal f (put s t (if tout x then set_pc x k else nxt)) t
        | SetTO b => internal f (put s t (set_tout nxt b)) t
        | Mark k => internal f (put s t (set_mark nxt k)) t
        | MarkLate => internal f (put s t (set_late nxt (flag s))) t
        | _ => s       (* visible instruction or Halt: stop here *)
        end
    end.

  Definition FUEL := 64.

  (* one scheduling step of thread t; None = not enabled *)
  Definition step (s : state) (t : tid) : option (state * obs) :=
    let x := get s t in
    match pk x with
    | ParkCv n to tm =>
        (* resume from Condition.wait: re-acquire lock 0 *)
        if (n || to) then
          match l0 s with
          | None =>
              let x' := set_pk (set_tout (set_r x n) (negb n && to)) Run in
              Some (internal FUEL (put (set_lock s 0 (Some t)) t x') t, OResume n)
          | Some _ => None
          end
        else None
    | ParkEv w to tm =>
        if (w || to) then
          let x' := set_pk (set_r x w) Run in
          Some (internal FUEL (put s t x') t, OEvResume w)
        else None
    | Run =>
        let nxt := set_pc x (S (pc x)) in
        match fetch t (pc x) with
        | Acq l =>
            match lock_of s l with
            | None => Some (internal FUEL (put (set_lock s l (Some t)) t nxt) t, OAcq l)
            | Some _ => None
            end
        | WaitCv tm =>
            Some (put (set_lock s 0 None) t (set_pk nxt (ParkCv false false tm)), OPark)
        | SetFlag =>
            Some (internal FUEL (put (wake_ev_all (set_flag s true)) t nxt) t, OSet)
        | ReadFlag =>
            Some (internal FUEL (put s t (set_r nxt (flag s))) t, ORead (flag s))
        | EvWait tm =>
            if flag s then Some (internal FUEL (put s t (set_r nxt true)) t, OEvWait true)
            else Some (put s t (set_pk nxt (ParkEv false false tm)), OEvWait false)
        | _ => None      (* Halt (or a stuck internal instruction: excluded by [wf_start]) *)
        end
    end.

  (* passage of time: a parked, timed, not-yet-woken waiter times out *)
  Definition timeout (s : state) (t : tid) : option state :=
    let x := get s t in
    match pk x with
    | ParkCv false false true => Some (put s t (set_pk x (ParkCv false true true)))
    | ParkEv false false true => Some (put s t (set_pk x (ParkEv false true true)))
    | _ => None
    end.

  Definition opt_list {A} (o : option A) : list A := match o with Some a => [a] | None => [] end.
  Definition step_st (s : state) (t : tid) : list state := opt_list (option_map fst (step s t)).

  (* core steps: the task thread and the stopper only, no passage of time, no help from signals *)
  Definition core_succ (s : state) : list state := step_st s TW ++ step_st s TS.
  (* all steps *)
  Definition succ (s : state) : list state :=
    core_succ s ++ step_st s TE ++ opt_list (timeout s TW) ++ opt_list (timeout s TS) ++ opt_list (timeout s TE).

  (* initial state: run the leading internal instructions of each thread *)
  Definition start : state := internal FUEL (internal FUEL (internal FUEL init TW) TS) TE.

  Definition done (s : state) (t : tid) : bool :=
    match pk (get s t), fetch t (pc (get s t)) with Run, Halt => true | _, _ => false end.

  (* trace acceptance for the correspondence: (thread, observation) pairs; a timeout is (t, None) *)
  Fixpoint accept (s : state) (tr : list (tid * option obs)) : option state :=
    match tr with
    | [] => Some s
    | (t, None) :: rest => match timeout s t with Some s' => accept s' rest | None => None end
    | (t, Some o) :: rest =>
        match step s t with
        | Some (s', o') => if obs_eqb o o' then accept s' rest else None
        | None => None
        end
    end.
End Machine.

(* ---- the programs -------------------------------------------------------------------------- *)

(* stop_task, after the state check: set the flag FIRST, then look up the registered condition
   under _wait_cond_lock, then notify it under its own lock. *)
Definition prog_stopper : list instr :=
  [ SetFlag; Acq 1; ReadWc; Rel 1; JmpIfNot 8; Acq 0; NotifyCv; Rel 0; Halt ].

(* _receive_signal, any number of times *)
Definition prog_env : list instr := [ Acq 0; SetQ true; NotifyCv; Rel 0; Jmp 0 ].
Definition prog_noenv : list instr := [ Halt ].
(* another (non-task) thread blocked in get_next_signal(timeout=None) on the SAME receiver: a second
   waiter on the queue condition *)
Definition prog_reader : list instr :=
  [ Acq 0; ReadQ; JmpIf 5; WaitCv false; Jmp 1; SetQ false; Rel 0; Halt ].

(* get_next_signal(timeout) called by the task thread (timed = timeout is not None) *)
Definition prog_getsig (timed : bool) : list instr :=
  [ (* 0*) MarkLate;
    (* 1*) Acq 0;                 (* with self._queue_cond *)
    (* 2*) ReadQ;                 (* if len(self._queue) == 0 *)
    (* 3*) JmpIf 29;
    (* 4*) Acq 1;                 (* wait_for_condition: with self._wait_cond_lock *)
    (* 5*) SetWc true;            (*   self._wait_cond = cond *)
    (* 6*) Rel 1;
    (* 7*) ReadQ;                 (* wait_for: predicate() or stop_requested.is_set() *)
    (* 8*) JmpIf 14;
    (* 9*) ReadFlag;
    (*10*) JmpIf 14;
    (*11*) JmpIfTO 16;            (* previous wait timed out: waittime <= 0 -> break *)
    (*12*) WaitCv timed;
    (*13*) Jmp 7;
    (*14*) SetRet true;
    (*15*) Jmp 17;
    (*16*) SetRet false;
    (*17*) ReadFlag;              (* if self.task._stop_requested.is_set(): raise QMI_TaskStopException *)
    (*18*) JmpIf 24;
    (*19*) Acq 1;                 (* finally: with self._wait_cond_lock: self._wait_cond = None *)
    (*20*) SetWc false;
    (*21*) Rel 1;
    (*22*) JmpIfRet 29;
    (*23*) Jmp 32;                (* not ret: raise QMI_TimeoutException *)
    (*24*) Acq 1;                 (* finally on the exception path *)
    (*25*) SetWc false;
    (*26*) Rel 1;
    (*27*) Mark 0;
    (*28*) Jmp 33;
    (*29*) SetQ false;            (* return self._queue.popleft() *)
    (*30*) Mark 2;
    (*31*) Jmp 33;
    (*32*) Mark 3;
    (*33*) Rel 0;                 (* leaving `with self._queue_cond` *)
    (*34*) Halt ].

(* get_next_signal(timeout=0) called by the task thread (a task polling its receiver): the same code as
   prog_getsig true, where Condition.wait(0) releases and re-takes the queue lock without parking *)
Definition prog_getsig_poll : list instr :=
  [ MarkLate;
    Acq 0;                 (* with self._queue_cond *)
    ReadQ;                 (* if len(self._queue) == 0 *)
    JmpIf 31;
    Acq 1;                 (* wait_for_condition: with self._wait_cond_lock *)
    SetWc true;            (*   self._wait_cond = cond *)
    Rel 1;
    ReadQ;                 (* wait_for: predicate() or stop_requested.is_set() *)
    JmpIf 16;
    ReadFlag;
    JmpIf 16;
    JmpIfTO 18;            (* previous wait timed out: waittime <= 0 -> break *)
    Rel 0; Acq 0; SetTO true;   (* Condition.wait(0): release the lock, find the wait expired, take the lock again (never parks; a later notify finds no waiter) *)
    Jmp 7;
    SetRet true;
    Jmp 19;
    SetRet false;
    ReadFlag;              (* if self.task._stop_requested.is_set(): raise QMI_TaskStopException *)
    JmpIf 26;
    Acq 1;                 (* finally: with self._wait_cond_lock: self._wait_cond = None *)
    SetWc false;
    Rel 1;
    JmpIfRet 31;
    Jmp 34;                (* not ret: raise QMI_TimeoutException *)
    Acq 1;                 (* finally on the exception path *)
    SetWc false;
    Rel 1;
    Mark 0;
    Jmp 35;
    SetQ false;            (* return self._queue.popleft() *)
    Mark 2;
    Jmp 35;
    Mark 3;
    Rel 0;                 (* leaving `with self._queue_cond` *)
    Halt ].

(* QMI_Task.sleep(duration): if self._stop_requested.wait(duration): raise QMI_TaskStopException *)
Definition prog_sleep : list instr :=
  [ MarkLate; EvWait true; JmpIf 5; Mark 3; Jmp 6; Mark 0; Halt ].

(* QMI_LoopTask.run with time_to_sleep > 0:
     try: while not stop_requested(): <work>; self.sleep(t)
     except QMI_TaskStopException: pass
     finally: self.loop_finalize() *)
Definition prog_loop : list instr :=
  [ (*0*) MarkLate; (*1*) ReadFlag; (*2*) JmpIf 8; (*3*) EvWait true; (*4*) JmpIf 6; (*5*) Jmp 1;
    (*6*) Mark 0; (*7*) Jmp 8; (*8*) Mark 1; (*9*) Halt ].

(* a loop task whose FINALISATION step itself waits (self.sleep(d) inside loop_finalize): the loop is only left after a
   stop request, so that wait starts after stop() was called and must end with the stop exception at once.
   Marks: 1 = loop_finalize entered, 0 / 3 = the wait inside it ended with the stop exception / by time-out
   (the loop's own swallowed stop exception is not marked here) *)
Definition prog_loop_finwait : list instr :=
  [ (*0*) MarkLate; (*1*) ReadFlag; (*2*) JmpIf 7; (*3*) EvWait true; (*4*) JmpIf 7; (*5*) Jmp 1; (*6*) Jmp 7;
    (*7*) Mark 1; (*8*) EvWait true; (*9*) JmpIf 12; (*10*) Mark 3; (*11*) Jmp 13; (*12*) Mark 0; (*13*) Halt ].

(* the same two programs for an implementation that tests the stop flag BEFORE registering the condition (a legal
   fast path: the flag is never cleared, so raising at once is what the full procedure would do) *)
Definition prog_getsig_fast (timed : bool) : list instr :=
  [ MarkLate;
    Acq 0;
    ReadQ;
    JmpIf 31;
    ReadFlag;
    JmpIf 29;
    Acq 1;
    SetWc true;
    Rel 1;
    ReadQ;
    JmpIf 16;
    ReadFlag;
    JmpIf 16;
    JmpIfTO 18;
    WaitCv timed;
    Jmp 9;
    SetRet true;
    Jmp 19;
    SetRet false;
    ReadFlag;
    JmpIf 26;
    Acq 1;
    SetWc false;
    Rel 1;
    JmpIfRet 31;
    Jmp 34;
    Acq 1;
    SetWc false;
    Rel 1;
    Mark 0;
    Jmp 35;
    SetQ false;
    Mark 2;
    Jmp 35;
    Mark 3;
    Rel 0;
    Halt ].

Definition prog_getsig_poll_fast : list instr :=
  [ MarkLate;
    Acq 0;
    ReadQ;
    JmpIf 33;
    ReadFlag;
    JmpIf 31;
    Acq 1;
    SetWc true;
    Rel 1;
    ReadQ;
    JmpIf 18;
    ReadFlag;
    JmpIf 18;
    JmpIfTO 20;
    Rel 0;
    Acq 0;
    SetTO true;
    Jmp 9;
    SetRet true;
    Jmp 21;
    SetRet false;
    ReadFlag;
    JmpIf 28;
    Acq 1;
    SetWc false;
    Rel 1;
    JmpIfRet 33;
    Jmp 36;
    Acq 1;
    SetWc false;
    Rel 1;
    Mark 0;
    Jmp 37;
    SetQ false;
    Mark 2;
    Jmp 37;
    Mark 3;
    Rel 0;
    Halt ].

Inductive variant := VSleep | VGetSig | VGetSigTimed | VLoop | VGetSigReader | VGetSigTimedReader | VGetSigPoll
                   | VGetSigF | VGetSigTimedF | VGetSigReaderF | VGetSigTimedReaderF | VGetSigPollF
                   | VLoopFinWait.

Definition progs (v : variant) (env : bool) (t : tid) : list instr :=
  match t with
  | TS => prog_stopper
  | TE => match v with
          | VGetSigReader | VGetSigTimedReader | VGetSigReaderF | VGetSigTimedReaderF => prog_reader
          | _ => if env then prog_env else prog_noenv
          end
  | TW => match v with
          | VSleep => prog_sleep
          | VGetSig | VGetSigReader => prog_getsig false
          | VGetSigTimed | VGetSigTimedReader => prog_getsig true
          | VLoop => prog_loop
          | VGetSigPoll => prog_getsig_poll
          | VGetSigF | VGetSigReaderF => prog_getsig_fast false
          | VGetSigTimedF | VGetSigTimedReaderF => prog_getsig_fast true
          | VGetSigPollF => prog_getsig_poll_fast
          | VLoopFinWait => prog_loop_finwait
          end
  end.
