(* C11 correspondence: a schedule of the real code, recorded by the deterministic scheduler as the
   sequence of (thread, observed synchronisation operation), must be a path of the model, and the
   outcome observed on the real task must be the one the model reaches. *)
Require Export QV.Lib.Corr QV.C11.Model.

(* variant, env present, trace, observed (finished, stop-exception, got-signal, timed-out, finalized) *)
Definition case := (variant * bool * list (tid * option obs) * (bool * bool * bool * bool * bool))%type.

Definition model_out (c : case) : option (bool * bool * bool * bool * bool) :=
  let '(v, env, tr, _) := c in
  match accept (progs v env) (start (progs v env)) tr with
  | Some s =>
      (* QMI_LoopTask.run swallows the stop exception: whether the loop left through the exception
         or through stop_requested() is not observable from outside, so it is not compared *)
      let exc := match v with VLoop => false | _ => m_exc (tw s) end in
      Some (done (progs v env) s TW, exc, m_sig (tw s), m_tmo (tw s), m_fin (tw s))
  | None => None
  end.

Definition b5_eqb (a b : bool * bool * bool * bool * bool) : bool :=
  let '(a1, a2, a3, a4, a5) := a in let '(b1, b2, b3, b4, b5) := b in
  Bool.eqb a1 b1 && Bool.eqb a2 b2 && Bool.eqb a3 b3 && Bool.eqb a4 b4 && Bool.eqb a5 b5.

Definition check_one (c : case) : bool :=
  let '(_, _, _, o) := c in
  match model_out c with Some m => b5_eqb m o | None => false end.

(* The property leaves open whether wait_for_condition looks at the stop flag before registering the condition (a
   fast path) or only inside the wait: both transcriptions are verified (every theorem quantifies over all variants),
   and a real schedule must be a path of one of them. *)
Definition fast_of (v : variant) : option variant :=
  match v with
  | VGetSig => Some VGetSigF | VGetSigTimed => Some VGetSigTimedF | VGetSigReader => Some VGetSigReaderF
  | VGetSigTimedReader => Some VGetSigTimedReaderF | VGetSigPoll => Some VGetSigPollF
  | _ => None
  end.

Definition check_case (c : case) : bool :=
  let '(v, env, tr, o) := c in
  check_one c || match fast_of v with Some v' => check_one (v', env, tr, o) | None => false end.
