(* C11 — property theorems.  [Reachable v env s]: s is reachable, by an execution of ANY length,
   of the machine running the task-side program of variant v (sleep / get_next_signal without and
   with timeout / loop task), the stop_task program, and (env = true) a thread delivering signals
   any number of times; time-outs of timed waits may fire at any moment.  The finite-state
   abstraction (receive queue = empty/non-empty; one wait per run) is part of the statement. *)
Require Import QV.Lib.LTS QV.C11.Model QV.C11.Proofs.

(* once stop() has returned the task is never parked without having been notified / woken:
   it does not wait out its timeout and does not wait forever *)
Theorem C11_released : forall v env s,
  Reachable v env s -> done (progs v env) s TS = true ->
  match pk (tw s) with Run => True | ParkCv n _ _ => n = true | ParkEv w _ _ => w = true end.
Proof.
  intros v env s R D. pose proof (released v env s R) as H. unfold inv_released in H.
  rewrite D in H. simpl in H. unfold unparked_or_released in H. destruct (pk (tw s)); auto.
Qed.
Print Assumptions C11_released.

(* a wait that starts after the stop request never parks and ends with the stop exception
   (get_next_signal may instead return a signal that was already queued; the loop task ends
   with its finalisation) *)
Theorem C11_wait_after_stop : forall v env s,
  Reachable v env s -> late (tw s) = true ->
  pk (tw s) = Run /\
  (done (progs v env) s TW = true ->
   match v with
   | VSleep => m_exc (tw s) = true
   | VGetSig | VGetSigTimed | VGetSigReader | VGetSigTimedReader | VGetSigPoll
                   | VGetSigF | VGetSigTimedF | VGetSigReaderF | VGetSigTimedReaderF | VGetSigPollF => m_exc (tw s) = true \/ m_sig (tw s) = true
   | VLoop => m_fin (tw s) = true
   | VLoopFinWait => m_fin (tw s) = true /\ m_exc (tw s) = true
   end).
Proof.
  intros v env s R L. pose proof (late_wait v env s R) as H. unfold inv_late in H.
  rewrite L in H. simpl in H. apply andb_true_iff in H as [H1 H2]. split.
  - destruct (pk (tw s)); congruence.
  - intro D. rewrite D in H2. simpl in H2.
    destruct v; auto; try (apply orb_true_iff in H2; exact H2); apply andb_true_iff in H2; exact H2.
Qed.
Print Assumptions C11_wait_after_stop.

(* the loop task runs its finalisation step on every path *)
Theorem C11_finalize : forall env s,
  Reachable VLoop env s -> done (progs VLoop env) s TW = true -> m_fin (tw s) = true.
Proof.
  intros env s R D. pose proof (finalize VLoop env s R) as H. unfold inv_finalize in H.
  rewrite D in H. exact H.
Qed.
Print Assumptions C11_finalize.

(* a wait INSIDE the finalisation step of a loop task: the loop is only left after a stop request, so this wait begins
   after stop() was called; it ends with the stop exception and never by waiting out its timeout *)
Theorem C11_finalize_wait_released : forall env s,
  Reachable VLoopFinWait env s -> done (progs VLoopFinWait env) s TW = true ->
  m_fin (tw s) = true /\ m_exc (tw s) = true /\ m_tmo (tw s) = false.
Proof.
  intros env s R D. pose proof (finalize VLoopFinWait env s R) as H. unfold inv_finalize in H.
  rewrite D in H. simpl in H. apply andb_true_iff in H as [H H3]. apply andb_true_iff in H as [H1 H2].
  apply negb_true_iff in H3. auto.
Qed.
Print Assumptions C11_finalize_wait_released.

(* a finished wait has exactly one outcome: stop exception, signal, or full timeout *)
Theorem C11_one_outcome : forall v env s,
  Reachable v env s -> done (progs v env) s TW = true -> v <> VLoop -> v <> VLoopFinWait ->
  Nat.b2n (m_exc (tw s)) + Nat.b2n (m_sig (tw s)) + Nat.b2n (m_tmo (tw s)) = 1.
Proof.
  intros v env s R D NL NL2. pose proof (outcome v env s R) as H. unfold inv_outcome in H.
  rewrite D in H. simpl in H. destruct v; try congruence; apply Nat.eqb_eq in H; exact H.
Qed.
Print Assumptions C11_one_outcome.

(* no thread finishes holding a lock, and the registration is removed *)
Theorem C11_locks_released : forall v env s, Reachable v env s -> inv_locks v env s = true.
Proof. exact locks. Qed.
Print Assumptions C11_locks_released.

(* release needs neither the passage of time nor a signal: whenever the task thread and the
   stopper both have no enabled step, both have finished (with the signal thread absent) *)
Definition has_reader (v : variant) : bool :=
  match v with VGetSigReader | VGetSigTimedReader | VGetSigReaderF | VGetSigTimedReaderF => true | _ => false end.

Theorem C11_progress_without_time : forall v s,
  has_reader v = false ->
  Reachable v false s -> core_succ (progs v false) s = [] ->
  done (progs v false) s TW = true /\ done (progs v false) s TS = true.
Proof.
  intros v s NR R E. pose proof (progress v false s R) as H. unfold inv_progress in H.
  rewrite E in H. destruct v; try discriminate NR; simpl in H;
    rewrite orb_false_r in H; apply andb_true_iff in H; exact H.
Qed.
Print Assumptions C11_progress_without_time.

(* ... and such progress is finite: every sequence of task/stopper steps (no time step, no
   signal) from a reachable state has at most 60 steps.  Together: after a stop request the task
   is released and finishes within a bounded number of its own and the stopper's steps, at
   zero elapsed (virtual) time. *)
Theorem C11_zero_virtual_time : forall v env s n,
  Reachable v env s -> CorePath state (core_succ (progs v env)) s n -> n <= 60.
Proof. exact core_paths_bounded. Qed.
Print Assumptions C11_zero_virtual_time.

(* with the signal thread (or a second reader blocked on the same receiver: variants VGetSigReader,
   VGetSigTimedReader) present the system as a whole is still never stuck *)
Theorem C11_no_deadlock : forall v env s, Reachable v env s -> inv_progress v env s = true.
Proof. exact progress. Qed.
Print Assumptions C11_no_deadlock.

(* C09's blocking half ("asking for the next signal returns one as soon as one is queued"): whenever
   a signal is queued, a reader parked in get_next_signal has been notified — it does not sleep on *)
Theorem C11_signal_wakes_reader : forall v env s,
  Reachable v env s -> q s = true ->
  match pk (tw s) with ParkCv n _ _ => n = true | _ => True end.
Proof.
  intros v env s R Q. pose proof (sigwake v env s R) as H. unfold inv_sigwake in H.
  rewrite Q in H. simpl in H. destruct (pk (tw s)); auto.
Qed.
Print Assumptions C11_signal_wakes_reader.

(* Non-vacuity: an execution in which the task registers, finds the queue empty and the flag
   clear, parks; then stop(): set flag, read the registration, notify; the task resumes, sees the
   flag, unregisters and raises the stop exception. *)
Example C11_example_park_then_stop :
  match accept (progs VGetSig false) (start (progs VGetSig false))
          [ (TW, Some (OAcq 0)); (TW, Some (OAcq 1)); (TW, Some (ORead false)); (TW, Some OPark);
            (TS, Some OSet); (TS, Some (OAcq 1)); (TS, Some (OAcq 0));
            (TW, Some (OResume true)); (TW, Some (ORead true)); (TW, Some (ORead true));
            (TW, Some (OAcq 1)) ] with
  | Some s => done (progs VGetSig false) s TW && done (progs VGetSig false) s TS && m_exc (tw s)
  | None => false
  end = true.
Proof. vm_compute. reflexivity. Qed.
