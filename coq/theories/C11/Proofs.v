(* C11 — invariants of the stop/wait protocol, established by reflection on the finite
   reachable set (Lib/LTS.v): the set is computed by vm_compute, checked closed under the
   executable successor function, hence contains every state reachable by executions of any
   length, with any number of signal deliveries and time-outs. *)
Require Import QV.Lib.LTS QV.C11.Model.

Definition opt_tid_eqb (a b : option tid) : bool :=
  match a, b with None, None => true | Some x, Some y => tid_eqb x y | _, _ => false end.
Definition park_eqb (a b : park) : bool :=
  match a, b with
  | Run, Run => true
  | ParkCv a1 a2 a3, ParkCv b1 b2 b3 | ParkEv a1 a2 a3, ParkEv b1 b2 b3 =>
      Bool.eqb a1 b1 && Bool.eqb a2 b2 && Bool.eqb a3 b3
  | _, _ => false
  end.
Definition thr_eqb (a b : thr) : bool :=
  Nat.eqb (pc a) (pc b) && Bool.eqb (r a) (r b) && Bool.eqb (ret a) (ret b) && Bool.eqb (tout a) (tout b)
  && park_eqb (pk a) (pk b) && Bool.eqb (m_exc a) (m_exc b) && Bool.eqb (m_fin a) (m_fin b)
  && Bool.eqb (m_sig a) (m_sig b) && Bool.eqb (m_tmo a) (m_tmo b) && Bool.eqb (late a) (late b).
Definition state_eqb (a b : state) : bool :=
  opt_tid_eqb (l0 a) (l0 b) && opt_tid_eqb (l1 a) (l1 b) && Bool.eqb (flag a) (flag b)
  && Bool.eqb (q a) (q b) && Bool.eqb (wc a) (wc b)
  && thr_eqb (tw a) (tw b) && thr_eqb (ts a) (ts b) && thr_eqb (te a) (te b).

Ltac split_andb :=
  repeat match goal with H : _ && _ = true |- _ => apply andb_true_iff in H; destruct H end.

Lemma tid_eqb_sound a b : tid_eqb a b = true -> a = b.
Proof. destruct a, b; simpl; congruence. Qed.
Lemma opt_tid_eqb_sound a b : opt_tid_eqb a b = true -> a = b.
Proof. destruct a, b; simpl; try congruence. intro H; apply tid_eqb_sound in H; congruence. Qed.
Lemma park_eqb_sound a b : park_eqb a b = true -> a = b.
Proof.
  destruct a, b; simpl; try congruence; intro H; split_andb;
    repeat match goal with H : Bool.eqb _ _ = true |- _ => apply eqb_prop in H end; congruence.
Qed.
Lemma thr_eqb_sound a b : thr_eqb a b = true -> a = b.
Proof.
  unfold thr_eqb. intro H. split_andb. destruct a, b; simpl in *.
  repeat match goal with
         | H : Bool.eqb _ _ = true |- _ => apply eqb_prop in H
         | H : Nat.eqb _ _ = true |- _ => apply Nat.eqb_eq in H
         | H : park_eqb _ _ = true |- _ => apply park_eqb_sound in H
         end. congruence.
Qed.
Lemma state_eqb_sound a b : state_eqb a b = true -> a = b.
Proof.
  unfold state_eqb. intro H. split_andb. destruct a, b; simpl in *.
  repeat match goal with
         | H : Bool.eqb _ _ = true |- _ => apply eqb_prop in H
         | H : opt_tid_eqb _ _ = true |- _ => apply opt_tid_eqb_sound in H
         | H : thr_eqb _ _ = true |- _ => apply thr_eqb_sound in H
         end. congruence.
Qed.

(* ---- instances --------------------------------------------------------------------------- *)

Definition reach_set (v : variant) (env : bool) : list state :=
  explore state state_eqb (succ (progs v env)) (start (progs v env)) 400.

Definition is_closed (v : variant) (env : bool) : bool :=
  closed state state_eqb (succ (progs v env)) (start (progs v env)) (reach_set v env).

Definition Reachable (v : variant) (env : bool) : state -> Prop :=
  Reach state (succ (progs v env)) (start (progs v env)).

Definition unparked_or_released (x : thr) : bool :=
  match pk x with
  | Run => true
  | ParkCv n _ _ => n
  | ParkEv w _ _ => w
  end.

(* I1: once the stop call has returned the task is not parked un-notified *)
Definition inv_released (v : variant) (env : bool) (s : state) : bool :=
  implb (done (progs v env) s TS) (unparked_or_released (tw s)).

(* I2: a wait that begins after the stop request never parks, and ends with the stop exception
   (get_next_signal may instead hand out a signal that was already queued) *)
Definition inv_late (v : variant) (env : bool) (s : state) : bool :=
  implb (late (tw s))
        (match pk (tw s) with Run => true | _ => false end
         && implb (done (progs v env) s TW)
                  (match v with
                   | VGetSig | VGetSigTimed | VGetSigReader | VGetSigTimedReader | VGetSigPoll
                   | VGetSigF | VGetSigTimedF | VGetSigReaderF | VGetSigTimedReaderF | VGetSigPollF => m_exc (tw s) || m_sig (tw s)
                   | VSleep => m_exc (tw s)
                   | VLoop => m_fin (tw s)
                   | VLoopFinWait => m_fin (tw s) && m_exc (tw s)
                   end)).

(* I3: the loop task runs loop_finalize on every path *)
Definition inv_finalize (v : variant) (env : bool) (s : state) : bool :=
  match v with
  | VLoop => implb (done (progs v env) s TW) (m_fin (tw s))
  | VLoopFinWait => implb (done (progs v env) s TW) (m_fin (tw s) && m_exc (tw s) && negb (m_tmo (tw s)))
  | _ => true
  end.

(* I4: exactly one outcome; a task released because of the stop request raised the stop exception:
   if the stop call has returned and the task is done, it either raised the stop exception or had
   completed its wait (signal / full timeout) by its own last look at the flag *)
Definition inv_outcome (v : variant) (env : bool) (s : state) : bool :=
  implb (done (progs v env) s TW)
        (match v with
         | VLoop | VLoopFinWait => m_fin (tw s)
         | _ => Nat.eqb (Nat.b2n (m_exc (tw s)) + Nat.b2n (m_sig (tw s)) + Nat.b2n (m_tmo (tw s))) 1
         end).

(* I5: mutual exclusion on both locks is structural (a single owner field); registered condition
   implies the task is inside wait_for_condition; no lock is held by a finished thread *)
Definition holds (s : state) (t : tid) : bool :=
  opt_tid_eqb (l0 s) (Some t) || opt_tid_eqb (l1 s) (Some t).
Definition inv_locks (v : variant) (env : bool) (s : state) : bool :=
  implb (done (progs v env) s TW) (negb (holds s TW) && negb (wc s))
  && implb (done (progs v env) s TS) (negb (holds s TS)).

(* progress without passage of time and without signals: if neither the task nor the stopper can
   take a step, both have finished *)
Definition inv_progress (v : variant) (env : bool) (s : state) : bool :=
  match core_succ (progs v env) s with
  | [] => done (progs v env) s TW && done (progs v env) s TS
          || (* with the environment thread present it may be the one holding lock 0 *)
             ((env || match v with VGetSigReader | VGetSigTimedReader | VGetSigReaderF | VGetSigTimedReaderF => true | _ => false end)
              && match step (progs v env) s TE with Some _ => true | None => false end)
  | _ => true
  end.

(* core paths (task + stopper, no time, no signals) are bounded: a rank table computed by
   relaxation strictly decreases along every core step *)
Definition rtable (v : variant) (env : bool) : list (state * nat) :=
  rank_table state state_eqb (core_succ (progs v env)) 60 (reach_set v env).
Definition rank (v : variant) (env : bool) (s : state) : nat := lookup state state_eqb (rtable v env) s.

(* I6: a waiting reader is woken as soon as a signal is queued: whenever the queue is non-empty,
   a task parked on the queue condition has been notified *)
Definition inv_sigwake (v : variant) (env : bool) (s : state) : bool :=
  implb (q s) (match pk (tw s) with ParkCv n _ _ => n | _ => true end).

Definition all_inv (v : variant) (env : bool) (s : state) : bool :=
  inv_released v env s && inv_late v env s && inv_finalize v env s && inv_outcome v env s
  && inv_locks v env s && inv_progress v env s && inv_sigwake v env s.

Lemma check_all : forall v env,
  closed state state_eqb (succ (progs v env)) (start (progs v env)) (reach_set v env) = true /\
  forallb (all_inv v env) (reach_set v env) = true.
Proof. intros [] []; split; vm_compute; reflexivity. Qed.

Lemma check_rank_all : forall v env,
  let t := rtable v env in
  rank_ok state (core_succ (progs v env)) (lookup state state_eqb t) (reach_set v env) = true /\
  forallb (fun s => Nat.leb (lookup state state_eqb t s) 60) (reach_set v env) = true.
Proof. intros [] []; vm_compute; split; reflexivity. Qed.

Lemma reachable_all_inv v env s : Reachable v env s -> all_inv v env s = true.
Proof.
  intro R. destruct (check_all v env) as [Hc Hi].
  exact (closed_set_invariant state state_eqb state_eqb_sound (succ (progs v env)) (start (progs v env))
           (reach_set v env) (all_inv v env) Hc Hi s R).
Qed.

Ltac use_inv R :=
  let H := fresh in
  pose proof (reachable_all_inv _ _ _ R) as H; unfold all_inv in H;
  repeat match goal with H : _ && _ = true |- _ => apply andb_true_iff in H; destruct H end.

Theorem released v env s : Reachable v env s -> inv_released v env s = true.
Proof. intro R; use_inv R; assumption. Qed.
Theorem late_wait v env s : Reachable v env s -> inv_late v env s = true.
Proof. intro R; use_inv R; assumption. Qed.
Theorem finalize v env s : Reachable v env s -> inv_finalize v env s = true.
Proof. intro R; use_inv R; assumption. Qed.
Theorem outcome v env s : Reachable v env s -> inv_outcome v env s = true.
Proof. intro R; use_inv R; assumption. Qed.
Theorem locks v env s : Reachable v env s -> inv_locks v env s = true.
Proof. intro R; use_inv R; assumption. Qed.
Theorem progress v env s : Reachable v env s -> inv_progress v env s = true.
Proof. intro R; use_inv R; assumption. Qed.
Theorem sigwake v env s : Reachable v env s -> inv_sigwake v env s = true.
Proof. intro R; use_inv R; assumption. Qed.

Lemma core_incl v env s s' : In s' (core_succ (progs v env) s) -> In s' (succ (progs v env) s).
Proof. unfold succ. intro H. apply in_or_app. left. exact H. Qed.

Theorem core_paths_bounded v env s n :
  Reachable v env s -> CorePath state (core_succ (progs v env)) s n -> n <= 60.
Proof.
  intros R P.
  destruct (check_all v env) as [Hc _]. pose proof (check_rank_all v env) as Hrb. cbv zeta in Hrb. destruct Hrb as [Hr Hb].
  pose proof (rank_bound state state_eqb state_eqb_sound (succ (progs v env)) (start (progs v env))
                (core_succ (progs v env)) (core_incl v env) (lookup state state_eqb (rtable v env)) (reach_set v env) Hc Hr s n R P) as Hn.
  rewrite forallb_forall in Hb.
  assert (Hin : In s (reach_set v env)).
  { exact (closed_reach state state_eqb state_eqb_sound (succ (progs v env)) (start (progs v env))
             (reach_set v env) Hc s R). }
  specialize (Hb s Hin). apply Nat.leb_le in Hb. eapply Nat.le_trans; eassumption.
Qed.
