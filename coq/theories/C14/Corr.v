(* C14 correspondence: what the real create_transport / TransportDescriptorParser.parse_parameter_strings
   did on a case must be a member of the set of outcomes the model allows for it (Model.allowed:
   the code's pinned behaviour, plus what the property leaves open).

   The library functions of the model (int(), int(.,16), float(), host syntax) are instantiated by
   finite answer tables the harness fills with the REAL functions' answers to the questions
   [Model.queries] lists for the case (two passes: first [flat_queries], then [check_case]).
   A question missing from the tables makes the case fail ([MUncovered]).

   The entry list (regenerated tables) is a parameter: the case files pass QVgen.C14Tables.entries. *)
Require Export QV.Lib.Corr QV.C14.Model.
Open Scope N_scope.

Fixpoint assoc {A} (k : str) (l : list (str * A)) : option A :=
  match l with
  | [] => None
  | (k', a) :: r => if str_eqb k k' then Some a else assoc k r
  end.

(* answers: int(), int(.,16), float() as bits, host predicate *)
Definition libT := (list (str * option Z) * list (str * option Z) * list (str * option N) * list (str * bool))%type.

Definition l_int (L : libT) (s : str) : option Z := let '(a, _, _, _) := L in match assoc s a with Some x => x | None => None end.
Definition l_hex (L : libT) (s : str) : option Z := let '(_, a, _, _) := L in match assoc s a with Some x => x | None => None end.
Definition l_float (L : libT) (s : str) : option N := let '(_, _, a, _) := L in match assoc s a with Some x => x | None => None end.
Definition l_host (L : libT) (s : str) : bool := let '(_, _, _, a) := L in match assoc s a with Some x => x | None => false end.

Definition answered (L : libT) (q : N * str) : bool :=
  let '(a, b, c, d) := L in
  match fst q with
  | 0 => match assoc (snd q) a with Some _ => true | None => false end
  | 1 => match assoc (snd q) b with Some _ => true | None => false end
  | 2 => match assoc (snd q) c with Some _ => true | None => false end
  | _ => match assoc (snd q) d with Some _ => true | None => false end
  end.

(* gethostbyname("localhost") is stubbed to this by the harness *)
Definition ip_localhost : str := str_of "127.0.0.1".

Inductive mode := MCreate | MParse (T : table).

Inductive obs :=
| ODict (d : dict)                       (* parse_parameter_strings returned this dict *)
| OTransport (kcode : N) (args : dict)   (* create_transport returned a transport of this class *)
| OErr                                   (* QMI_TransportDescriptorException *)
| OEsc                                   (* any other exception (flagged by the harness oracle) *)
| OUncovered.                            (* model side only: a library question was not answered *)

Definition kind_code (k : kind) : N :=
  match k with KSerial => 0 | KTcp => 1 | KUdp _ => 2 | KUsbTmc => 3 | KVxi11 => 4 | KUnavailable => 5 end.

Definition qcase := (mode * str * dict)%type.
Definition case := (mode * str * dict * libT * obs)%type.

Definition case_table (E : list entry) (m : mode) (s : str) : option table :=
  match m with
  | MParse T => Some T
  | MCreate => option_map e_tbl (find_entry E (lower (hd [] (tokenise s))))
  end.

Definition case_queries (E : list entry) (q : qcase) : list (N * str) :=
  let '(m, s, d) := q in
  match case_table E m s with
  | Some T => queries T d s
  | None => []
  end.

(* pass 1: the questions of a case, flattened as kind, length, code points ... *)
Definition flat_queries (E : list entry) (q : qcase) : list N :=
  flat_map (fun ks => fst ks :: N.of_nat (List.length (snd ks)) :: snd ks) (case_queries E q).

Definition covered (E : list entry) (c : case) : bool :=
  let '(m, s, d, L, _) := c in
  forallb (answered L) ((3, ip_localhost) :: case_queries E (m, s, d)).

Definition obs_of_parse (r : res dict) : obs := match r with Ok ps => ODict ps | Err => OErr end.
Definition obs_of_create (r : res transport) : obs :=
  match r with Ok t => OTransport (kind_code (tr_kind t)) (tr_args t) | Err => OErr end.

(* what the code does today (first element of the allowed set) - shown in reports *)
Definition model_out (E : list entry) (c : case) : obs :=
  let '(m, s, d, L, _) := c in
  if negb (covered E c) then OUncovered
  else
    match m with
    | MParse T => obs_of_parse (parse (l_int L) (l_hex L) (l_float L) T d s)
    | MCreate => obs_of_create (create (l_int L) (l_hex L) (l_float L) (l_host L) ip_localhost E d s)
    end.

(* every outcome the property allows on this case (Model.allowed / Model.allowed_parse) *)
Definition model_allowed (E : list entry) (c : case) : list obs :=
  let '(m, s, d, L, _) := c in
  if negb (covered E c) then [OUncovered]
  else
    match m with
    | MParse T => map obs_of_parse (allowed_parse (l_int L) (l_hex L) (l_float L) T d s)
    | MCreate => map obs_of_create (allowed (l_int L) (l_hex L) (l_float L) (l_host L) ip_localhost E d s)
    end.

Definition value_eqb (a b : value) : bool :=
  match a, b with
  | VStr x, VStr y => str_eqb x y
  | VInt x, VInt y => Z.eqb x y
  | VFloat x, VFloat y => N.eqb x y
  | VBool x, VBool y => Bool.eqb x y
  | VNone, VNone => true
  | _, _ => false
  end.

(* equality of dictionaries as maps (both sides have distinct keys: a Python dict / canon / fill over
   distinct names): same size and every binding of a is a binding of b.  The ORDER of the bindings is
   not compared: the order of a keyword table or of constructor parameters carries no meaning. *)
Definition dict_eqb (a b : dict) : bool :=
  Nat.eqb (List.length a) (List.length b)
  && forallb (fun kv => match get (fst kv) b with Some v => value_eqb (snd kv) v | None => false end) a
  && nodupb (map fst a) && nodupb (map fst b).

Definition obs_agree (model impl : obs) : bool :=
  match model, impl with
  | ODict a, ODict b => dict_eqb a b
  | OTransport k a, OTransport k' b => N.eqb k k' && dict_eqb a b
  | OErr, OErr => true
  | OErr, OEsc => true        (* the model demands the descriptor error; the escape itself is the oracle's finding *)
  | _, _ => false
  end.

(* the observed outcome must be one of the allowed ones *)
Definition check_case (E : list entry) (c : case) : bool :=
  let '(_, _, _, _, o) := c in existsb (fun m => obs_agree m o) (model_allowed E c).
