(* C14 — property theorems only.  Each is closed by [exact] of a lemma of Proofs.v and followed by
   Print Assumptions.

   All statements are about Model.create / Model.parse, i.e. the functions the correspondence
   evaluates against qmi.core.transport.create_transport / TransportDescriptorParser, for EVERY
   descriptor string s (list of code points), EVERY default dictionary d, EVERY list of
   well-formed entries E (parser table + constructor signature; the six real ones are regenerated
   into coq/gen/C14Tables.v where [entries_wf] is re-proved by vm_compute on every run) and EVERY
   behaviour of the library functions int(), int(.,16), float(), host syntax, gethostbyname
   (universally quantified: py_int py_hex py_float host_ok localhost_ip).

   Totality of the REAL function (no exception other than QMI_TransportDescriptorException) is not a
   theorem: in the model it holds by the result type (C14_total); for the code it is what the
   differential run checks. *)
Require Import QV.C14.Model QV.C14.Proofs.
Open Scope N_scope.

(* the model's result is a transport or the descriptor error, nothing else *)
Theorem C14_total : forall py_int py_hex py_float host_ok localhost_ip E d s,
  create py_int py_hex py_float host_ok localhost_ip E d s = Err \/
  exists t, create py_int py_hex py_float host_ok localhost_ip E d s = Ok t.
Proof. exact create_total. Qed.
Print Assumptions C14_total.

(* FAITHFUL (parse stage).  If parse accepts s then s tokenises into an interface token that
   case-folds to the table's interface and parts such that, in the returned attributes ps:
   - a keyword the string gives (last part "p=v" wins) has the typed value of v;
   - the k-th positional parameter has the typed value of the k-th part without '=';
   - a parameter the string does not give has the caller's default if it is a table parameter,
     and is absent otherwise;
   - nothing outside the table is set. *)
Theorem C14_faithful_parse : forall py_int py_hex py_float T d s ps,
  table_wf T = true -> parse py_int py_hex py_float T d s = Ok ps ->
  exists itok parts,
    tokenise s = itok :: parts /\ lower itok = t_iface T /\
    (forall p v, last_kw p (filter is_kw parts) = Some v ->
       exists prm x, find_param p (t_kw T) = Some prm /\
                     type_kw py_int py_hex py_float (pty prm) v = Some x /\ get p ps = Some x) /\
    (forall k prm tok, nth_error (t_pos T) k = Some prm -> nth_error (filter is_pos parts) k = Some tok ->
       exists x, type_pos py_int py_float (pty prm) tok = Some x /\ get (pname prm) ps = Some x) /\
    (forall p, given_nothing T parts p -> get p ps = if mem p (names T) then get p d else None) /\
    (forall p, ~ In p (names T) -> get p ps = None).
Proof. exact faithful_parse. Qed.
Print Assumptions C14_faithful_parse.

(* FAITHFUL (create_transport).  If create returns a transport t then: its class is the one
   dispatched for the case-folded interface token; the parse stage accepted with attributes ps that
   satisfy the four clauses above; and every constructor argument p of t is the attribute ps gives,
   else the constructor's own default ([arg_source]), unchanged except that the socket transports
   resolve the host "localhost" ([norm_arg]).  In particular an argument that is neither in the
   string nor in the defaults can only hold the constructor default. *)
Theorem C14_faithful : forall py_int py_hex py_float host_ok localhost_ip E d s t,
  entries_wf E = true -> create py_int py_hex py_float host_ok localhost_ip E d s = Ok t ->
  exists e itok parts ps,
    tokenise s = itok :: parts /\ In e E /\ t_iface (e_tbl e) = lower itok /\ tr_kind t = e_kind e /\
    parse py_int py_hex py_float (e_tbl e) d s = Ok ps /\
    (forall p, get p (tr_args t) = option_map (norm_arg localhost_ip (e_kind e) p) (arg_source e ps p)) /\
    (forall p v, last_kw p (filter is_kw parts) = Some v ->
       exists prm x, find_param p (t_kw (e_tbl e)) = Some prm /\
                     type_kw py_int py_hex py_float (pty prm) v = Some x /\ get p ps = Some x) /\
    (forall k prm tok, nth_error (t_pos (e_tbl e)) k = Some prm -> nth_error (filter is_pos parts) k = Some tok ->
       exists x, type_pos py_int py_float (pty prm) tok = Some x /\ get (pname prm) ps = Some x) /\
    (forall p, given_nothing (e_tbl e) parts p ->
       get p ps = if mem p (names (e_tbl e)) then get p d else None) /\
    (forall p, ~ In p (names (e_tbl e)) -> get p ps = None).
Proof. exact faithful_create. Qed.
Print Assumptions C14_faithful.

(* REQUIRED: a required parameter given neither by the string nor by the defaults is an error *)
Theorem C14_required_missing : forall py_int py_hex py_float T d s p,
  table_wf T = true -> In p (required T) ->
  (forall parts itok, tokenise s = itok :: parts -> given_nothing T parts p) ->
  get p d = None -> parse py_int py_hex py_float T d s = Err.
Proof. exact parse_missing_required. Qed.
Print Assumptions C14_required_missing.

(* a part containing '=' that has a second '=', or whose keyword is unknown, or whose value cannot
   be typed, is an error - wherever it stands and whatever else the string holds *)
Theorem C14_bad_keyword_part : forall py_int py_hex py_float T d s itok parts part,
  tokenise s = itok :: parts -> In part parts -> is_kw part = true ->
  (split_kw part = None
   \/ find_param (key part) (t_kw T) = None
   \/ (exists prm, find_param (key part) (t_kw T) = Some prm /\
                   type_kw py_int py_hex py_float (pty prm) (val part) = None)) ->
  parse py_int py_hex py_float T d s = Err.
Proof. exact parse_bad_kw_part. Qed.
Print Assumptions C14_bad_keyword_part.

(* an untypable positional value is an error *)
Theorem C14_bad_positional : forall py_int py_hex py_float T d s itok parts k prm tok,
  tokenise s = itok :: parts ->
  nth_error (t_pos T) k = Some prm -> nth_error (filter is_pos parts) k = Some tok ->
  type_pos py_int py_float (pty prm) tok = None -> parse py_int py_hex py_float T d s = Err.
Proof. exact parse_bad_positional. Qed.
Print Assumptions C14_bad_positional.

(* fewer than two fields, or an interface token that is not the table's: error *)
Theorem C14_too_short : forall py_int py_hex py_float T d s,
  (length (tokenise s) < 2)%nat -> parse py_int py_hex py_float T d s = Err.
Proof. exact parse_too_short. Qed.
Print Assumptions C14_too_short.

Theorem C14_wrong_interface : forall py_int py_hex py_float T d s,
  lower (hd [] (tokenise s)) <> t_iface T -> parse py_int py_hex py_float T d s = Err.
Proof. exact parse_wrong_interface. Qed.
Print Assumptions C14_wrong_interface.

(* ... and every parse error, and an interface no parser claims, is an error of create_transport *)
Theorem C14_create_propagates : forall py_int py_hex py_float host_ok localhost_ip E d s,
  (forall e, find_entry E (lower (hd [] (tokenise s))) = Some e ->
             parse py_int py_hex py_float (e_tbl e) d s = Err) ->
  create py_int py_hex py_float host_ok localhost_ip E d s = Err.
Proof. exact create_propagates. Qed.
Print Assumptions C14_create_propagates.

(* a descriptor written as iface:part:part:... with plain parts tokenises into exactly those *)
Theorem C14_wellformed_tokens : forall iface parts,
  no_colon iface -> iface <> [] -> Forall plain parts ->
  tokenise (iface ++ join parts) = iface :: parts.
Proof. exact tokenise_join. Qed.
Print Assumptions C14_wellformed_tokens.

(* IPV6: iface:[h]rest yields the part h for every non-empty h without newline (h may contain ':'),
   provided no ']' or '$' follows in rest *)
Theorem C14_ipv6_tokens : forall iface h rest,
  no_colon iface -> iface <> [] -> h <> [] -> no_nl h -> no_close rest ->
  tokenise (iface ++ c_colon :: c_lbr :: h ++ c_rbr :: rest) = iface :: h :: scan O rest.
Proof. exact tokenise_bracket. Qed.
Print Assumptions C14_ipv6_tokens.

(* ... and the transport created from it has host h (resolved if it is "localhost"), for every
   entry whose first positional parameter is host:str (generated obligation host_first for tcp,
   udp, vxi11) *)
Theorem C14_ipv6_host : forall py_int py_hex py_float host_ok localhost_ip E d iface h rest t e,
  entries_wf E = true ->
  no_colon iface -> iface <> [] -> h <> [] -> no_nl h -> no_close rest -> is_kw h = false ->
  find_entry E (lower iface) = Some e -> host_first e = true ->
  create py_int py_hex py_float host_ok localhost_ip E d (iface ++ c_colon :: c_lbr :: h ++ c_rbr :: rest) = Ok t ->
  get n_host (tr_args t) = Some (norm_arg localhost_ip (e_kind e) n_host (VStr h)).
Proof. exact bracket_host_create. Qed.
Print Assumptions C14_ipv6_host.

(* ROUND TRIP: "usbtmc:vendorid=0x{:04x}:productid=0x{:04x}:serialnr={}" parses back to the ids and
   the serial it was formatted from, for all 16-bit ids, every serial without ':' and '=', every
   default dictionary, and every entry of the usbtmc shape (generated obligation usbtmc_shape for
   the regenerated table + constructor).  Assumed of the library: int(.,16) reads "0x%04x" back. *)
Theorem C14_roundtrip_usbtmc : forall py_int py_hex py_float host_ok localhost_ip E d e v p serial,
  (forall x, x < 65536 -> py_hex (48 :: 120 :: hex4 x) = Some (Z.of_N x)) ->
  find_entry E (str_of "usbtmc") = Some e -> usbtmc_shape e = true ->
  v < 65536 -> p < 65536 -> no_colon serial -> no_eq serial ->
  create py_int py_hex py_float host_ok localhost_ip E d (format_resource v p serial)
  = Ok (usbtmc_result (Z.of_N v) (Z.of_N p) serial).
Proof. exact roundtrip_usbtmc. Qed.
Print Assumptions C14_roundtrip_usbtmc.

(* the law assumed of int(.,16) holds of a concrete hexadecimal reader *)
Theorem C14_hex_law_satisfiable : forall x, x < 65536 -> ex_hex (48 :: 120 :: hex4 x) = Some (Z.of_N x).
Proof. exact ex_hex_law. Qed.
Print Assumptions C14_hex_law_satisfiable.

(* ---------------------------------------------------------------------------------------------
   What the property leaves open (Model.allowed).  The correspondence accepts an observed outcome iff
   it is a member of [allowed]; the code's behaviour of today, [create], is its first element.
   ------------------------------------------------------------------------------------------- *)

(* EVERY allowed outcome is the descriptor error or a transport that is faithful in the sense of
   C14_faithful with "the last part p=v" weakened to "ONE of the parts p=v the string holds": class =
   the one dispatched for the case-folded interface token; every constructor argument = attribute else
   constructor default (localhost resolved); a keyword the string gives (once or several times) has
   the typed value of one of the given parts; the k-th positional has the typed value of the k-th
   field; what the string does not give comes from the defaults (table parameters only); nothing
   outside the table is set. *)
Theorem C14_allowed_faithful : forall py_int py_hex py_float host_ok localhost_ip E d s t,
  entries_wf E = true -> In (Ok t) (allowed py_int py_hex py_float host_ok localhost_ip E d s) ->
  faithful_any py_int py_hex py_float localhost_ip E d s t.
Proof. exact allowed_faithful. Qed.
Print Assumptions C14_allowed_faithful.

Theorem C14_allowed_has_pinned : forall py_int py_hex py_float host_ok localhost_ip E d s,
  In (create py_int py_hex py_float host_ok localhost_ip E d s)
     (allowed py_int py_hex py_float host_ok localhost_ip E d s).
Proof. exact allowed_has_pinned. Qed.
Print Assumptions C14_allowed_has_pinned.

(* NOTHING is loosened where the property is definite: for a descriptor that is strict (the plain
   rendering of its own fields), has no repeated keyword, no surplus field and only canonically
   written numbers, the only allowed outcome is [create], to which C14_faithful & co. apply *)
Theorem C14_allowed_tight : forall py_int py_hex py_float host_ok localhost_ip E d s o,
  open_err E s = false -> In o (allowed py_int py_hex py_float host_ok localhost_ip E d s) ->
  o = create py_int py_hex py_float host_ok localhost_ip E d s.
Proof. exact allowed_tight. Qed.
Print Assumptions C14_allowed_tight.

(* the documented form iface:part:part:... is strict *)
Theorem C14_wellformed_strict : forall iface parts,
  no_colon iface -> iface <> [] -> Forall plain parts -> strict (iface ++ join parts) = true.
Proof. exact strict_join. Qed.
Print Assumptions C14_wellformed_strict.

(* HISTORY INDEPENDENCE: create_transport is a function of (defaults, descriptor).  In any history of
   calls the k-th outcome is [create] of the k-th arguments, whatever was called before or after; the
   same call gives the same outcome at any position of any history.  Trivial for the (stateless)
   model - its content is that the correspondence checks the implementation against it along call
   sequences (x,x / x,y,x / rejected,rejected / same descriptor with other defaults / mixed with the
   parsers' own methods), late in a long-lived process, and under thread interleavings at line
   granularity: every outcome must equal the outcome of the same call made alone in a fresh process. *)
Theorem C14_history_independent : forall py_int py_hex py_float host_ok localhost_ip E calls k d s,
  nth_error calls k = Some (d, s) ->
  nth_error (run_history py_int py_hex py_float host_ok localhost_ip E calls) k
  = Some (create py_int py_hex py_float host_ok localhost_ip E d s).
Proof. exact history_independent. Qed.
Print Assumptions C14_history_independent.

Theorem C14_same_call_same_outcome : forall py_int py_hex py_float host_ok localhost_ip E calls calls' k k',
  nth_error calls k = nth_error calls' k' ->
  nth_error (run_history py_int py_hex py_float host_ok localhost_ip E calls) k
  = nth_error (run_history py_int py_hex py_float host_ok localhost_ip E calls') k'.
Proof. exact history_same_call_same_outcome. Qed.
Print Assumptions C14_same_call_same_outcome.

(* ---------------------------------------------------------------------------------------------
   Non-vacuity: concrete instances (library = plain decimal / 0x-hex readers, two entries)
   ------------------------------------------------------------------------------------------- *)
Example C14_ex_wf : entries_wf ex_entries = true /\ usbtmc_shape (usbtmc_entry false false true) = true
                    /\ host_first ex_tcp = true.
Proof. vm_compute. auto. Qed.

(* hypotheses of C14_faithful / C14_ipv6_host: an accepted descriptor with bracketed IPv6 host,
   a default that is overridden and one that fills in *)
Example C14_ex_create :
  create ex_int ex_hex ex_float ex_host ex_ip ex_entries
         [(n_port, VInt 7); (n_host, VStr (str_of "other")); (str_of "baudrate", VInt 1)]
         (str_of "TCP:[2620:0:2d0:200::8]")
  = Ok (mkTransport KTcp [(n_host, VStr (str_of "2620:0:2d0:200::8")); (n_port, VInt 7);
                          (str_of "connect_timeout", VInt 10)]).
Proof. vm_compute. reflexivity. Qed.

Example C14_ex_localhost :
  create ex_int ex_hex ex_float ex_host ex_ip ex_entries [] (str_of "tcp:localhost:5025")
  = Ok (mkTransport KTcp [(n_host, VStr (str_of "127.0.0.1")); (n_port, VInt 5025);
                          (str_of "connect_timeout", VInt 10)]).
Proof. vm_compute. reflexivity. Qed.

(* hypotheses of the error theorems: missing required, unknown keyword, second '=', untypable *)
Example C14_ex_errors :
  map (fun s => create ex_int ex_hex ex_float ex_host ex_ip ex_entries [] (str_of s))
      ["tcp:h"; "tcp:h:5:foo=1"; "tcp:h:5:connect_timeout=1=2"; "tcp:h:0x10"; "usbtmc:vendorid=0X1:serialnr=s";
       "tcp"; "nosuch:h:5"]%string
  = [Err; Err; Err; Err; Err; Err; Err].
Proof. vm_compute. reflexivity. Qed.

Example C14_ex_bad_part_hyps :
  tokenise (str_of "tcp:h:5:connect_timeout=1=2") = [str_of "tcp"; str_of "h"; str_of "5"; str_of "connect_timeout=1=2"]
  /\ is_kw (str_of "connect_timeout=1=2") = true /\ split_kw (str_of "connect_timeout=1=2") = None.
Proof. vm_compute. auto. Qed.

(* round trip on concrete ids *)
Example C14_ex_roundtrip :
  create ex_int ex_hex ex_float ex_host ex_ip ex_entries [] (format_resource 1689 12288 (str_of "C012345"))
  = Ok (usbtmc_result 1689 12288 (str_of "C012345"))
  /\ format_resource 1689 12288 (str_of "C012345") = str_of "usbtmc:vendorid=0x0699:productid=0x3000:serialnr=C012345".
Proof. vm_compute. auto. Qed.

(* the allowed set on a repeated keyword: either value, or the error; and only those *)
Example C14_ex_allowed_repeated :
  allowed ex_int ex_hex ex_float ex_host ex_ip ex_entries []
          (str_of "usbtmc:vendorid=1:productid=3:vendorid=2:serialnr=s")
  = [Ok (usbtmc_result 2 3 (str_of "s"));          (* the code today: the last one *)
     Ok (usbtmc_result 1 3 (str_of "s")); Ok (usbtmc_result 2 3 (str_of "s")); Err].
Proof. vm_compute. reflexivity. Qed.

(* open (the error is allowed too) / definite (only [create]) *)
Example C14_ex_open :
  map (fun s => open_err ex_entries (str_of s))
      ["tcp:[2620:0:2d0:200::8]:5025"; "tcp:h:5025"; "usbtmc:vendorid=0x0699:productid=12288:serialnr=C012345";
       "tcp:h:5:junk"; "tcp:h:+5"; ":tcp:h:5"; "tcp:[h]:5"; "tcp:[::1]x:5"; "tcp:[abc$:5"; "tcp:h:007";
       "usbtmc:vendorid=1:vendorid=1:productid=3:serialnr=s"]%string
  = [false; false; false; true; true; true; true; true; true; true; true].
Proof. vm_compute. reflexivity. Qed.

Example C14_ex_history :
  run_history ex_int ex_hex ex_float ex_host ex_ip ex_entries
              [([], str_of "tcp:h:5025"); ([], str_of "tcp"); ([], str_of "tcp"); ([(n_port, VInt 7)], str_of "tcp:h")]
  = [Ok (mkTransport KTcp [(n_host, VStr (str_of "h")); (n_port, VInt 5025); (str_of "connect_timeout", VInt 10)]);
     Err; Err;
     Ok (mkTransport KTcp [(n_host, VStr (str_of "h")); (n_port, VInt 7); (str_of "connect_timeout", VInt 10)])].
Proof. vm_compute. reflexivity. Qed.
