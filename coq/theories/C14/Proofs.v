(* C14 — lemmas about Model.v.  Part 1: strings, dictionaries, tokeniser. *)
Require Import QV.C14.Model.
From Coq Require Import List ZArith NArith Bool Lia.
Import ListNotations.
Open Scope N_scope.

(* ------------------------------------------------------------------ strings *)
Lemma str_eqb_refl : forall a, str_eqb a a = true.
Proof. induction a as [|x a IH]; simpl; [reflexivity|]. rewrite N.eqb_refl. exact IH. Qed.

Lemma str_eqb_eq : forall a b, str_eqb a b = true <-> a = b.
Proof.
  induction a as [|x a IH]; intros [|y b]; simpl; split; intro H; try reflexivity; try discriminate.
  - apply andb_true_iff in H as [H1 H2]. apply N.eqb_eq in H1. apply IH in H2. congruence.
  - inversion H; subst. rewrite N.eqb_refl. apply str_eqb_refl.
Qed.

Lemma str_eqb_neq : forall a b, str_eqb a b = false <-> a <> b.
Proof.
  intros a b. split.
  - intros H E. apply str_eqb_eq in E. congruence.
  - intro H. destruct (str_eqb a b) eqn:E; [apply str_eqb_eq in E; contradiction | reflexivity].
Qed.

Lemma str_eqb_sym : forall a b, str_eqb a b = str_eqb b a.
Proof.
  intros a b. destruct (str_eqb a b) eqn:E.
  - apply str_eqb_eq in E. subst. symmetry. apply str_eqb_refl.
  - symmetry. apply str_eqb_neq. apply str_eqb_neq in E. congruence.
Qed.

Lemma mem_In : forall x l, mem x l = true <-> In x l.
Proof.
  intros x l. unfold mem. rewrite existsb_exists. split.
  - intros [y [Hy E]]. apply str_eqb_eq in E. subst. exact Hy.
  - intro H. exists x. split; [exact H | apply str_eqb_refl].
Qed.

Lemma mem_false : forall x l, mem x l = false <-> ~ In x l.
Proof.
  intros x l. split.
  - intros H I. apply mem_In in I. congruence.
  - intro H. destruct (mem x l) eqn:E; [apply mem_In in E; contradiction | reflexivity].
Qed.

Lemma nodupb_NoDup : forall l, nodupb l = true -> NoDup l.
Proof.
  induction l as [|x l IH]; simpl; intro H; [constructor|].
  apply andb_true_iff in H as [H1 H2]. apply negb_true_iff in H1. apply mem_false in H1.
  constructor; [exact H1 | apply IH; exact H2].
Qed.

(* ------------------------------------------------------------------ dictionaries *)
Lemma get_app : forall k a b, get k (a ++ b) = match get k a with Some v => Some v | None => get k b end.
Proof.
  intros k a b. induction a as [|[k' v] a IH]; simpl; [reflexivity|].
  destruct (str_eqb k k'); [reflexivity | exact IH].
Qed.

Lemma get_In : forall k v d, get k d = Some v -> In (k, v) d.
Proof.
  intros k v d. induction d as [|[k' v'] d IH]; simpl; [discriminate|].
  destruct (str_eqb k k') eqn:E.
  - intro H. inversion H; subst. apply str_eqb_eq in E. subst. left. reflexivity.
  - intro H. right. apply IH. exact H.
Qed.

Lemma get_None_notin : forall k d, get k d = None -> ~ In k (map fst d).
Proof.
  intros k d. induction d as [|[k' v'] d IH]; simpl; [tauto|].
  destruct (str_eqb k k') eqn:E; [discriminate|].
  intros H [H1|H1].
  - subst. rewrite str_eqb_refl in E. discriminate.
  - apply IH; assumption.
Qed.

Lemma get_canon : forall p ns d, get p (canon ns d) = if mem p ns then get p d else None.
Proof.
  intros p ns d. induction ns as [|n ns IH]; [reflexivity|].
  unfold canon in *. simpl flat_map. rewrite get_app, IH. simpl mem.
  destruct (str_eqb p n) eqn:E.
  - apply str_eqb_eq in E. subst n. simpl orb.
    destruct (get p d) as [v|] eqn:G.
    + simpl. rewrite str_eqb_refl. reflexivity.
    + simpl. destruct (mem p ns); reflexivity.
  - simpl orb. destruct (get n d) as [v|]; simpl; [rewrite E|]; reflexivity.
Qed.

Lemma get_filter_key : forall (f : str -> bool) p d,
  get p (filter (fun kv => f (fst kv)) d) = if f p then get p d else None.
Proof.
  intros f p d. induction d as [|[k v] d IH]; simpl; [destruct (f p); reflexivity|].
  destruct (f k) eqn:Fk; simpl.
  - destruct (str_eqb p k) eqn:E.
    + apply str_eqb_eq in E. subst. rewrite Fk. reflexivity.
    + exact IH.
  - rewrite IH. destruct (str_eqb p k) eqn:E; [|reflexivity].
    apply str_eqb_eq in E. subst. rewrite Fk. reflexivity.
Qed.

Lemma get_set : forall p k v d,
  get p (set k v d) = if str_eqb p k then (match get k d with Some _ => Some v | None => None end) else get p d.
Proof.
  intros p k v d. induction d as [|[k' v'] d IH]; simpl.
  - destruct (str_eqb p k); reflexivity.
  - destruct (str_eqb k k') eqn:E.
    + apply str_eqb_eq in E. subst k'. simpl. destruct (str_eqb p k); reflexivity.
    + simpl. rewrite IH. destruct (str_eqb p k') eqn:E2.
      * destruct (str_eqb p k) eqn:E3; [|reflexivity].
        apply str_eqb_eq in E2. apply str_eqb_eq in E3. subst. rewrite str_eqb_refl in E. discriminate.
      * reflexivity.
Qed.

(* ------------------------------------------------------------------ tokeniser *)
Definition no_colon (s : str) : Prop := Forall (fun c => c <> c_colon) s.

Lemma takerun_app_colon : forall a b, no_colon a -> takerun (a ++ c_colon :: b) = a.
Proof.
  intros a b H. induction H as [|c a Hc H IH]; simpl.
  - reflexivity.
  - destruct (c =? c_colon) eqn:E; [apply N.eqb_eq in E; contradiction|]. rewrite IH. reflexivity.
Qed.

Lemma takerun_all : forall a, no_colon a -> takerun a = a.
Proof.
  intros a H. induction H as [|c a Hc H IH]; simpl; [reflexivity|].
  destruct (c =? c_colon) eqn:E; [apply N.eqb_eq in E; contradiction|]. rewrite IH. reflexivity.
Qed.

Lemma scan_skip : forall a b, scan (length a) (a ++ b) = scan O b.
Proof. induction a as [|c a IH]; intro b; simpl; [reflexivity | apply IH]. Qed.

Lemma scan_skip_all : forall a, scan (length a) a = [].
Proof. intro a. rewrite <- (app_nil_r a) at 2. rewrite scan_skip. reflexivity. Qed.

(* a part that alternative 3 matches as a whole: non-empty, no ':', not opening a bracket group *)
Definition plain (p : str) : Prop :=
  no_colon p /\ match p with [] => False | c :: _ => c <> c_lbr end.

Fixpoint join (parts : list str) : str :=
  match parts with
  | [] => []
  | p :: r => c_colon :: p ++ join r
  end.

Lemma join_head : forall parts, join parts = [] \/ exists r, join parts = c_colon :: r.
Proof. intros [|p r]; simpl; [left; reflexivity | right; eexists; reflexivity]. Qed.

Lemma bracket_plain : forall p r, plain p -> bracket (p ++ r) = None.
Proof.
  intros [|c p] r [_ H]; [contradiction|]. simpl.
  destruct (c =? c_lbr) eqn:E; [apply N.eqb_eq in E; contradiction | reflexivity].
Qed.

Lemma takerun_plain_join : forall p parts, no_colon p -> takerun (p ++ join parts) = p.
Proof.
  intros p parts H. destruct (join_head parts) as [E|[r E]]; rewrite E.
  - rewrite app_nil_r. apply takerun_all. exact H.
  - apply takerun_app_colon. exact H.
Qed.

Lemma scan_join : forall parts, Forall plain parts -> scan O (join parts) = parts.
Proof.
  intros parts H. induction H as [|p parts Hp H IH]; [reflexivity|].
  simpl join. cbn [scan]. rewrite N.eqb_refl.
  rewrite (bracket_plain p (join parts) Hp).
  destruct Hp as [Hnc Hne].
  rewrite (takerun_plain_join p parts Hnc).
  destruct p as [|c p]; [contradiction|].
  rewrite scan_skip, IH. reflexivity.
Qed.

(* a well-formed descriptor tokenises into its fields *)
Lemma tokenise_join : forall iface parts,
  no_colon iface -> iface <> [] -> Forall plain parts ->
  tokenise (iface ++ join parts) = iface :: parts.
Proof.
  intros iface parts Hnc Hne Hp. destruct iface as [|c iface]; [contradiction|].
  pose proof Hnc as Hnc'. inversion Hnc as [|? ? Hc Hrest]; subst.
  change ((c :: iface) ++ join parts) with (c :: (iface ++ join parts)).
  unfold tokenise. destruct (c =? c_colon) eqn:E; [apply N.eqb_eq in E; contradiction|].
  change (c :: iface ++ join parts) with ((c :: iface) ++ join parts).
  rewrite (takerun_plain_join (c :: iface) parts Hnc'), scan_skip, (scan_join parts Hp). reflexivity.
Qed.

(* bracketed part *)
Definition no_close (s : str) : Prop := Forall (fun c => is_close c = false) s.
Definition no_nl (s : str) : Prop := Forall (fun c => c <> c_nl) s.

Lemma last_close'_none : forall l, no_close l -> last_close' l = None.
Proof.
  intros l H. induction H as [|c l Hc H IH]; simpl; [reflexivity|]. rewrite IH, Hc. reflexivity.
Qed.

Lemma no_close_line : forall l, no_close l -> no_close (line l).
Proof.
  intros l H. induction H as [|c l Hc H IH]; simpl; [constructor|].
  destruct (c =? c_nl); [constructor | constructor; assumption].
Qed.

Lemma line_app_close : forall h rest, no_nl h -> line (h ++ c_rbr :: rest) = h ++ c_rbr :: line rest.
Proof.
  intros h rest H. induction H as [|c h Hc H IH]; simpl.
  - reflexivity.
  - destruct (c =? c_nl) eqn:E; [apply N.eqb_eq in E; contradiction|]. rewrite IH. reflexivity.
Qed.

Lemma last_close'_app : forall h l, no_close l -> last_close' (h ++ c_rbr :: l) = Some (length h).
Proof.
  intros h l Hl. induction h as [|c h IH]; simpl.
  - rewrite (last_close'_none l Hl). reflexivity.
  - rewrite IH. reflexivity.
Qed.

Lemma bracket_group : forall h rest, h <> [] -> no_nl h -> no_close rest ->
  bracket (c_lbr :: h ++ c_rbr :: rest) = Some (length h).
Proof.
  intros h rest Hne Hnl Hr. unfold bracket. rewrite N.eqb_refl.
  rewrite (line_app_close h rest Hnl).
  destruct h as [|c h]; [contradiction|].
  simpl app. unfold last_close.
  rewrite (last_close'_app h (line rest) (no_close_line rest Hr)). reflexivity.
Qed.

Lemma firstn_app_exact : forall (a b : str), firstn (length a) (a ++ b) = a.
Proof. induction a as [|c a IH]; intro b; simpl; [reflexivity | rewrite IH; reflexivity]. Qed.

Lemma scan_bracket : forall h rest, h <> [] -> no_nl h -> no_close rest ->
  scan O (c_colon :: c_lbr :: h ++ c_rbr :: rest) = h :: scan O rest.
Proof.
  intros h rest Hne Hnl Hr. cbn [scan]. rewrite N.eqb_refl.
  rewrite (bracket_group h rest Hne Hnl Hr). cbn [tl].
  rewrite firstn_app_exact. f_equal.

  replace (h ++ c_rbr :: rest) with ((h ++ [c_rbr]) ++ rest)
    by (rewrite <- app_assoc; reflexivity).
  replace (S (length h)) with (length (h ++ [c_rbr]))
    by (rewrite app_length; simpl; lia).
  apply scan_skip.
Qed.

Lemma tokenise_bracket : forall iface h rest,
  no_colon iface -> iface <> [] -> h <> [] -> no_nl h -> no_close rest ->
  tokenise (iface ++ c_colon :: c_lbr :: h ++ c_rbr :: rest) = iface :: h :: scan O rest.
Proof.
  intros iface h rest Hnc Hne Hh Hnl Hr. destruct iface as [|c iface]; [contradiction|].
  pose proof Hnc as Hnc'. inversion Hnc as [|? ? Hc Hrest]; subst.
  change ((c :: iface) ++ c_colon :: c_lbr :: h ++ c_rbr :: rest)
    with (c :: (iface ++ c_colon :: c_lbr :: h ++ c_rbr :: rest)).
  unfold tokenise. destruct (c =? c_colon) eqn:E; [apply N.eqb_eq in E; contradiction|].
  change (c :: iface ++ c_colon :: c_lbr :: h ++ c_rbr :: rest)
    with ((c :: iface) ++ c_colon :: c_lbr :: h ++ c_rbr :: rest).
  rewrite (takerun_app_colon (c :: iface) _ Hnc'), scan_skip.
  rewrite (scan_bracket h rest Hh Hnl Hr). reflexivity.
Qed.

(* ================================================================== Part 2: the parser *)

(* what the string gives: value text of the LAST part "p=..." *)
Fixpoint last_kw (p : str) (parts : list str) : option str :=
  match parts with
  | [] => None
  | part :: r => match last_kw p r with
                 | Some v => Some v
                 | None => if str_eqb (key part) p then Some (val part) else None
                 end
  end.

(* the LAST positional parameter named p that gets a token, with its type *)
Fixpoint pos_tok (p : str) (ps : list param) (toks : list str) : option (ty * str) :=
  match ps, toks with
  | prm :: ps', tok :: toks' =>
      match pos_tok p ps' toks' with
      | Some r => Some r
      | None => if str_eqb (pname prm) p then Some (pty prm, tok) else None
      end
  | _, _ => None
  end.

Lemma split_kw_Some : forall part k v, split_kw part = Some (k, v) -> k = key part /\ v = val part.
Proof.
  intros part k v. unfold split_kw. destruct (is_kw part && negb (is_kw (val part))); [|discriminate].
  intro H. inversion H. split; reflexivity.
Qed.

Lemma find_param_name : forall k ps prm, find_param k ps = Some prm -> pname prm = k /\ In prm ps.
Proof.
  intros k ps prm. induction ps as [|q ps IH]; simpl; [discriminate|].
  destruct (str_eqb k (pname q)) eqn:E.
  - intro H. inversion H; subst. apply str_eqb_eq in E. split; [congruence | left; reflexivity].
  - intro H. destruct (IH H) as [A B]. split; [exact A | right; exact B].
Qed.

Lemma find_param_None : forall k ps, find_param k ps = None -> ~ In k (map pname ps).
Proof.
  intros k ps. induction ps as [|q ps IH]; simpl; [tauto|].
  destruct (str_eqb k (pname q)) eqn:E; [discriminate|].
  intros H [H1|H1].
  - subst. rewrite str_eqb_refl in E. discriminate.
  - apply IH; assumption.
Qed.

Section LibProofs.
  Variable py_int : str -> option Z.
  Variable py_hex : str -> option Z.
  Variable py_float : str -> option N.
  Variable host_ok : str -> bool.
  Variable localhost_ip : str.

  Notation type_pos := (type_pos py_int py_float).
  Notation type_kw := (type_kw py_int py_hex py_float).
  Notation parse_pos := (parse_pos py_int py_float).
  Notation parse_kw := (parse_kw py_int py_hex py_float).
  Notation parse := (parse py_int py_hex py_float).
  Notation parse_toks := (parse_toks py_int py_hex py_float).
  Notation validate := (validate host_ok localhost_ip).
  Notation build := (build host_ok localhost_ip).
  Notation create := (create py_int py_hex py_float host_ok localhost_ip).

  (* every keyword part of an accepted string is well-formed, known and typable *)
  Lemma parse_kw_all : forall ks parts dk, parse_kw ks parts = Some dk ->
    Forall (fun part => exists prm x, split_kw part = Some (key part, val part) /\
                                      find_param (key part) ks = Some prm /\
                                      type_kw (pty prm) (val part) = Some x) parts.
  Proof.
    intros ks parts. induction parts as [|part r IH]; intros dk H; [constructor|].
    simpl in H. destruct (split_kw part) as [[k v]|] eqn:S; [|discriminate].
    destruct (split_kw_Some _ _ _ S) as [-> ->].
    destruct (find_param (key part) ks) as [prm|] eqn:F; [|discriminate].
    destruct (type_kw (pty prm) (val part)) as [x|] eqn:Ty; [|discriminate].
    destruct (parse_kw ks r) as [d|] eqn:R; [|discriminate].
    constructor; [exists prm, x; auto | eapply IH; reflexivity].
  Qed.

  Lemma parse_kw_get : forall ks parts dk, parse_kw ks parts = Some dk ->
    forall p, match last_kw p parts with
              | Some v => exists prm x, find_param p ks = Some prm /\ type_kw (pty prm) v = Some x /\
                                        get p (rev dk) = Some x
              | None => get p (rev dk) = None
              end.
  Proof.
    intros ks parts. induction parts as [|part r IH]; intros dk H p.
    - simpl in H. inversion H. reflexivity.
    - simpl in H. destruct (split_kw part) as [[k v]|] eqn:S; [|discriminate].
      destruct (split_kw_Some _ _ _ S) as [-> ->].
      destruct (find_param (key part) ks) as [prm|] eqn:F; [|discriminate].
      destruct (type_kw (pty prm) (val part)) as [x|] eqn:Ty; [|discriminate].
      destruct (parse_kw ks r) as [d|] eqn:R; [|discriminate].
      inversion H; subst dk. clear H.
      specialize (IH d eq_refl p). simpl rev. rewrite get_app. simpl last_kw.
      destruct (last_kw p r) as [v|].
      + destruct IH as [prm' [x' [A [B C]]]]. exists prm', x'. rewrite C. auto.
      + rewrite IH. simpl get. rewrite (str_eqb_sym p (key part)).
        destruct (str_eqb (key part) p) eqn:E; [|reflexivity].
        apply str_eqb_eq in E. subst p. exists prm, x. auto.
  Qed.

  Lemma parse_pos_get : forall ps toks dp, parse_pos ps toks = Some dp ->
    forall p, match pos_tok p ps toks with
              | Some (t, tok) => exists x, type_pos t tok = Some x /\ get p (rev dp) = Some x
              | None => get p (rev dp) = None
              end.
  Proof.
    intros ps. induction ps as [|prm ps IH]; intros toks dp H p.
    - simpl in H. inversion H. reflexivity.
    - destruct toks as [|tok toks].
      + simpl in H. inversion H. reflexivity.
      + simpl in H. destruct (type_pos (pty prm) tok) as [x|] eqn:Ty; [|discriminate].
        destruct (parse_pos ps toks) as [d|] eqn:R; [|discriminate].
        inversion H; subst dp. clear H.
        specialize (IH toks d R p). simpl rev. rewrite get_app. simpl pos_tok.
        destruct (pos_tok p ps toks) as [[t tk]|].
        * destruct IH as [x' [A B]]. exists x'. rewrite B. auto.
        * rewrite IH. simpl get. rewrite (str_eqb_sym p (pname prm)).
          destruct (str_eqb (pname prm) p) eqn:E; [|reflexivity].
          exists x. auto.
  Qed.

  (* with distinct names, "the last positional named p" is the k-th one *)
  Lemma pos_tok_nth : forall ps toks k prm tok,
    NoDup (map pname ps) -> nth_error ps k = Some prm -> nth_error toks k = Some tok ->
    pos_tok (pname prm) ps toks = Some (pty prm, tok).
  Proof.
    intros ps. induction ps as [|q ps IH]; intros toks k prm tok ND Hp Ht.
    - destruct k; discriminate.
    - destruct toks as [|t toks]; [destruct k; discriminate|].
      inversion ND as [|? ? Hnotin ND']; subst. simpl.
      destruct k as [|k].
      + simpl in Hp, Ht. inversion Hp; inversion Ht; subst.
        assert (G : pos_tok (pname prm) ps toks = None).
        { clear - Hnotin. revert toks. induction ps as [|q ps IH]; intro toks; [reflexivity|].
          destruct toks as [|t toks]; [reflexivity|]. simpl.
          rewrite IH by (intro I; apply Hnotin; right; exact I).
          destruct (str_eqb (pname q) (pname prm)) eqn:E; [|reflexivity].
          apply str_eqb_eq in E. exfalso. apply Hnotin. left. exact E. }
        rewrite G, str_eqb_refl. reflexivity.
      + simpl in Hp, Ht. rewrite (IH toks k prm tok ND' Hp Ht). reflexivity.
  Qed.

  Lemma pos_tok_name : forall p ps toks t tok, pos_tok p ps toks = Some (t, tok) -> In p (map pname ps).
  Proof.
    intros p ps. induction ps as [|q ps IH]; intros toks t tok H; [discriminate|].
    destruct toks as [|tk toks]; [discriminate|]. simpl in H.
    destruct (pos_tok p ps toks) as [[t' tok']|] eqn:R.
    - right. eapply IH. exact R.
    - destruct (str_eqb (pname q) p) eqn:E; [|discriminate]. apply str_eqb_eq in E. left. exact E.
  Qed.

  Definition given_nothing (T : table) (parts : list str) (p : str) : Prop :=
    last_kw p (filter is_kw parts) = None /\ pos_tok p (t_pos T) (filter is_pos parts) = None.

  (* what an accepted parse looks like *)
  Lemma parse_Ok_inv_toks : forall T d toks ps, parse_toks T d toks = Ok ps ->
    exists itok parts dp dk,
      toks = itok :: parts /\ parts <> [] /\ lower itok = t_iface T /\
      parse_pos (t_pos T) (filter is_pos parts) = Some dp /\
      parse_kw (t_kw T) (filter is_kw parts) = Some dk /\
      ps = canon (names T) (rev dk ++ rev dp ++ filter_defaults T d) /\
      forallb (fun n => has n (rev dk ++ rev dp ++ filter_defaults T d)) (required T) = true.
  Proof.
    intros T d toks ps H. unfold parse_toks in H.
    destruct toks as [|itok parts]; [simpl in H; discriminate|].
    destruct parts as [|p1 parts]; [simpl in H; discriminate|].
    cbn [length Nat.ltb Nat.leb hd tl] in H.
    destruct (str_eqb (lower itok) (t_iface T)) eqn:I; [|simpl in H; discriminate].
    simpl negb in H. cbv iota in H.
    destruct (parse_pos (t_pos T) (filter is_pos (p1 :: parts))) as [dp|] eqn:P; [|discriminate].
    destruct (parse_kw (t_kw T) (filter is_kw (p1 :: parts))) as [dk|] eqn:K; [|discriminate].
    destruct (forallb _ (required T)) eqn:R; [|discriminate].
    inversion H. apply str_eqb_eq in I.
    exists itok, (p1 :: parts), dp, dk. repeat split; auto. discriminate.
  Qed.

  Lemma names_kw : forall T prm, In prm (t_kw T) -> In (pname prm) (names T).
  Proof. intros T prm H. unfold names. apply in_or_app. right. apply in_map. exact H. Qed.

  Lemma names_pos : forall T p, In p (map pname (t_pos T)) -> In p (names T).
  Proof. intros T p H. unfold names. apply in_or_app. left. exact H. Qed.

  Lemma table_wf_NoDup : forall T, table_wf T = true -> NoDup (names T).
  Proof.
    intros T H. unfold table_wf in H. repeat (apply andb_true_iff in H as [H ?]).
    apply nodupb_NoDup. exact H.
  Qed.

  Lemma NoDup_app_l : forall (a b : list str), NoDup (a ++ b) -> NoDup a.
  Proof.
    induction a as [|x a IH]; intros b H; [constructor|]. simpl in H. inversion H; subst.
    constructor; [intro I; apply H2; apply in_or_app; left; exact I | eapply IH; eassumption].
  Qed.

  Lemma NoDup_app_disj : forall (a b : list str) x, NoDup (a ++ b) -> In x a -> In x b -> False.
  Proof.
    induction a as [|y a IH]; intros b x H Ia Ib; [contradiction|]. simpl in H. inversion H; subst.
    destruct Ia as [->|Ia]; [apply H2; apply in_or_app; right; exact Ib | eapply IH; eassumption].
  Qed.

  (* FAITHFULNESS of the parse stage *)
  Lemma faithful_parse_toks : forall T d toks ps, table_wf T = true -> parse_toks T d toks = Ok ps ->
    exists itok parts,
      toks = itok :: parts /\ lower itok = t_iface T /\
      (forall p v, last_kw p (filter is_kw parts) = Some v ->
         exists prm x, find_param p (t_kw T) = Some prm /\ type_kw (pty prm) v = Some x /\ get p ps = Some x) /\
      (forall k prm tok, nth_error (t_pos T) k = Some prm -> nth_error (filter is_pos parts) k = Some tok ->
         exists x, type_pos (pty prm) tok = Some x /\ get (pname prm) ps = Some x) /\
      (forall p, given_nothing T parts p -> get p ps = if mem p (names T) then get p d else None) /\
      (forall p, ~ In p (names T) -> get p ps = None).
  Proof.
    intros T d toks ps WF H.
    destruct (parse_Ok_inv_toks T d toks ps H) as [itok [parts [dp [dk [Tk [Hne [I [P [K [Eps R]]]]]]]]]].
    pose proof (table_wf_NoDup T WF) as ND.
    exists itok, parts. split; [exact Tk|]. split; [exact I|].
    assert (Gps : forall p, get p ps = if mem p (names T) then
                   match get p (rev dk) with Some v => Some v | None =>
                   match get p (rev dp) with Some v => Some v | None =>
                   if mem p (names T) then get p d else None end end else None).
    { intro p. subst ps. rewrite get_canon. destruct (mem p (names T)) eqn:M; [|reflexivity].
      rewrite !get_app. unfold filter_defaults. rewrite (get_filter_key (fun k => mem k (names T))).
      rewrite M. reflexivity. }
    split; [|split; [|split]].
    - intros p v L. pose proof (parse_kw_get _ _ _ K p) as G. rewrite L in G.
      destruct G as [prm [x [F [Ty G]]]]. exists prm, x. split; [exact F|]. split; [exact Ty|].
      rewrite Gps. destruct (find_param_name _ _ _ F) as [Hn Hin].
      assert (M : mem p (names T) = true) by (apply mem_In; rewrite <- Hn; apply names_kw; exact Hin).
      rewrite M, G. reflexivity.
    - intros k prm tok Hp Ht.
      pose proof (pos_tok_nth (t_pos T) _ k prm tok (NoDup_app_l _ _ ND) Hp Ht) as PT.
      pose proof (parse_pos_get _ _ _ P (pname prm)) as G. rewrite PT in G.
      destruct G as [x [Ty G]]. exists x. split; [exact Ty|].
      assert (Inp : In (pname prm) (map pname (t_pos T))) by (apply in_map; eapply nth_error_In; exact Hp).
      assert (M : mem (pname prm) (names T) = true) by (apply mem_In; apply names_pos; exact Inp).
      rewrite Gps, M.
      (* no keyword part can carry a positional's name: the keyword table does not have it *)
      pose proof (parse_kw_get _ _ _ K (pname prm)) as GK.
      destruct (last_kw (pname prm) (filter is_kw parts)) as [v|].
      + destruct GK as [prm' [x' [F _]]]. destruct (find_param_name _ _ _ F) as [Hn Hin].
        exfalso. apply (NoDup_app_disj _ _ (pname prm) ND Inp). rewrite <- Hn. apply in_map. exact Hin.
      + rewrite GK, G. reflexivity.
    - intros p [L PT].
      pose proof (parse_kw_get _ _ _ K p) as GK. rewrite L in GK.
      pose proof (parse_pos_get _ _ _ P p) as GP. rewrite PT in GP.
      rewrite Gps, GK, GP. destruct (mem p (names T)); reflexivity.
    - intros p Hn. rewrite Gps. apply mem_false in Hn. rewrite Hn. reflexivity.
  Qed.

  (* REQUIRED / UNKNOWN / UNTYPABLE / REPEATED '=' *)
  Lemma parse_missing_required_toks : forall T d toks p,
    table_wf T = true -> In p (required T) ->
    (forall parts itok, toks = itok :: parts -> given_nothing T parts p) ->
    get p d = None -> parse_toks T d toks = Err.
  Proof.
    intros T d toks p WF Hreq Hnone Hd. destruct (parse_toks T d toks) as [ps|] eqn:H; [|reflexivity]. exfalso.
    destruct (parse_Ok_inv_toks T d toks ps H) as [itok [parts [dp [dk [Tk [Hne [I [P [K [Eps R]]]]]]]]]].
    destruct (Hnone parts itok Tk) as [L PT].
    rewrite forallb_forall in R. specialize (R p Hreq). unfold has in R.
    rewrite !get_app in R.
    pose proof (parse_kw_get _ _ _ K p) as GK. rewrite L in GK.
    pose proof (parse_pos_get _ _ _ P p) as GP. rewrite PT in GP.
    rewrite GK, GP in R. unfold filter_defaults in R.
    rewrite (get_filter_key (fun k => mem k (names T))) in R. rewrite Hd in R.
    destruct (mem p (names T)); discriminate.
  Qed.

  Lemma parse_bad_kw_part_toks : forall T d toks itok parts part,
    toks = itok :: parts -> In part parts -> is_kw part = true ->
    (split_kw part = None                                        (* a second '=' *)
     \/ find_param (key part) (t_kw T) = None                    (* unknown keyword *)
     \/ (exists prm, find_param (key part) (t_kw T) = Some prm /\ type_kw (pty prm) (val part) = None)) ->
    parse_toks T d toks = Err.
  Proof.
    intros T d toks itok parts part Tk Hin Hkw Hbad.
    destruct (parse_toks T d toks) as [ps|] eqn:H; [|reflexivity]. exfalso.
    destruct (parse_Ok_inv_toks T d toks ps H) as [itok' [parts' [dp [dk [Tk' [Hne [I [P [K [Eps R]]]]]]]]]].
    rewrite Tk in Tk'. inversion Tk'; subst itok' parts'.
    pose proof (parse_kw_all _ _ _ K) as A. rewrite Forall_forall in A.
    assert (Hf : In part (filter is_kw parts)) by (apply filter_In; auto).
    destruct (A part Hf) as [prm [x [S [F Ty]]]].
    destruct Hbad as [B|[B|[prm' [B1 B2]]]]; congruence.
  Qed.

  Lemma parse_pos_all : forall ps toks dp, parse_pos ps toks = Some dp ->
    forall k prm tok, nth_error ps k = Some prm -> nth_error toks k = Some tok ->
    exists x, type_pos (pty prm) tok = Some x.
  Proof.
    intros ps. induction ps as [|q ps IH]; intros toks dp H k prm tok Hp Ht; [destruct k; discriminate|].
    destruct toks as [|t toks]; [destruct k; discriminate|]. simpl in H.
    destruct (type_pos (pty q) t) as [x|] eqn:Ty; [|discriminate].
    destruct (parse_pos ps toks) as [d|] eqn:R; [|discriminate].
    destruct k as [|k]; simpl in Hp, Ht.
    - inversion Hp; inversion Ht; subst. exists x. exact Ty.
    - eapply IH; eauto.
  Qed.

  Lemma parse_bad_positional_toks : forall T d toks itok parts k prm tok,
    toks = itok :: parts ->
    nth_error (t_pos T) k = Some prm -> nth_error (filter is_pos parts) k = Some tok ->
    type_pos (pty prm) tok = None -> parse_toks T d toks = Err.
  Proof.
    intros T d toks itok parts k prm tok Tk Hp Ht Hbad.
    destruct (parse_toks T d toks) as [ps|] eqn:H; [|reflexivity]. exfalso.
    destruct (parse_Ok_inv_toks T d toks ps H) as [itok' [parts' [dp [dk [Tk' [Hne [I [P [K [Eps R]]]]]]]]]].
    rewrite Tk in Tk'. inversion Tk'; subst itok' parts'.
    destruct (parse_pos_all _ _ _ P k prm tok Hp Ht) as [x Hx]. congruence.
  Qed.

  Lemma parse_wrong_interface_toks : forall T d toks,
    lower (hd [] (toks)) <> t_iface T -> parse_toks T d toks = Err.
  Proof.
    intros T d toks Hne. unfold parse_toks. apply str_eqb_neq in Hne. rewrite Hne.
    destruct (_ <? 2)%nat; reflexivity.
  Qed.

  Lemma parse_too_short_toks : forall T d toks, (length (toks) < 2)%nat -> parse_toks T d toks = Err.
  Proof.
    intros T d toks H. unfold parse_toks. apply Nat.ltb_lt in H. rewrite H. reflexivity.
  Qed.

  (* the same for the descriptor string: parse T d s = parse_toks T d (tokenise s) *)
  Lemma parse_Ok_inv : forall T d s ps, parse T d s = Ok ps ->
    exists itok parts dp dk,
      tokenise s = itok :: parts /\ parts <> [] /\ lower itok = t_iface T /\
      parse_pos (t_pos T) (filter is_pos parts) = Some dp /\
      parse_kw (t_kw T) (filter is_kw parts) = Some dk /\
      ps = canon (names T) (rev dk ++ rev dp ++ filter_defaults T d) /\
      forallb (fun n => has n (rev dk ++ rev dp ++ filter_defaults T d)) (required T) = true.
  Proof. intros T d s. exact (parse_Ok_inv_toks T d (tokenise s)). Qed.

  Lemma faithful_parse : forall T d s ps, table_wf T = true -> parse T d s = Ok ps ->
    exists itok parts,
      tokenise s = itok :: parts /\ lower itok = t_iface T /\
      (forall p v, last_kw p (filter is_kw parts) = Some v ->
         exists prm x, find_param p (t_kw T) = Some prm /\ type_kw (pty prm) v = Some x /\ get p ps = Some x) /\
      (forall k prm tok, nth_error (t_pos T) k = Some prm -> nth_error (filter is_pos parts) k = Some tok ->
         exists x, type_pos (pty prm) tok = Some x /\ get (pname prm) ps = Some x) /\
      (forall p, given_nothing T parts p -> get p ps = if mem p (names T) then get p d else None) /\
      (forall p, ~ In p (names T) -> get p ps = None).
  Proof. intros T d s. exact (faithful_parse_toks T d (tokenise s)). Qed.

  Lemma parse_missing_required : forall T d s p,
    table_wf T = true -> In p (required T) ->
    (forall parts itok, tokenise s = itok :: parts -> given_nothing T parts p) ->
    get p d = None -> parse T d s = Err.
  Proof. intros T d s. exact (parse_missing_required_toks T d (tokenise s)). Qed.

  Lemma parse_bad_kw_part : forall T d s itok parts part,
    tokenise s = itok :: parts -> In part parts -> is_kw part = true ->
    (split_kw part = None
     \/ find_param (key part) (t_kw T) = None
     \/ (exists prm, find_param (key part) (t_kw T) = Some prm /\ type_kw (pty prm) (val part) = None)) ->
    parse T d s = Err.
  Proof. intros T d s. exact (parse_bad_kw_part_toks T d (tokenise s)). Qed.

  Lemma parse_bad_positional : forall T d s itok parts k prm tok,
    tokenise s = itok :: parts ->
    nth_error (t_pos T) k = Some prm -> nth_error (filter is_pos parts) k = Some tok ->
    type_pos (pty prm) tok = None -> parse T d s = Err.
  Proof. intros T d s. exact (parse_bad_positional_toks T d (tokenise s)). Qed.

  Lemma parse_wrong_interface : forall T d s,
    lower (hd [] (tokenise s)) <> t_iface T -> parse T d s = Err.
  Proof. intros T d s. exact (parse_wrong_interface_toks T d (tokenise s)). Qed.

  Lemma parse_too_short : forall T d s, (length (tokenise s) < 2)%nat -> parse T d s = Err.
  Proof. intros T d s. exact (parse_too_short_toks T d (tokenise s)). Qed.
End LibProofs.

(* ================================================================== Part 3: create / build *)

Definition ctor_default (ctor : list (str * option value)) (p : str) : option value :=
  match find (fun cd => str_eqb p (fst cd)) ctor with
  | Some cd => snd cd
  | None => None
  end.

(* where a constructor argument comes from: the parsed attributes, else the constructor default *)
Definition arg_source (e : entry) (ps : dict) (p : str) : option value :=
  match get p ps with
  | Some v => Some v
  | None => ctor_default (e_ctor e) p
  end.

Lemma ctor_default_notin : forall ctor p, ~ In p (map fst ctor) -> ctor_default ctor p = None.
Proof.
  intros ctor p H. unfold ctor_default. induction ctor as [|[n dflt] r IH]; [reflexivity|].
  simpl. destruct (str_eqb p n) eqn:E.
  - apply str_eqb_eq in E. subst. exfalso. apply H. left. reflexivity.
  - apply IH. intro I. apply H. right. exact I.
Qed.

Lemma fill_get : forall ctor attrs args, fill ctor attrs = Some args ->
  forall p, get p args = if mem p (map fst ctor)
                         then match get p attrs with Some v => Some v | None => ctor_default ctor p end
                         else None.
Proof.
  induction ctor as [|[n dflt] r IH]; intros attrs args H p.
  - simpl in H. inversion H. reflexivity.
  - simpl in H.
    destruct (match get n attrs with Some v => Some v | None => dflt end) as [v|] eqn:V; [|discriminate].
    destruct (fill r attrs) as [a|] eqn:F; [|discriminate].
    inversion H; subst args. clear H. simpl get. simpl map. simpl mem. unfold ctor_default. simpl find.
    destruct (str_eqb p n) eqn:E.
    + apply str_eqb_eq in E. subst p. simpl. destruct (get n attrs); [exact (eq_sym V) | exact (eq_sym V)].
    + simpl. apply (IH attrs a F p).
Qed.

Section LibProofs2.
  Variable py_int : str -> option Z.
  Variable py_hex : str -> option Z.
  Variable py_float : str -> option N.
  Variable host_ok : str -> bool.
  Variable localhost_ip : str.

  Notation type_pos := (type_pos py_int py_float).
  Notation type_kw := (type_kw py_int py_hex py_float).
  Notation parse := (parse py_int py_hex py_float).
  Notation parse_toks := (parse_toks py_int py_hex py_float).
  Notation validate := (validate host_ok localhost_ip).
  Notation build := (build host_ok localhost_ip).
  Notation create := (create py_int py_hex py_float host_ok localhost_ip).
  Notation create_toks := (create_toks py_int py_hex py_float host_ok localhost_ip).
  Notation norm_host := (norm_host localhost_ip).

  (* the only rewriting a constructor does: "localhost" is resolved by the socket transports *)
  Definition norm_arg (k : kind) (p : str) (v : value) : value :=
    match k with
    | KTcp | KUdp _ => if str_eqb p n_host then match v with VStr h => VStr (norm_host h) | _ => v end else v
    | _ => v
    end.

  Lemma option_map_id : forall (x : option value), option_map (fun v => v) x = x.
  Proof. intros [v|]; reflexivity. Qed.

  Lemma validate_get : forall k a a', validate k a = Some a' ->
    forall p, get p a' = option_map (norm_arg k p) (get p a).
  Proof.
    intros k a a' H p. destruct k; simpl in H.
    - (* serial *)
      repeat match type of H with
             | context [match ?x with _ => _ end] => destruct x eqn:?; try discriminate
             end.
      inversion H; subst. simpl. apply eq_sym, option_map_id.
    - (* tcp *)
      destruct (get n_host a) as [[h| | | |]|] eqn:Hh; try discriminate.
      destruct (get n_port a) as [[|z| | |]|] eqn:Hp; try discriminate.
      destruct (host_ok (norm_host h) && port_ok z); [|discriminate].
      inversion H; subst. rewrite get_set. simpl. destruct (str_eqb p n_host) eqn:E.
      + apply str_eqb_eq in E. subst p. rewrite Hh. reflexivity.
      + unfold norm_arg. rewrite E. destruct (get p a); reflexivity.
    - (* udp *)
      destruct (get n_host a) as [[h| | | |]|] eqn:Hh; try discriminate.
      destruct (get n_port a) as [[|z| | |]|] eqn:Hp; try discriminate.
      destruct (host_ok (norm_host h) && port_ok z && negb (z =? responder_port)%Z); [|discriminate].
      inversion H; subst. rewrite get_set. simpl. destruct (str_eqb p n_host) eqn:E.
      + apply str_eqb_eq in E. subst p. rewrite Hh. reflexivity.
      + unfold norm_arg. rewrite E. destruct (get p a); reflexivity.
    - (* usbtmc *)
      repeat match type of H with
             | context [match ?x with _ => _ end] => destruct x eqn:?; try discriminate
             end.
      inversion H; subst. simpl. apply eq_sym, option_map_id.
    - (* vxi11 *)
      repeat match type of H with
             | context [match ?x with _ => _ end] => destruct x eqn:?; try discriminate
             end.
      inversion H; subst. simpl. apply eq_sym, option_map_id.
    - discriminate.
  Qed.

  Lemma build_Ok_inv : forall e attrs t, build e attrs = Ok t ->
    tr_kind t = e_kind e /\
    forallb (fun kv => mem (fst kv) (map fst (e_ctor e))) attrs = true /\
    exists args, fill (e_ctor e) attrs = Some args /\ validate (e_kind e) args = Some (tr_args t).
  Proof.
    intros e attrs t H. unfold build in H.
    destruct (forallb _ attrs) eqn:A; [|simpl in H; discriminate]. simpl in H.
    destruct (fill (e_ctor e) attrs) as [args|] eqn:F; [|discriminate].
    destruct (validate (e_kind e) args) as [args'|] eqn:V; [|discriminate].
    inversion H; subst. simpl. split; [reflexivity|]. split; [reflexivity|]. exists args. auto.
  Qed.

  Lemma build_get : forall e attrs t, build e attrs = Ok t ->
    forall p, get p (tr_args t) = option_map (norm_arg (e_kind e) p) (arg_source e attrs p).
  Proof.
    intros e attrs t H p. destruct (build_Ok_inv e attrs t H) as [_ [A [args [F V]]]].
    rewrite (validate_get _ _ _ V p), (fill_get _ _ _ F p). unfold arg_source.
    destruct (mem p (map fst (e_ctor e))) eqn:M; [reflexivity|].
    apply mem_false in M. rewrite (ctor_default_notin _ _ M).
    destruct (get p attrs) as [v|] eqn:G; [|reflexivity].
    exfalso. apply get_In in G. rewrite forallb_forall in A. specialize (A _ G). simpl in A.
    apply mem_In in A. contradiction.
  Qed.

  Lemma find_entry_Some : forall E i e, find_entry E i = Some e -> In e E /\ t_iface (e_tbl e) = i.
  Proof.
    intros E i e H. unfold find_entry in H. apply find_some in H as [A B].
    apply str_eqb_eq in B. auto.
  Qed.

  Lemma create_Ok_inv_toks : forall E d toks t, create_toks E d toks = Ok t ->
    exists e ps, find_entry E (lower (hd [] (toks))) = Some e /\
                 parse_toks (e_tbl e) d toks = Ok ps /\ build e ps = Ok t.
  Proof.
    intros E d toks t H. unfold create_toks in H. destruct (_ <? 2)%nat; [discriminate|].
    destruct (find_entry E (lower (hd [] (toks)))) as [e|] eqn:F; [|discriminate].
    destruct (parse_toks (e_tbl e) d toks) as [ps|] eqn:P; [|discriminate].
    exists e, ps. auto.
  Qed.

  Lemma entries_wf_In : forall E e, entries_wf E = true -> In e E -> table_wf (e_tbl e) = true.
  Proof.
    intros E e H I. unfold entries_wf in H. apply andb_true_iff in H as [H _].
    rewrite forallb_forall in H. specialize (H e I). unfold entry_wf in H.
    apply andb_true_iff in H as [H _]. exact H.
  Qed.

  (* FAITHFULNESS of create_transport *)
  Lemma faithful_create_toks : forall E d toks t, entries_wf E = true -> create_toks E d toks = Ok t ->
    exists e itok parts ps,
      toks = itok :: parts /\ In e E /\ t_iface (e_tbl e) = lower itok /\ tr_kind t = e_kind e /\
      parse_toks (e_tbl e) d toks = Ok ps /\
      (* each constructor argument: the parsed attribute, else the constructor's default *)
      (forall p, get p (tr_args t) = option_map (norm_arg (e_kind e) p) (arg_source e ps p)) /\
      (* the parsed attributes are exactly what the string / the defaults give for the table's names *)
      (forall p v, last_kw p (filter is_kw parts) = Some v ->
         exists prm x, find_param p (t_kw (e_tbl e)) = Some prm /\ type_kw (pty prm) v = Some x /\ get p ps = Some x) /\
      (forall k prm tok, nth_error (t_pos (e_tbl e)) k = Some prm -> nth_error (filter is_pos parts) k = Some tok ->
         exists x, type_pos (pty prm) tok = Some x /\ get (pname prm) ps = Some x) /\
      (forall p, given_nothing (e_tbl e) parts p ->
         get p ps = if mem p (names (e_tbl e)) then get p d else None) /\
      (forall p, ~ In p (names (e_tbl e)) -> get p ps = None).
  Proof.
    intros E d toks t WF H. destruct (create_Ok_inv_toks E d toks t H) as [e [ps [F [P B]]]].
    destruct (find_entry_Some _ _ _ F) as [I Hi].
    destruct (faithful_parse_toks py_int py_hex py_float (e_tbl e) d toks ps (entries_wf_In E e WF I) P)
      as [itok [parts [Tk [Hl [C1 [C2 [C3 C4]]]]]]].
    exists e, itok, parts, ps. rewrite Tk in Hi. simpl in Hi.
    destruct (build_Ok_inv e ps t B) as [K _].
    repeat split; auto. apply (build_get e ps t B).
  Qed.

  Lemma create_parse_Err_toks : forall E d toks e,
    find_entry E (lower (hd [] (toks))) = Some e -> parse_toks (e_tbl e) d toks = Err -> create_toks E d toks = Err.
  Proof.
    intros E d toks e F P. unfold create_toks. destruct (_ <? 2)%nat; [reflexivity|].
    rewrite F, P. reflexivity.
  Qed.

  Lemma create_unknown_interface_toks : forall E d toks,
    find_entry E (lower (hd [] (toks))) = None -> create_toks E d toks = Err.
  Proof.
    intros E d toks F. unfold create_toks. destruct (_ <? 2)%nat; [reflexivity|].
    rewrite F. reflexivity.
  Qed.

  Lemma create_Ok_inv : forall E d s t, create E d s = Ok t ->
    exists e ps, find_entry E (lower (hd [] (tokenise s))) = Some e /\
                 parse (e_tbl e) d s = Ok ps /\ build e ps = Ok t.
  Proof. intros E d s. exact (create_Ok_inv_toks E d (tokenise s)). Qed.

  Lemma faithful_create : forall E d s t, entries_wf E = true -> create E d s = Ok t ->
    exists e itok parts ps,
      tokenise s = itok :: parts /\ In e E /\ t_iface (e_tbl e) = lower itok /\ tr_kind t = e_kind e /\
      parse (e_tbl e) d s = Ok ps /\
      (forall p, get p (tr_args t) = option_map (norm_arg (e_kind e) p) (arg_source e ps p)) /\
      (forall p v, last_kw p (filter is_kw parts) = Some v ->
         exists prm x, find_param p (t_kw (e_tbl e)) = Some prm /\ type_kw (pty prm) v = Some x /\ get p ps = Some x) /\
      (forall k prm tok, nth_error (t_pos (e_tbl e)) k = Some prm -> nth_error (filter is_pos parts) k = Some tok ->
         exists x, type_pos (pty prm) tok = Some x /\ get (pname prm) ps = Some x) /\
      (forall p, given_nothing (e_tbl e) parts p ->
         get p ps = if mem p (names (e_tbl e)) then get p d else None) /\
      (forall p, ~ In p (names (e_tbl e)) -> get p ps = None).
  Proof. intros E d s. exact (faithful_create_toks E d (tokenise s)). Qed.

  Lemma create_parse_Err : forall E d s e,
    find_entry E (lower (hd [] (tokenise s))) = Some e -> parse (e_tbl e) d s = Err -> create E d s = Err.
  Proof. intros E d s. exact (create_parse_Err_toks E d (tokenise s)). Qed.

  Lemma create_unknown_interface : forall E d s,
    find_entry E (lower (hd [] (tokenise s))) = None -> create E d s = Err.
  Proof. intros E d s. exact (create_unknown_interface_toks E d (tokenise s)). Qed.

  (* IPv6 / bracketed host at the level of create *)
  Lemma host_first_inv : forall e, host_first e = true ->
    exists prm, nth_error (t_pos (e_tbl e)) 0 = Some prm /\ pname prm = n_host /\ pty prm = TStr.
  Proof.
    intros e H. unfold host_first in H. destruct (t_pos (e_tbl e)) as [|prm r]; [discriminate|].
    apply andb_true_iff in H as [H1 H2]. apply str_eqb_eq in H1.
    exists prm. split; [reflexivity|]. split; [exact H1|]. destruct (pty prm); try discriminate. reflexivity.
  Qed.

  Lemma bracket_host_create : forall E d iface h rest t e,
    entries_wf E = true ->
    no_colon iface -> iface <> [] -> h <> [] -> no_nl h -> no_close rest -> is_kw h = false ->
    find_entry E (lower iface) = Some e -> host_first e = true ->
    create E d (iface ++ c_colon :: c_lbr :: h ++ c_rbr :: rest) = Ok t ->
    get n_host (tr_args t) = Some (norm_arg (e_kind e) n_host (VStr h)).
  Proof.
    intros E d iface h rest t e WF Hnc Hne Hh Hnl Hr Hkw F HF H.
    pose proof (tokenise_bracket iface h rest Hnc Hne Hh Hnl Hr) as Tk.
    destruct (create_Ok_inv E d _ t H) as [e' [ps [F' [P B]]]].
    rewrite Tk in F'. simpl in F'. rewrite F in F'. inversion F'; subst e'. clear F'.
    destruct (find_entry_Some _ _ _ F) as [I _].
    destruct (faithful_parse py_int py_hex py_float (e_tbl e) d _ ps (entries_wf_In E e WF I) P)
      as [itok [parts [Tk' [_ [_ [C2 _]]]]]].
    rewrite Tk in Tk'. inversion Tk'; subst itok parts. clear Tk'.
    destruct (host_first_inv e HF) as [prm [Hn [Hname Hty]]].
    assert (Ht : nth_error (filter is_pos (h :: scan 0 rest)) 0 = Some h).
    { simpl. unfold is_pos. rewrite Hkw. reflexivity. }
    destruct (C2 O prm h Hn Ht) as [x [Ty G]]. rewrite Hty in Ty. simpl in Ty. inversion Ty; subst x.
    rewrite Hname in G. rewrite (build_get e ps t B n_host). unfold arg_source. rewrite G. reflexivity.
  Qed.
End LibProofs2.

(* ================================================================== Part 4: USBTMC round trip *)

Definition no_eq (s : str) : Prop := Forall (fun c => c <> c_eq) s.

Lemma no_colon_b : forall l, forallb (fun c => negb (c =? c_colon)) l = true -> no_colon l.
Proof.
  intros l H. unfold no_colon. apply Forall_forall. intros c I. rewrite forallb_forall in H.
  specialize (H c I). apply negb_true_iff in H. apply N.eqb_neq in H. exact H.
Qed.

Lemma no_eq_b : forall l, forallb (fun c => negb (c =? c_eq)) l = true -> no_eq l.
Proof.
  intros l H. unfold no_eq. apply Forall_forall. intros c I. rewrite forallb_forall in H.
  specialize (H c I). apply negb_true_iff in H. apply N.eqb_neq in H. exact H.
Qed.

Lemma is_kw_app_eq : forall k v, is_kw (k ++ c_eq :: v) = true.
Proof.
  intros k v. unfold is_kw. apply existsb_exists. exists c_eq. split; [|reflexivity].
  apply in_or_app. right. left. reflexivity.
Qed.

Lemma is_kw_no_eq : forall v, no_eq v -> is_kw v = false.
Proof.
  intros v H. unfold is_kw. induction H as [|c v Hc H IH]; [reflexivity|]. cbn [existsb].
  rewrite IH. destruct (c_eq =? c) eqn:E; [apply N.eqb_eq in E; congruence | reflexivity].
Qed.

Lemma key_app : forall k v, no_eq k -> key (k ++ c_eq :: v) = k.
Proof.
  intros k v H. induction H as [|c k Hc H IH]; simpl; [reflexivity|].
  destruct (c =? c_eq) eqn:E; [apply N.eqb_eq in E; contradiction | rewrite IH; reflexivity].
Qed.

Lemma val_app : forall k v, no_eq k -> val (k ++ c_eq :: v) = v.
Proof.
  intros k v H. induction H as [|c k Hc H IH]; simpl; [reflexivity|].
  destruct (c =? c_eq) eqn:E; [apply N.eqb_eq in E; contradiction | exact IH].
Qed.

Lemma split_kw_app : forall k v, no_eq k -> no_eq v -> split_kw (k ++ c_eq :: v) = Some (k, v).
Proof.
  intros k v Hk Hv. unfold split_kw. rewrite is_kw_app_eq, (val_app k v Hk), (is_kw_no_eq v Hv), (key_app k v Hk).
  reflexivity.
Qed.

Lemma plain_kv : forall k v, no_colon k -> no_colon v -> (match k with [] => False | c :: _ => c <> c_lbr end) ->
  plain (k ++ c_eq :: v).
Proof.
  intros k v Hk Hv Hh. split.
  - unfold no_colon. apply Forall_app. split; [exact Hk|]. constructor; [discriminate | exact Hv].
  - destruct k; [contradiction | exact Hh].
Qed.

Definition usbtmc_entry (r1 r2 r3 : bool) : entry :=
  mkEntry (mkTable (str_of "usbtmc") [] [(n_productid, TInt, r2); (n_serialnr, TStr, r3); (n_vendorid, TInt, r1)])
          KUsbTmc [(n_productid, None); (n_serialnr, None); (n_vendorid, None)].

Lemma usbtmc_shape_inv : forall e, usbtmc_shape e = true -> exists r1 r2 r3, e = usbtmc_entry r1 r2 r3.
Proof.
  intros [[i pos kw] k c] H. unfold usbtmc_shape in H. simpl in H.
  destruct k; try discriminate. simpl in H.
  apply andb_true_iff in H as [H Hc]. apply andb_true_iff in H as [H Hk].
  apply andb_true_iff in H as [Hi Hp]. apply str_eqb_eq in Hi.
  destruct pos; [|discriminate].
  destruct kw as [|[[na ta] ra] [|[[nb tb] rb] [|[[nc tc] rc] [|? ?]]]]; try discriminate.
  unfold pname, pty in Hk. simpl in Hk.
  repeat (apply andb_true_iff in Hk as [Hk ?]).
  destruct c as [|[a [?|]] [|[b [?|]] [|[c' [?|]] [|? ?]]]]; try discriminate.
  repeat (apply andb_true_iff in Hc as [Hc ?]).
  repeat match goal with X : str_eqb _ _ = true |- _ => apply str_eqb_eq in X end.
  destruct ta, tb, tc; try discriminate. subst.
  exists rc, ra, rb. reflexivity.
Qed.

Section RoundTrip.
  Variable py_int : str -> option Z.
  Variable py_hex : str -> option Z.
  Variable py_float : str -> option N.
  Variable host_ok : str -> bool.
  Variable localhost_ip : str.
  Notation type_kw := (type_kw py_int py_hex py_float).
  Notation parse_kw := (parse_kw py_int py_hex py_float).
  Notation parse := (parse py_int py_hex py_float).
  Notation parse_toks := (parse_toks py_int py_hex py_float).
  Notation build := (build host_ok localhost_ip).
  Notation create := (create py_int py_hex py_float host_ok localhost_ip).

  Lemma parse_kw_cons : forall ks part r k v prm x d,
    split_kw part = Some (k, v) -> find_param k ks = Some prm -> type_kw (pty prm) v = Some x ->
    parse_kw ks r = Some d -> parse_kw ks (part :: r) = Some ((k, x) :: d).
  Proof. intros ks part r k v prm x d S F T R. simpl. rewrite S, F, T, R. reflexivity. Qed.

  Definition usbtmc_result (zv zp : Z) (serial : str) : transport :=
    mkTransport KUsbTmc [(n_productid, VInt zp); (n_serialnr, VStr serial); (n_vendorid, VInt zv)].

  Lemma usbtmc_core : forall E d r1 r2 r3 hv hp serial zv zp,
    find_entry E (str_of "usbtmc") = Some (usbtmc_entry r1 r2 r3) ->
    no_colon hv -> no_eq hv -> no_colon hp -> no_eq hp -> no_colon serial -> no_eq serial ->
    py_hex (48 :: 120 :: hv) = Some zv -> py_hex (48 :: 120 :: hp) = Some zp ->
    id_ok zv = true -> id_ok zp = true ->
    create E d (str_of "usbtmc" ++ join [n_vendorid ++ c_eq :: 48 :: 120 :: hv;
                                         n_productid ++ c_eq :: 48 :: 120 :: hp;
                                         n_serialnr ++ c_eq :: serial])
    = Ok (usbtmc_result zv zp serial).
  Proof.
    intros E d r1 r2 r3 hv hp serial zv zp F Cv Ev Cp Ep Cs Es Hv Hp Iv Ip.
    assert (NCv : no_colon (48 :: 120 :: hv)) by (repeat (constructor; [discriminate|]); exact Cv).
    assert (NEv : no_eq (48 :: 120 :: hv)) by (repeat (constructor; [discriminate|]); exact Ev).
    assert (NCp : no_colon (48 :: 120 :: hp)) by (repeat (constructor; [discriminate|]); exact Cp).
    assert (NEp : no_eq (48 :: 120 :: hp)) by (repeat (constructor; [discriminate|]); exact Ep).
    assert (K1c : no_colon n_vendorid) by (apply no_colon_b; vm_compute; reflexivity).
    assert (K2c : no_colon n_productid) by (apply no_colon_b; vm_compute; reflexivity).
    assert (K3c : no_colon n_serialnr) by (apply no_colon_b; vm_compute; reflexivity).
    assert (K1e : no_eq n_vendorid) by (apply no_eq_b; vm_compute; reflexivity).
    assert (K2e : no_eq n_productid) by (apply no_eq_b; vm_compute; reflexivity).
    assert (K3e : no_eq n_serialnr) by (apply no_eq_b; vm_compute; reflexivity).
    remember (n_vendorid ++ c_eq :: 48 :: 120 :: hv) as P1 eqn:EP1.
    remember (n_productid ++ c_eq :: 48 :: 120 :: hp) as P2 eqn:EP2.
    remember (n_serialnr ++ c_eq :: serial) as P3 eqn:EP3.
    assert (S1 : split_kw P1 = Some (n_vendorid, 48 :: 120 :: hv)) by (subst P1; apply split_kw_app; assumption).
    assert (S2 : split_kw P2 = Some (n_productid, 48 :: 120 :: hp)) by (subst P2; apply split_kw_app; assumption).
    assert (S3 : split_kw P3 = Some (n_serialnr, serial)) by (subst P3; apply split_kw_app; assumption).
    assert (W1 : is_kw P1 = true) by (subst P1; apply is_kw_app_eq).
    assert (W2 : is_kw P2 = true) by (subst P2; apply is_kw_app_eq).
    assert (W3 : is_kw P3 = true) by (subst P3; apply is_kw_app_eq).
    assert (L1 : plain P1) by (subst P1; apply plain_kv; [assumption | assumption | vm_compute; discriminate]).
    assert (L2 : plain P2) by (subst P2; apply plain_kv; [assumption | assumption | vm_compute; discriminate]).
    assert (L3 : plain P3) by (subst P3; apply plain_kv; [assumption | assumption | vm_compute; discriminate]).
    assert (Tk : tokenise (str_of "usbtmc" ++ join [P1; P2; P3]) = str_of "usbtmc" :: [P1; P2; P3]).
    { apply tokenise_join.
      - apply no_colon_b. vm_compute. reflexivity.
      - vm_compute. discriminate.
      - constructor; [exact L1|]. constructor; [exact L2|]. constructor; [exact L3|]. constructor. }
    set (T := e_tbl (usbtmc_entry r1 r2 r3)).
    assert (KW : parse_kw (t_kw T) [P1; P2; P3]
                 = Some [(n_vendorid, VInt zv); (n_productid, VInt zp); (n_serialnr, VStr serial)]).
    { eapply parse_kw_cons with (prm := (n_vendorid, TInt, r1)); [exact S1 | reflexivity | |].
      { unfold type_kw, pty. simpl. rewrite Hv. reflexivity. }
      eapply parse_kw_cons with (prm := (n_productid, TInt, r2)); [exact S2 | reflexivity | |].
      { unfold type_kw, pty. simpl. rewrite Hp. reflexivity. }
      eapply parse_kw_cons with (prm := (n_serialnr, TStr, r3)); [exact S3 | reflexivity | reflexivity | reflexivity]. }
    assert (PA : parse_toks T d (str_of "usbtmc" :: [P1; P2; P3])
                 = Ok [(n_productid, VInt zp); (n_serialnr, VStr serial); (n_vendorid, VInt zv)]).
    { unfold parse_toks. cbn [length Nat.ltb Nat.leb hd tl].
      replace (str_eqb (lower (str_of "usbtmc")) (t_iface T)) with true by (vm_compute; reflexivity).
      cbn [negb]. cbv iota.
      assert (FP : filter is_pos [P1; P2; P3] = []) by (simpl; unfold is_pos; rewrite W1, W2, W3; reflexivity).
      assert (FK : filter is_kw [P1; P2; P3] = [P1; P2; P3]) by (simpl; rewrite W1, W2, W3; reflexivity).
      rewrite FP, FK, KW. replace (parse_pos py_int py_float (t_pos T) []) with (Some (@nil (str * value))) by reflexivity.
      destruct r1, r2, r3; reflexivity. }
    unfold create, create_toks. rewrite Tk. cbn [length Nat.ltb Nat.leb hd].
    replace (lower (str_of "usbtmc")) with (str_of "usbtmc") by (vm_compute; reflexivity).
    rewrite F. fold T. rewrite PA.
    unfold build, usbtmc_entry, e_ctor, e_kind.
    replace (forallb _ _) with true by reflexivity. cbn [negb]. cbv iota.
    replace (fill _ _) with (Some [(n_productid, VInt zp); (n_serialnr, VStr serial); (n_vendorid, VInt zv)]) by reflexivity.
    unfold validate.
    replace (get n_vendorid _) with (Some (VInt zv)) by reflexivity.
    replace (get n_productid _) with (Some (VInt zp)) by reflexivity.
    replace (get n_serialnr _) with (Some (VStr serial)) by reflexivity.
    rewrite Iv, Ip. reflexivity.
  Qed.

  Lemma hexdigit_ok : forall x, hexdigit (x mod 16) <> c_colon /\ hexdigit (x mod 16) <> c_eq.
  Proof.
    intro x. pose proof (N.mod_upper_bound x 16 ltac:(discriminate)) as B. unfold hexdigit, c_colon, c_eq.
    destruct (x mod 16 <? 10) eqn:E.
    - apply N.ltb_lt in E. lia.
    - apply N.ltb_ge in E. lia.
  Qed.

  Lemma hex4_clean : forall x, no_colon (hex4 x) /\ no_eq (hex4 x).
  Proof.
    intro x. unfold hex4, no_colon, no_eq.
    split; repeat (constructor; [apply hexdigit_ok|]); constructor.
  Qed.

  Lemma format_resource_join : forall v p serial,
    format_resource v p serial
    = str_of "usbtmc" ++ join [n_vendorid ++ c_eq :: 48 :: 120 :: hex4 v;
                               n_productid ++ c_eq :: 48 :: 120 :: hex4 p;
                               n_serialnr ++ c_eq :: serial].
  Proof. intros v p serial. cbn [join]. rewrite app_nil_r. reflexivity. Qed.

  (* the descriptors list_resources produces parse back to the ids and serial they were made from *)
  Lemma roundtrip_usbtmc : forall E d e v p serial,
    (forall x, x < 65536 -> py_hex (48 :: 120 :: hex4 x) = Some (Z.of_N x)) ->
    find_entry E (str_of "usbtmc") = Some e -> usbtmc_shape e = true ->
    v < 65536 -> p < 65536 -> no_colon serial -> no_eq serial ->
    create E d (format_resource v p serial) = Ok (usbtmc_result (Z.of_N v) (Z.of_N p) serial).
  Proof.
    intros E d e v p serial Hhex F Sh Hv Hp Cs Es.
    destruct (usbtmc_shape_inv e Sh) as [r1 [r2 [r3 ->]]].
    rewrite format_resource_join.
    destruct (hex4_clean v) as [Cv Ev]. destruct (hex4_clean p) as [Cp Ep].
    apply (usbtmc_core E d r1 r2 r3 (hex4 v) (hex4 p) serial (Z.of_N v) (Z.of_N p) F Cv Ev Cp Ep Cs Es
             (Hhex v Hv) (Hhex p Hp)).
    - unfold id_ok. apply andb_true_iff. split; [apply Z.leb_le | apply Z.leb_le]; lia.
    - unfold id_ok. apply andb_true_iff. split; [apply Z.leb_le | apply Z.leb_le]; lia.
  Qed.
End RoundTrip.

(* ================================================================== Part 5: a concrete library
   instance (plain decimal / 0x-hex digits only), used for the non-vacuity examples and to show that
   the law assumed of int(.,16) by the round-trip theorem is satisfiable. *)
Definition digit_val (c : N) : option N :=
  if (48 <=? c) && (c <=? 57) then Some (c - 48)
  else if (97 <=? c) && (c <=? 102) then Some (c - 87) else None.

Fixpoint digits_val (base : N) (acc : N) (s : str) : option N :=
  match s with
  | [] => Some acc
  | c :: r => match digit_val c with
              | Some d => if d <? base then digits_val base (acc * base + d) r else None
              | None => None
              end
  end.

Definition ex_int (s : str) : option Z :=
  match s with [] => None | _ => option_map Z.of_N (digits_val 10 0 s) end.
Definition ex_hex (s : str) : option Z :=
  match s with
  | 48 :: 120 :: (_ :: _) as r => option_map Z.of_N (digits_val 16 0 r)
  | _ => None
  end.
Definition ex_float (s : str) : option N := None.
Definition ex_host (s : str) : bool := negb (str_eqb s (str_of "-bad")).
Definition ex_ip : str := str_of "127.0.0.1".

Lemma digit_val_hexdigit : forall d, d < 16 -> digit_val (hexdigit d) = Some d.
Proof.
  intros d H. unfold digit_val, hexdigit. destruct (d <? 10) eqn:E.
  - apply N.ltb_lt in E.
    replace ((48 <=? 48 + d) && (48 + d <=? 57)) with true
      by (symmetry; apply andb_true_iff; split; apply N.leb_le; lia).
    f_equal. lia.
  - apply N.ltb_ge in E.
    replace ((48 <=? 87 + d) && (87 + d <=? 57)) with false
      by (symmetry; apply andb_false_iff; right; apply N.leb_gt; lia).
    replace ((97 <=? 87 + d) && (87 + d <=? 102)) with true
      by (symmetry; apply andb_true_iff; split; apply N.leb_le; lia).
    f_equal. lia.
Qed.

Lemma ex_hex_law : forall x, x < 65536 -> ex_hex (48 :: 120 :: hex4 x) = Some (Z.of_N x).
Proof.
  intros x Hx. unfold ex_hex, hex4. cbn [digits_val].
  assert (B : forall y, y mod 16 < 16) by (intro y; apply N.mod_upper_bound; discriminate).
  rewrite !digit_val_hexdigit by apply B.
  assert (L : forall y, (y mod 16 <? 16) = true) by (intro y; apply N.ltb_lt; apply B).
  rewrite !L. cbn [option_map]. f_equal. f_equal.
  pose proof (N.div_mod x 16 ltac:(discriminate)) as D0.
  pose proof (N.div_mod (x / 16) 16 ltac:(discriminate)) as D1.
  pose proof (N.div_mod (x / 16 / 16) 16 ltac:(discriminate)) as D2.
  pose proof (N.div_mod (x / 16 / 16 / 16) 16 ltac:(discriminate)) as D3.
  replace (x / 256) with (x / 16 / 16) by (rewrite N.div_div by discriminate; reflexivity).
  replace (x / 4096) with (x / 16 / 16 / 16) by (rewrite !N.div_div by discriminate; reflexivity).
  assert (Z3 : x / 16 / 16 / 16 / 16 = 0).
  { rewrite !N.div_div by discriminate. apply N.div_small. exact Hx. }
  rewrite Z3 in D3. lia.
Qed.

(* two entries written out by hand for the examples (the real ones are regenerated in coq/gen) *)
Definition ex_tcp : entry :=
  mkEntry (mkTable (str_of "tcp") [(n_host, TStr, true); (n_port, TInt, true)]
                   [(str_of "connect_timeout", TFloat, false)])
          KTcp [(n_host, None); (n_port, None); (str_of "connect_timeout", Some (VInt 10))].
Definition ex_entries : list entry := [ex_tcp; usbtmc_entry false false true].

Lemma create_total : forall py_int py_hex py_float host_ok localhost_ip E d s,
  create py_int py_hex py_float host_ok localhost_ip E d s = Err \/
  exists t, create py_int py_hex py_float host_ok localhost_ip E d s = Ok t.
Proof. intros. destruct (create _ _ _ _ _ E d s) as [t|]; [right; exists t; reflexivity | left; reflexivity]. Qed.

Lemma create_propagates : forall py_int py_hex py_float host_ok localhost_ip E d s,
  (forall e, find_entry E (lower (hd [] (tokenise s))) = Some e ->
             parse py_int py_hex py_float (e_tbl e) d s = Err) ->
  create py_int py_hex py_float host_ok localhost_ip E d s = Err.
Proof.
  intros py_int py_hex py_float host_ok localhost_ip E d s H.
  destruct (find_entry E (lower (hd [] (tokenise s)))) as [e|] eqn:F.
  - exact (create_parse_Err py_int py_hex py_float host_ok localhost_ip E d s e F (H e eq_refl)).
  - exact (create_unknown_interface py_int py_hex py_float host_ok localhost_ip E d s F).
Qed.

(* ================================================================== Part 6: the allowed outcomes *)

Lemma same_key_spec : forall k q, same_key k q = true <-> is_kw q = true /\ key q = k.
Proof.
  intros k q. unfold same_key. rewrite andb_true_iff, str_eqb_eq. tauto.
Qed.

Lemma is_pos_kw : forall q, is_pos q = negb (is_kw q).
Proof. reflexivity. Qed.

(* a variant keeps the fields without '=', only drops keyword parts, and keeps (at least) one part
   for every keyword not decided before *)
Lemma variants_spec : forall parts chosen parts', In parts' (variants chosen parts) ->
  filter is_pos parts' = filter is_pos parts /\
  (forall q, In q parts' -> In q parts) /\
  (forall q, In q parts -> is_kw q = true -> mem (key q) chosen = false ->
     exists q', In q' parts' /\ is_kw q' = true /\ key q' = key q).
Proof.
  induction parts as [|part r IH]; intros chosen parts' H.
  - simpl in H. destruct H as [<-|[]]. repeat split; auto. intros q [].
  - simpl in H. destruct (is_kw part) eqn:K.
    + destruct (mem (key part) chosen) eqn:M.
      * destruct (IH chosen parts' H) as [A [B D]]. split; [|split].
        -- simpl. rewrite is_pos_kw, K. exact A.
        -- intros q I. right. apply B. exact I.
        -- intros q [<-|I] Kq Mq; [congruence | apply D; assumption].
      * apply in_app_or in H as [H|H].
        -- apply in_map_iff in H as [p'' [<- H]].
           destruct (IH (key part :: chosen) p'' H) as [A [B D]]. split; [|split].
           ++ simpl. rewrite is_pos_kw, K. exact A.
           ++ intros q [<-|I]; [left; reflexivity | right; apply B; exact I].
           ++ intros q Iq Kq Mq. destruct (str_eqb (key q) (key part)) eqn:E.
              ** apply str_eqb_eq in E. exists part. split; [left; reflexivity|]. split; [exact K | congruence].
              ** destruct Iq as [<-|Iq]; [rewrite str_eqb_refl in E; discriminate|].
                 destruct (D q Iq Kq) as [q' [I' [K' E']]].
                 { simpl. rewrite E. exact Mq. }
                 exists q'. split; [right; exact I' | split; assumption].
        -- destruct (existsb (same_key (key part)) r) eqn:X; [|destruct H].
           destruct (IH chosen parts' H) as [A [B D]]. split; [|split].
           ++ simpl. rewrite is_pos_kw, K. exact A.
           ++ intros q I. right. apply B. exact I.
           ++ intros q [<-|Iq] Kq Mq.
              ** apply existsb_exists in X as [q2 [I2 S2]]. apply same_key_spec in S2 as [K2 E2].
                 destruct (D q2 I2 K2) as [q' [I' [K' E']]]; [rewrite E2; exact M|].
                 exists q'. split; [exact I' | split; [exact K' | congruence]].
              ** apply D; assumption.
    + apply in_map_iff in H as [p'' [<- H]].
      destruct (IH chosen p'' H) as [A [B D]]. split; [|split].
      * simpl. rewrite is_pos_kw, K. simpl. f_equal. exact A.
      * intros q [<-|I]; [left; reflexivity | right; apply B; exact I].
      * intros q [<-|Iq] Kq Mq; [congruence|].
        destruct (D q Iq Kq Mq) as [q' [I' [K' E']]]. exists q'. split; [right; exact I' | split; assumption].
Qed.

Lemma no_repeat_variants : forall parts chosen,
  has_repeated parts = false ->
  (forall q, In q parts -> is_kw q = true -> mem (key q) chosen = false) ->
  variants chosen parts = [parts].
Proof.
  induction parts as [|part r IH]; intros chosen H Hc; [reflexivity|].
  simpl in H. apply orb_false_iff in H as [H1 H2]. simpl.
  destruct (is_kw part) eqn:K.
  - simpl in H1. rewrite (Hc part (or_introl eq_refl) K), H1. rewrite app_nil_r.
    rewrite (IH (key part :: chosen) H2); [reflexivity|].
    intros q Iq Kq. simpl. rewrite (Hc q (or_intror Iq) Kq), orb_false_r.
    destruct (str_eqb (key q) (key part)) eqn:E; [|reflexivity].
    exfalso. apply str_eqb_eq in E.
    assert (X : existsb (same_key (key part)) r = true).
    { apply existsb_exists. exists q. split; [exact Iq | apply same_key_spec; auto]. }
    congruence.
  - rewrite (IH chosen H2); [reflexivity|]. intros q Iq. apply Hc. right. exact Iq.
Qed.

Lemma last_kw_In : forall p parts v, last_kw p parts = Some v ->
  exists q, In q parts /\ key q = p /\ val q = v.
Proof.
  intros p parts. induction parts as [|part r IH]; intros v H; [discriminate|]. simpl in H.
  destruct (last_kw p r) as [v'|] eqn:L.
  - inversion H; subst. destruct (IH v eq_refl) as [q [I [A B]]]. exists q. split; [right; exact I | auto].
  - destruct (str_eqb (key part) p) eqn:E; [|discriminate]. inversion H; subst. apply str_eqb_eq in E.
    exists part. split; [left; reflexivity | auto].
Qed.

Lemma last_kw_None : forall p parts, last_kw p parts = None <-> (forall q, In q parts -> key q <> p).
Proof.
  intros p parts. induction parts as [|part r IH]; simpl.
  - split; [intros _ q [] | reflexivity].
  - destruct (last_kw p r) as [v|] eqn:L.
    + split; [discriminate|]. intro H. exfalso. destruct (last_kw_In p r v L) as [q [I [A _]]].
      apply (H q (or_intror I) A).
    + destruct (str_eqb (key part) p) eqn:E.
      * split; [discriminate|]. intro H. exfalso. apply str_eqb_eq in E. apply (H part (or_introl eq_refl) E).
      * split; [|reflexivity]. intros _ q [<-|I]; [apply str_eqb_neq; exact E | apply IH; [reflexivity | exact I]].
Qed.

Section AllowedProofs.
  Variable py_int : str -> option Z.
  Variable py_hex : str -> option Z.
  Variable py_float : str -> option N.
  Variable host_ok : str -> bool.
  Variable localhost_ip : str.
  Notation type_pos := (type_pos py_int py_float).
  Notation type_kw := (type_kw py_int py_hex py_float).
  Notation create := (create py_int py_hex py_float host_ok localhost_ip).
  Notation create_toks := (create_toks py_int py_hex py_float host_ok localhost_ip).
  Notation allowed := (allowed py_int py_hex py_float host_ok localhost_ip).

  (* what every allowed transport satisfies: as C14_faithful, with "the last part p=v" replaced by
     "one of the parts p=v the string holds" *)
  Definition faithful_any (E : list entry) (d : dict) (s : str) (t : transport) : Prop :=
    exists e itok parts ps,
      tokenise s = itok :: parts /\ In e E /\ t_iface (e_tbl e) = lower itok /\ tr_kind t = e_kind e /\
      (forall p, get p (tr_args t) = option_map (norm_arg localhost_ip (e_kind e) p) (arg_source e ps p)) /\
      (forall p, (exists q, In q parts /\ is_kw q = true /\ key q = p) ->
         exists q prm x, In q parts /\ is_kw q = true /\ key q = p /\
                         find_param p (t_kw (e_tbl e)) = Some prm /\ type_kw (pty prm) (val q) = Some x /\
                         get p ps = Some x) /\
      (forall k prm tok, nth_error (t_pos (e_tbl e)) k = Some prm -> nth_error (filter is_pos parts) k = Some tok ->
         exists x, type_pos (pty prm) tok = Some x /\ get (pname prm) ps = Some x) /\
      (forall p, given_nothing (e_tbl e) parts p ->
         get p ps = if mem p (names (e_tbl e)) then get p d else None) /\
      (forall p, ~ In p (names (e_tbl e)) -> get p ps = None).

  Lemma in_filter_kw : forall q parts, In q (filter is_kw parts) <-> In q parts /\ is_kw q = true.
  Proof. intros q parts. apply filter_In. Qed.

  (* core: a transport created from the interface token and a variant of the fields *)
  Lemma variant_faithful : forall E d s itok parts parts' t,
    entries_wf E = true -> tokenise s = itok :: parts ->
    filter is_pos parts' = filter is_pos parts ->
    (forall q, In q parts' -> In q parts) ->
    (forall q, In q parts -> is_kw q = true -> exists q', In q' parts' /\ is_kw q' = true /\ key q' = key q) ->
    create_toks E d (itok :: parts') = Ok t -> faithful_any E d s t.
  Proof.
    intros E d s itok parts parts' t WF Tk A B D H.
    destruct (faithful_create_toks py_int py_hex py_float host_ok localhost_ip E d _ t WF H)
      as [e [itok0 [parts0 [ps [Tk0 [I [Hi [Hk [_ [C0 [C1 [C2 [C3 C4]]]]]]]]]]]]].
    inversion Tk0; subst itok0 parts0. clear Tk0.
    exists e, itok, parts, ps. repeat split; auto.
    - intros p [q [Iq [Kq Eq]]].
      destruct (D q Iq Kq) as [q' [I' [K' E']]].
      destruct (last_kw p (filter is_kw parts')) as [v|] eqn:L.
      + destruct (C1 p v L) as [prm [x [F [Ty G]]]].
        destruct (last_kw_In _ _ _ L) as [q2 [I2 [A2 B2]]]. apply in_filter_kw in I2 as [I2 K2].
        exists q2, prm, x. subst v. repeat split; auto.
      + exfalso. rewrite last_kw_None in L. apply (L q'); [apply in_filter_kw; auto | congruence].
    - intros k prm tok Hp Ht. apply (C2 k prm tok Hp). rewrite A. exact Ht.
    - intros p [L PT]. apply C3. split.
      + rewrite last_kw_None in L |- *. intros q Iq. apply in_filter_kw in Iq as [Iq Kq].
        apply L. apply in_filter_kw. auto.
      + rewrite A. exact PT.
  Qed.

  (* EVERY allowed outcome is the descriptor error or a faithful transport *)
  Lemma allowed_faithful : forall E d s t,
    entries_wf E = true -> In (Ok t) (allowed E d s) -> faithful_any E d s t.
  Proof.
    intros E d s t WF H. unfold Model.allowed in H. destruct H as [H|H].
    - (* the code's own behaviour *)
      unfold Model.create in H.
      destruct (tokenise s) as [|itok parts] eqn:Tk; [discriminate|].
      apply (variant_faithful E d s itok parts parts t WF Tk eq_refl); auto.
      intros q Iq Kq. exists q. auto.
    - apply in_app_or in H as [H|H].
      + apply in_map_iff in H as [parts' [H V]].
        destruct (tokenise s) as [|itok parts] eqn:Tk.
        * simpl in V. destruct V as [<-|[]]. discriminate.
        * simpl in H, V. destruct (variants_spec parts [] parts' V) as [A [B D]].
          apply (variant_faithful E d s itok parts parts' t WF Tk A B); [|exact H].
          intros q Iq Kq. apply (D q Iq Kq). reflexivity.
      + destruct (open_err E s); [destruct H as [H|[]]; discriminate | destruct H].
  Qed.

  Lemma allowed_has_pinned : forall E d s, In (create E d s) (allowed E d s).
  Proof. intros. left. reflexivity. Qed.

  (* nothing is loosened for a strict, canonically written descriptor without repeated keyword *)
  Lemma allowed_tight : forall E d s o, open_err E s = false -> In o (allowed E d s) -> o = create E d s.
  Proof.
    intros E d s o HO H. unfold Model.allowed in H. rewrite HO, app_nil_r in H.
    destruct H as [H|H]; [congruence|].
    unfold open_err in HO. apply orb_false_iff in HO as [HO _]. apply orb_false_iff in HO as [HR _].
    rewrite (no_repeat_variants _ [] HR) in H by reflexivity. simpl in H. destruct H as [H|[]].
    subst o. unfold Model.create. destruct (tokenise s) as [|a b]; reflexivity.
  Qed.
End AllowedProofs.

(* the documented form iface:part:part... is strict *)
Lemma needs_bracket_plain : forall p, plain p -> needs_bracket p = false.
Proof.
  intros p [Hc Hh]. unfold needs_bracket.
  assert (X : existsb (N.eqb c_colon) p = false).
  { clear Hh. induction Hc as [|c p Hc H IH]; [reflexivity|]. cbn [existsb]. rewrite IH.
    destruct (c_colon =? c) eqn:E; [apply N.eqb_eq in E; congruence | reflexivity]. }
  rewrite X. destruct p as [|c p]; [contradiction|]. simpl.
  destruct (c =? c_lbr) eqn:E; [apply N.eqb_eq in E; contradiction | reflexivity].
Qed.

Lemma render_plain : forall parts, Forall plain parts -> flat_map render_part parts = join parts.
Proof.
  intros parts H. induction H as [|p parts Hp H IH]; [reflexivity|].
  cbn [flat_map join]. rewrite IH. unfold render_part. rewrite (needs_bracket_plain p Hp). reflexivity.
Qed.

Lemma strict_join : forall iface parts,
  no_colon iface -> iface <> [] -> Forall plain parts -> strict (iface ++ join parts) = true.
Proof.
  intros iface parts Hnc Hne Hp. unfold strict. rewrite (tokenise_join iface parts Hnc Hne Hp).
  unfold render. rewrite (render_plain parts Hp), str_eqb_refl. cbn [tl andb].
  apply forallb_forall. intros p I. rewrite Forall_forall in Hp.
  rewrite (needs_bracket_plain p (Hp p I)). reflexivity.
Qed.

(* ================================================================== Part 7: histories *)
Lemma history_independent : forall py_int py_hex py_float host_ok localhost_ip E calls k d s,
  nth_error calls k = Some (d, s) ->
  nth_error (run_history py_int py_hex py_float host_ok localhost_ip E calls) k
  = Some (create py_int py_hex py_float host_ok localhost_ip E d s).
Proof.
  intros py_int py_hex py_float host_ok localhost_ip E calls k d s H. unfold run_history.
  rewrite (map_nth_error _ _ _ H). reflexivity.
Qed.

Lemma history_same_call_same_outcome : forall py_int py_hex py_float host_ok localhost_ip E calls calls' k k',
  nth_error calls k = nth_error calls' k' ->
  nth_error (run_history py_int py_hex py_float host_ok localhost_ip E calls) k
  = nth_error (run_history py_int py_hex py_float host_ok localhost_ip E calls') k'.
Proof.
  intros py_int py_hex py_float host_ok localhost_ip E calls calls' k k' H. unfold run_history.
  rewrite !nth_error_map, H. reflexivity.
Qed.
