(* C14 — transport descriptors (qmi/core/transport.py): executable model, no proofs here.

   Transcribes
     TransportDescriptorParser._parse_parts            -> tokenise   (hand transcription of the regex)
     TransportDescriptorParser._is_keyword_param       -> is_kw
     TransportDescriptorParser._parse_positional_parameters -> parse_pos / type_pos
     TransportDescriptorParser._parse_keyword_parameters    -> parse_kw / type_kw / split_kw
     TransportDescriptorParser._check_missing_parameters    -> the [required] test in parse
     TransportDescriptorParser.parse_parameter_strings -> parse
     create_transport                                  -> create  (dispatch on the interface name,
                                                          first matching parser wins)
     the keyword-argument constructor call + constructor validation of QMI_SerialTransport,
     QMI_SocketTransport/QMI_TcpTransport/QMI_UdpTransport, QMI_UsbTmcTransport (QMI_PyUsbTmcTransport),
     QMI_Vxi11Transport                                -> build / fill / validate
     QMI_UsbTmcTransport._format_resources (the format string) -> format_resource

   A string is the list of its code points.  The parser tables and constructor signatures are NOT
   written here: they are regenerated from transport.py on every run (coq/gen/C14Tables.v).

   Library behaviour is a Section variable: int(s), int(s,16), float(s) (result = IEEE-754 bits),
   the host syntax predicate (_is_valid_hostname or _is_valid_ipaddress) and the address
   gethostbyname("localhost") returns.

   Where the current code lets a non-descriptor exception escape (constructor called with a missing /
   unexpected argument, a part with two '=', a host the address check cannot digest) the model gives
   [Err]: that is what the property demands.  *)
From Coq Require Export String Ascii.
From Coq Require Export List ZArith NArith Bool Lia.
Export ListNotations.
Open Scope N_scope.

Definition str := list N.

Definition str_of (x : string) : str := map (fun a => N_of_ascii a) (list_ascii_of_string x).

Fixpoint str_eqb (a b : str) : bool :=
  match a, b with
  | [], [] => true
  | x :: a', y :: b' => N.eqb x y && str_eqb a' b'
  | _, _ => false
  end.

Definition mem (x : str) (l : list str) : bool := existsb (str_eqb x) l.

Definition c_colon : N := 58.
Definition c_lbr : N := 91.
Definition c_rbr : N := 93.
Definition c_dollar : N := 36.
Definition c_nl : N := 10.
Definition c_eq : N := 61.

(* ---------------------------------------------------------------------------------------------
   Tokeniser: re.finditer of
       ((?:^([^:]+))|(?::\[(.+)[\]$])|(?::([^:]+)))
   Alternative 1 only at offset 0; alternative 2 (":[" then a greedy .+ that does not cross a
   newline, backtracking to the LAST ']' or '$' on that line); alternative 3 (":" then a non-empty
   run without ':').  Where nothing matches, finditer moves on by one character.
   ------------------------------------------------------------------------------------------- *)

(* maximal prefix without ':' *)
Fixpoint takerun (s : str) : str :=
  match s with
  | [] => []
  | c :: r => if c =? c_colon then [] else c :: takerun r
  end.

(* maximal prefix without newline ('.' does not match '\n') *)
Fixpoint line (s : str) : str :=
  match s with
  | [] => []
  | c :: r => if c =? c_nl then [] else c :: line r
  end.

Definition is_close (c : N) : bool := (c =? c_rbr) || (c =? c_dollar).

(* index of the last ']' / '$' of l *)
Fixpoint last_close' (l : str) : option nat :=
  match l with
  | [] => None
  | c :: r => match last_close' r with
              | Some j => Some (S j)
              | None => if is_close c then Some O else None
              end
  end.

(* ... ignoring index 0, since .+ needs one character *)
Definition last_close (l : str) : option nat :=
  match l with
  | [] => None
  | _ :: r => option_map S (last_close' r)
  end.

(* r = what follows a ':'.  Some q = alternative 2 matches with a group of q characters *)
Definition bracket (r : str) : option nat :=
  match r with
  | c :: r2 => if c =? c_lbr then last_close (line r2) else None
  | [] => None
  end.

(* scan skip s: the matches found in s from its first character on, the first [skip] characters
   having been consumed by the previous match *)
Fixpoint scan (skip : nat) (s : str) : list str :=
  match s with
  | [] => []
  | c :: r =>
      match skip with
      | S k => scan k r
      | O =>
          if c =? c_colon then
            match bracket r with
            | Some q => firstn q (tl r) :: scan (S (S q)) r
            | None =>
                match takerun r with
                | [] => scan O r
                | run => run :: scan (length run) r
                end
            end
          else scan O r
      end
  end.

Definition tokenise (s : str) : list str :=
  match s with
  | [] => []
  | c :: _ => if c =? c_colon then scan O s
              else takerun s :: scan (length (takerun s)) s
  end.

(* str.lower() restricted to what matters for comparing with an ASCII interface name *)
Definition lower_c (c : N) : N := if (65 <=? c) && (c <=? 90) then c + 32 else c.
Definition lower (s : str) : str := map lower_c s.
Definition upper_c (c : N) : N := if (97 <=? c) && (c <=? 122) then c - 32 else c.

(* ---------------------------------------------------------------------------------------------
   Tables, values
   ------------------------------------------------------------------------------------------- *)
Inductive ty := TStr | TInt | TFloat | TBool.

Inductive value :=
| VStr (s : str)
| VInt (z : Z)
| VFloat (bits : N)      (* IEEE-754 binary64 bit pattern *)
| VBool (b : bool)
| VNone.

Definition param := (str * ty * bool)%type.       (* name, type, required *)
Definition pname (p : param) : str := fst (fst p).
Definition pty (p : param) : ty := snd (fst p).
Definition preq (p : param) : bool := snd p.

Record table := mkTable { t_iface : str; t_pos : list param; t_kw : list param }.

Definition names (T : table) : list str := map pname (t_pos T) ++ map pname (t_kw T).
Definition required (T : table) : list str :=
  map pname (filter preq (t_pos T)) ++ map pname (filter preq (t_kw T)).

(* a Python dict as an association list; [get] returns the FIRST binding *)
Definition dict := list (str * value).
Fixpoint get (k : str) (d : dict) : option value :=
  match d with
  | [] => None
  | (k', v) :: r => if str_eqb k k' then Some v else get k r
  end.
Definition has (k : str) (d : dict) : bool := match get k d with Some _ => true | None => false end.

Fixpoint find_param (k : str) (ps : list param) : option param :=
  match ps with
  | [] => None
  | p :: r => if str_eqb k (pname p) then Some p else find_param k r
  end.

Fixpoint index_of (k : str) (l : list str) : option nat :=
  match l with
  | [] => None
  | x :: r => if str_eqb k x then Some O else option_map S (index_of k r)
  end.

(* '=' in param *)
Definition is_kw (part : str) : bool := existsb (N.eqb c_eq) part.
Definition is_pos (part : str) : bool := negb (is_kw part).

Fixpoint key (part : str) : str :=          (* text before the first '=' *)
  match part with
  | [] => []
  | c :: r => if c =? c_eq then [] else c :: key r
  end.
Fixpoint val (part : str) : str :=          (* text after the first '=' *)
  match part with
  | [] => []
  | c :: r => if c =? c_eq then r else val r
  end.

(* q = part.split('=', maxsplit=2); k, v = q   -- succeeds iff exactly one '=' *)
Definition split_kw (part : str) : option (str * str) :=
  if is_kw part && negb (is_kw (val part)) then Some (key part, val part) else None.

Definition starts_0x (v : str) : bool :=
  match v with 48 :: 120 :: _ => true | _ => false end.

Definition s_True : str := str_of "True".
Definition s_False : str := str_of "False".

Inductive res (A : Type) := Ok (a : A) | Err.
Arguments Ok {A} a.
Arguments Err {A}.

Inductive kind := KSerial | KTcp | KUdp (responder_port : Z) | KUsbTmc | KVxi11 | KUnavailable.

(* a parser table, the class create_transport instantiates for it, and that class's constructor
   signature (parameter name, default if any) *)
Record entry := mkEntry { e_tbl : table; e_kind : kind; e_ctor : list (str * option value) }.

Record transport := mkTransport { tr_kind : kind; tr_args : dict }.

Definition n_device := str_of "device".
Definition n_baudrate := str_of "baudrate".
Definition n_bytesize := str_of "bytesize".
Definition n_parity := str_of "parity".
Definition n_stopbits := str_of "stopbits".
Definition n_rtscts := str_of "rtscts".
Definition n_host := str_of "host".
Definition n_port := str_of "port".
Definition n_vendorid := str_of "vendorid".
Definition n_productid := str_of "productid".
Definition n_serialnr := str_of "serialnr".
Definition s_localhost := str_of "localhost".

Definition bits_1_0 : N := 4607182418800017408.   (* 0x3FF0000000000000 *)
Definition bits_1_5 : N := 4609434218613702656.   (* 0x3FF8000000000000 *)
Definition bits_2_0 : N := 4611686018427387904.   (* 0x4000000000000000 *)

(* device.upper().startswith("COM") or device.startswith("/") *)
Definition dev_ok (d : str) : bool :=
  match d with
  | 47 :: _ => true
  | a :: b :: c :: _ => (upper_c a =? 67) && (upper_c b =? 79) && (upper_c c =? 77)
  | _ => false
  end.

Definition parity_ok (p : str) : bool :=
  match p with
  | [c] => (c =? 78) || (c =? 69) || (c =? 79)
  | _ => false
  end.

(* stopbits in (1.0, 1.5, 2.0) *)
Definition stopbits_ok (v : value) : bool :=
  match v with
  | VFloat b => (b =? bits_1_0) || (b =? bits_1_5) || (b =? bits_2_0)
  | VInt z => (z =? 1)%Z || (z =? 2)%Z
  | _ => false
  end.

Definition port_ok (p : Z) : bool := (1 <=? p)%Z && (p <=? 65535)%Z.
Definition id_ok (p : Z) : bool := (0 <=? p)%Z && (p <=? 65535)%Z.

Fixpoint set (k : str) (v : value) (d : dict) : dict :=
  match d with
  | [] => []
  | (k', v') :: r => if str_eqb k k' then (k', v) :: r else (k', v') :: set k v r
  end.

Section Lib.
  Variable py_int : str -> option Z.       (* int(s)      ; None = ValueError *)
  Variable py_hex : str -> option Z.       (* int(s, 16)  ; None = ValueError *)
  Variable py_float : str -> option N.     (* float(s) as bits ; None = ValueError *)
  Variable host_ok : str -> bool.          (* _is_valid_hostname(h) or _is_valid_ipaddress(h) *)
  Variable localhost_ip : str.             (* socket.gethostbyname("localhost") *)

  (* ty(param) *)
  Definition type_pos (t : ty) (tok : str) : option value :=
    match t with
    | TStr => Some (VStr tok)
    | TInt => option_map VInt (py_int tok)
    | TFloat => option_map VFloat (py_float tok)
    | TBool => Some (VBool (match tok with [] => false | _ => true end))
    end.

  (* the typing branch of _parse_keyword_parameters *)
  Definition type_kw (t : ty) (v : str) : option value :=
    match t with
    | TStr => Some (VStr v)
    | TInt => option_map VInt (if starts_0x v then py_hex v else py_int v)
    | TFloat => option_map VFloat (py_float v)
    | TBool => if str_eqb v s_True then Some (VBool true)
               else if str_eqb v s_False then Some (VBool false) else None
    end.

  (* zip(self._positionals, positional_params); result in assignment order *)
  Fixpoint parse_pos (ps : list param) (toks : list str) : option dict :=
    match ps, toks with
    | p :: ps', tok :: toks' =>
        match type_pos (pty p) tok with
        | None => None
        | Some v => match parse_pos ps' toks' with
                    | None => None
                    | Some d => Some ((pname p, v) :: d)
                    end
        end
    | _, _ => Some []
    end.

  (* result in assignment order *)
  Fixpoint parse_kw (ks : list param) (parts : list str) : option dict :=
    match parts with
    | [] => Some []
    | part :: r =>
        match split_kw part with
        | None => None
        | Some (k, v) =>
            match find_param k ks with
            | None => None
            | Some p =>
                match type_kw (pty p) v with
                | None => None
                | Some x => match parse_kw ks r with
                            | None => None
                            | Some d => Some ((k, x) :: d)
                            end
                end
            end
        end
    end.

  Definition filter_defaults (T : table) (d : dict) : dict :=
    filter (fun kv => mem (fst kv) (names T)) d.

  (* the dict as a canonical association list: table order, one binding per name *)
  Definition canon (ns : list str) (d : dict) : dict :=
    flat_map (fun n => match get n d with Some v => [(n, v)] | None => [] end) ns.

  (* parse_parameter_strings on the token list; [d] = default_parameters *)
  Definition parse_toks (T : table) (d : dict) (parts : list str) : res dict :=
    if (length parts <? 2)%nat then Err
    else if negb (str_eqb (lower (hd [] parts)) (t_iface T)) then Err
    else
      let ps := tl parts in
      match parse_pos (t_pos T) (filter is_pos ps) with
      | None => Err
      | Some dp =>
          match parse_kw (t_kw T) (filter is_kw ps) with
          | None => Err
          | Some dk =>
              (* later assignments first: keywords override positionals override defaults *)
              let params := rev dk ++ rev dp ++ filter_defaults T d in
              if forallb (fun n => has n params) (required T) then Ok (canon (names T) params)
              else Err
          end
      end.

  Definition parse (T : table) (d : dict) (s : str) : res dict := parse_toks T d (tokenise s).

  (* Cls( **attrs ): every key must be a constructor parameter; every parameter needs a value *)
  Fixpoint fill (ctor : list (str * option value)) (attrs : dict) : option dict :=
    match ctor with
    | [] => Some []
    | (n, dflt) :: r =>
        match (match get n attrs with Some v => Some v | None => dflt end) with
        | None => None
        | Some v => match fill r attrs with
                    | None => None
                    | Some a => Some ((n, v) :: a)
                    end
        end
    end.

  Definition norm_host (h : str) : str := if str_eqb h s_localhost then localhost_ip else h.

  (* constructor validation; returns the arguments as the transport stores them *)
  Definition validate (k : kind) (a : dict) : option dict :=
    match k with
    | KSerial =>
        match get n_device a, get n_baudrate a, get n_bytesize a, get n_parity a,
              get n_stopbits a, get n_rtscts a with
        | Some (VStr dev), Some (VInt br), Some (VInt bs), Some (VStr par), Some sb, Some (VBool _) =>
            if dev_ok dev && (1 <=? br)%Z && (5 <=? bs)%Z && (bs <=? 8)%Z && parity_ok par && stopbits_ok sb
            then Some a else None
        | _, _, _, _, _, _ => None
        end
    | KTcp =>
        match get n_host a, get n_port a with
        | Some (VStr h), Some (VInt p) =>
            if host_ok (norm_host h) && port_ok p then Some (set n_host (VStr (norm_host h)) a) else None
        | _, _ => None
        end
    | KUdp rp =>
        match get n_host a, get n_port a with
        | Some (VStr h), Some (VInt p) =>
            if host_ok (norm_host h) && port_ok p && negb (p =? rp)%Z
            then Some (set n_host (VStr (norm_host h)) a) else None
        | _, _ => None
        end
    | KUsbTmc =>
        match get n_vendorid a, get n_productid a, get n_serialnr a with
        | Some (VInt v), Some (VInt p), Some (VStr _) => if id_ok v && id_ok p then Some a else None
        | _, _, _ => None
        end
    | KVxi11 =>
        match get n_host a with
        | Some (VStr h) => if host_ok h then Some a else None
        | _ => None
        end
    | KUnavailable => None
    end.

  Definition build (e : entry) (attrs : dict) : res transport :=
    if negb (forallb (fun kv => mem (fst kv) (map fst (e_ctor e))) attrs) then Err
    else match fill (e_ctor e) attrs with
         | None => Err
         | Some args => match validate (e_kind e) args with
                        | None => Err
                        | Some args' => Ok (mkTransport (e_kind e) args')
                        end
         end.

  Definition find_entry (E : list entry) (iface : str) : option entry :=
    find (fun e => str_eqb (t_iface (e_tbl e)) iface) E.

  (* create_transport on the token list *)
  Definition create_toks (E : list entry) (d : dict) (parts : list str) : res transport :=
    if (length parts <? 2)%nat then Err
    else match find_entry E (lower (hd [] parts)) with
         | None => Err
         | Some e => match parse_toks (e_tbl e) d parts with
                     | Err => Err
                     | Ok attrs => build e attrs
                     end
         end.

  (* create_transport(s, d): the behaviour of the code as it is (for a repeated keyword the last
     value wins, surplus fields are ignored, ...) *)
  Definition create (E : list entry) (d : dict) (s : str) : res transport := create_toks E d (tokenise s).
End Lib.

(* ---------------------------------------------------------------------------------------------
   "usbtmc:vendorid=0x{:04x}:productid=0x{:04x}:serialnr={}" for 16-bit ids
   ------------------------------------------------------------------------------------------- *)
Definition hexdigit (d : N) : N := if d <? 10 then 48 + d else 87 + d.
Definition hex4 (v : N) : str :=
  [hexdigit (v / 4096 mod 16); hexdigit (v / 256 mod 16); hexdigit (v / 16 mod 16); hexdigit (v mod 16)].
Definition format_resource (v p : N) (serial : str) : str :=
  str_of "usbtmc:vendorid=0x" ++ hex4 v ++ str_of ":productid=0x" ++ hex4 p ++ str_of ":serialnr=" ++ serial.

(* ---------------------------------------------------------------------------------------------
   Well-formedness of a regenerated table / entry (the generated obligation, by vm_compute)
   ------------------------------------------------------------------------------------------- *)
Fixpoint nodupb (l : list str) : bool :=
  match l with
  | [] => true
  | x :: r => negb (mem x r) && nodupb r
  end.

Definition plain_name (n : str) : bool :=     (* no ':' and no '=' *)
  negb (existsb (fun c => (c =? c_colon) || (c =? c_eq)) n).

Definition table_wf (T : table) : bool :=
  nodupb (names T)
  && forallb plain_name (names T)
  && negb (match t_iface T with [] => true | _ => false end)
  && str_eqb (lower (t_iface T)) (t_iface T)
  && plain_name (t_iface T).

Definition entry_wf (e : entry) : bool := table_wf (e_tbl e) && nodupb (map fst (e_ctor e)).

Definition entries_wf (E : list entry) : bool :=
  forallb entry_wf E && nodupb (map (fun e => t_iface (e_tbl e)) E).

(* the table agrees with the constructor it feeds: every table parameter is accepted, every
   constructor parameter without default is required by the table.  NOT part of entry_wf: the
   current tree violates it for serial, udp and usbtmc (reported by the harness). *)
Definition ctor_consistent (e : entry) : bool :=
  match e_kind e with
  | KUnavailable => true
  | _ => forallb (fun n => mem n (map fst (e_ctor e))) (names (e_tbl e))
         && forallb (fun cd => match snd cd with Some _ => true | None => mem (fst cd) (required (e_tbl e)) end)
                    (e_ctor e)
  end.

(* ---------------------------------------------------------------------------------------------
   The library questions parse/build can ask on (T, d, s): a superset, independent of the answers.
   Used by the correspondence to fetch the real int()/float()/host answers.  kinds: 0 int, 1 hex,
   2 float, 3 host.
   ------------------------------------------------------------------------------------------- *)
Fixpoint q_pos (ps : list param) (toks : list str) : list (N * str) :=
  match ps, toks with
  | p :: ps', tok :: toks' =>
      (match pty p with TInt => [(0, tok)] | TFloat => [(2, tok)] | TStr => [(3, tok)] | TBool => [] end)
      ++ q_pos ps' toks'
  | _, _ => []
  end.

Definition q_kw (ks : list param) (part : str) : list (N * str) :=
  match find_param (key part) ks with
  | None => []
  | Some p => match pty p with
              | TInt => [((if starts_0x (val part) then 1 else 0), val part)]
              | TFloat => [(2, val part)]
              | TStr => [(3, val part)]
              | TBool => []
              end
  end.

Definition q_defaults (d : dict) : list (N * str) :=
  flat_map (fun kv => match snd kv with VStr s => [(3, s)] | _ => [] end) d.

Definition queries_toks (T : table) (d : dict) (toks : list str) : list (N * str) :=
  let ps := tl toks in
  q_pos (t_pos T) (filter is_pos ps) ++ flat_map (q_kw (t_kw T)) (filter is_kw ps) ++ q_defaults d.

Definition queries (T : table) (d : dict) (s : str) : list (N * str) := queries_toks T d (tokenise s).

(* ---------------------------------------------------------------------------------------------
   Shapes of regenerated entries that the instance theorems need (generated obligations)
   ------------------------------------------------------------------------------------------- *)
Definition ty_eqb (a b : ty) : bool :=
  match a, b with TStr, TStr | TInt, TInt | TFloat, TFloat | TBool, TBool => true | _, _ => false end.

(* usbtmc: no positionals; keywords productid:int, serialnr:str, vendorid:int (required flags free);
   constructor takes exactly these three, without defaults.  Keyword tables and constructor
   signatures are emitted by the translator in name order (their order carries no meaning: both are
   only ever looked up by name), so this shape does not depend on the order in the source. *)
Definition usbtmc_shape (e : entry) : bool :=
  match e_kind e with KUsbTmc => true | _ => false end
  && str_eqb (t_iface (e_tbl e)) (str_of "usbtmc")
  && match t_pos (e_tbl e) with [] => true | _ => false end
  && match t_kw (e_tbl e) with
     | [a; b; c] => str_eqb (pname a) n_productid && ty_eqb (pty a) TInt
                    && str_eqb (pname b) n_serialnr && ty_eqb (pty b) TStr
                    && str_eqb (pname c) n_vendorid && ty_eqb (pty c) TInt
     | _ => false
     end
  && match e_ctor e with
     | [(a, None); (b, None); (c, None)] => str_eqb a n_productid && str_eqb b n_serialnr && str_eqb c n_vendorid
     | _ => false
     end.

(* the first positional parameter is host : str *)
Definition host_first (e : entry) : bool :=
  match t_pos (e_tbl e) with
  | p :: _ => str_eqb (pname p) n_host && ty_eqb (pty p) TStr
  | [] => false
  end.

(* ---------------------------------------------------------------------------------------------
   What the property leaves OPEN, and the set of outcomes it allows.

   The property fixes: only the descriptor error escapes; a transport carries exactly the values the
   string gives, defaults fill only what the string omits; bracketed IPv6 hosts, hexadecimal
   identifiers and listed resources parse back.  It does not fix
     (1) which value counts when one descriptor gives the SAME keyword several times: any ONE of the
         given values is faithful, and so is refusing the descriptor;
     (2) whether a descriptor outside the documented, unambiguous form is accepted at all: refusing it
         with the descriptor error is as good as what the code does today.  Outside = not [strict]
         (it is not the plain rendering iface:part:...:[part with ':']:... of its own fields: leading,
         trailing or doubled ':', text after a bracket group, a group closed by '$', brackets around a
         part that needs none, a bracket group containing ']' / '$' / newline), more fields without '='
         than the interface has positional parameters, or a number not written canonically
         (-?digits without leading zeros; 0x + hex digits; -?digits[.digits]).
   [allowed] lists the outcomes: the code's own behaviour [create] first, then (1) and (2).  For a
   strict, canonically written descriptor without a repeated keyword it is just [create]
   (Proofs.allowed_tight): nothing is loosened there.
   ------------------------------------------------------------------------------------------- *)
Definition same_key (k : str) (part : str) : bool := is_kw part && str_eqb (key part) k.

Fixpoint has_repeated (parts : list str) : bool :=
  match parts with
  | [] => false
  | part :: r => (is_kw part && existsb (same_key (key part)) r) || has_repeated r
  end.

(* all ways of keeping exactly one part per keyword (chosen = keywords already decided) *)
Fixpoint variants (chosen : list str) (parts : list str) : list (list str) :=
  match parts with
  | [] => [[]]
  | part :: r =>
      if is_kw part then
        if mem (key part) chosen then variants chosen r
        else map (cons part) (variants (key part :: chosen) r)
             ++ (if existsb (same_key (key part)) r then variants chosen r else [])
      else map (cons part) (variants chosen r)
  end.

Definition needs_bracket (p : str) : bool :=
  existsb (N.eqb c_colon) p || match p with c :: _ => c =? c_lbr | [] => true end.
Definition render_part (p : str) : str :=
  if needs_bracket p then c_colon :: c_lbr :: p ++ [c_rbr] else c_colon :: p.
Definition render (toks : list str) : str :=
  match toks with [] => [] | i :: parts => i ++ flat_map render_part parts end.
Definition bracket_clean (p : str) : bool := negb (existsb (fun c => is_close c || (c =? c_nl)) p).

Definition strict (s : str) : bool :=
  str_eqb (render (tokenise s)) s
  && forallb (fun p => negb (needs_bracket p) || bracket_clean p) (tl (tokenise s)).

Definition is_digit (c : N) : bool := (48 <=? c) && (c <=? 57).
Definition is_hexdigit (c : N) : bool :=
  is_digit c || ((97 <=? c) && (c <=? 102)) || ((65 <=? c) && (c <=? 70)).
Definition canon_digits (s : str) : bool :=
  match s with
  | [] => false
  | [c] => is_digit c
  | c :: r => is_digit c && negb (c =? 48) && forallb is_digit r
  end.
Definition strip_minus (s : str) : str := match s with 45 :: r => r | _ => s end.
Definition canon_int (s : str) : bool := canon_digits (strip_minus s).
Definition canon_hex (s : str) : bool :=
  match s with 48 :: 120 :: c :: r => forallb is_hexdigit (c :: r) | _ => false end.
Fixpoint before_dot (s : str) : str :=
  match s with [] => [] | c :: r => if c =? 46 then [] else c :: before_dot r end.
Fixpoint after_dot (s : str) : option str :=
  match s with [] => None | c :: r => if c =? 46 then Some r else after_dot r end.
Definition canon_float (s : str) : bool :=
  let u := strip_minus s in
  canon_digits (before_dot u)
  && match after_dot u with
     | None => true
     | Some f => negb (match f with [] => true | _ => false end) && forallb is_digit f
     end.

Definition noncanon_num (q : N * str) : bool :=
  match fst q with
  | 0 => negb (canon_int (snd q))
  | 1 => negb (canon_hex (snd q))
  | 2 => negb (canon_float (snd q))
  | _ => false
  end.

(* (2): the descriptor error is an allowed answer besides what the code does *)
Definition open_err (E : list entry) (s : str) : bool :=
  let toks := tokenise s in
  has_repeated (tl toks)
  || negb (strict s)
  || match find_entry E (lower (hd [] toks)) with
     | None => false
     | Some e => (length (t_pos (e_tbl e)) <? length (filter is_pos (tl toks)))%nat
                 || existsb noncanon_num (queries_toks (e_tbl e) [] toks)
     end.

Section Allowed.
  Variable py_int : str -> option Z.
  Variable py_hex : str -> option Z.
  Variable py_float : str -> option N.
  Variable host_ok : str -> bool.
  Variable localhost_ip : str.

  Definition allowed (E : list entry) (d : dict) (s : str) : list (res transport) :=
    create py_int py_hex py_float host_ok localhost_ip E d s
    :: map (fun parts' => create_toks py_int py_hex py_float host_ok localhost_ip E d (hd [] (tokenise s) :: parts'))
           (variants [] (tl (tokenise s)))
    ++ (if open_err E s then [Err] else []).

  (* the parse stage alone (TransportDescriptorParser.parse_parameter_strings) *)
  Definition open_err_parse (T : table) (s : str) : bool :=
    let toks := tokenise s in
    has_repeated (tl toks) || negb (strict s)
    || (length (t_pos T) <? length (filter is_pos (tl toks)))%nat
    || existsb noncanon_num (queries_toks T [] toks).

  Definition allowed_parse (T : table) (d : dict) (s : str) : list (res dict) :=
    parse py_int py_hex py_float T d s
    :: map (fun parts' => parse_toks py_int py_hex py_float T d (hd [] (tokenise s) :: parts'))
           (variants [] (tl (tokenise s)))
    ++ (if open_err_parse T s then [Err] else []).
End Allowed.

(* ---------------------------------------------------------------------------------------------
   A history of create_transport calls in one process: the model has no state, the k-th outcome is
   [create] of the k-th arguments (Proofs.history_independent).  The harness runs the implementation
   along call sequences and thread interleavings and compares every outcome with the outcome of the
   same call made alone in a fresh process.
   ------------------------------------------------------------------------------------------- *)
Definition run_history (py_int py_hex : str -> option Z) (py_float : str -> option N) (host_ok : str -> bool)
           (localhost_ip : str) (E : list entry) (calls : list (dict * str)) : list (res transport) :=
  map (fun c => create py_int py_hex py_float host_ok localhost_ip E (fst c) (snd c)) calls.
