(* C07 — end-to-end order for remote receivers, over the two-context system. *)
From Coq Require Import List NArith ZArith Bool Arith Lia.
Require Import QV.C07.Model QV.C07.ProofsLib QV.C07.Proofs QV.C07.ProofsThm.
Import ListNotations.
Open Scope N_scope.

Definition sigtag (m : msg) : option N := match m with MSignal _ _ _ j => Some j | _ => None end.
Definition tagged (j : N) (m : msg) : bool := match sigtag m with Some j' => N.eqb j' j | None => false end.
(* a record of publication j of context y *)
Definition rec_from (y : name) (j : N) (e : logent) : bool :=
  let '(_, (c, _, _, _), j') := e in str_eqb c y && N.eqb j' j.

Definition sent_msgs (os : list out) : list msg :=
  flat_map (fun o => match o with OSend _ m => [m] | ORes _ => [] end) os.

(* publication j1 of Y is complete for ever *)
Definition done_job (j1 : N) (Y : node) : Prop :=
  (forall b, In b (n_jobs Y) -> j_id b = j1 -> j_todo b = [] /\ j_rtodo b = [] /\ j_rsnap b <> None) /\ j1 < n_jobctr Y.

Definition OrdInv (j1 j2 : N) (sd : bool) (s : sys2) : Prop :=
  let Y := nd s sd in let X := nd s (negb sd) in let yn := n_name Y in
  done_job j1 Y /\ n_name X <> yn /\
  (forall a m b, ch s sd = a ++ m :: b -> tagged j2 m = true -> existsb (tagged j1) b = false) /\
  (forall a e b, n_log X = a ++ e :: b -> rec_from yn j1 e = true -> existsb (rec_from yn j2) b = false) /\
  (existsb (rec_from yn j2) (n_log X) = true -> existsb (tagged j1) (ch s sd) = false).

(* ---- what a node step does to jobs, log and outputs ---- *)
Lemma find_job_first j l b : find_job j l = Some b -> In b l /\ j_id b = j.
Proof. apply find_job_In. Qed.

Lemma In_put_job_weak b' l b : In b (put_job b' l) -> b = b' \/ In b l.
Proof.
  induction l as [|c r IH]; simpl; [tauto|]. destruct (j_id c =? j_id b').
  - intros [H|H]; auto.
  - intros [H|H]; auto. destruct (IH H); auto.
Qed.

Lemma step_done_job j1 n i n' os :
  node_step n i = Some (n', os) -> done_job j1 n ->
  done_job j1 n' /\ (forall m, In m (sent_msgs os) -> tagged j1 m = false).
Proof.
  intros H [HA HB].
  destruct (touches_pub i) eqn:Ht.
  2: { pose proof (step_pub _ _ _ _ H Ht) as E. unfold pubpart in E. inversion E as [[E1 E2 E3 E4]].
       split; [unfold done_job; rewrite E2, E4; auto|].
       assert (Hns : no_signal os) by (apply (step_no_signal _ _ _ _ H); intros j x ->; discriminate).
       intros m Hm. unfold sent_msgs in Hm. apply in_flat_map in Hm as [o [Ho Hm]]. destruct o as [y m'|]; [|destruct Hm].
       destruct Hm as [<-|[]]. destruct m'; try reflexivity. exfalso. eapply Hns; eauto. }
  destruct i; simpl in Ht; try discriminate; simpl in H.
  - destruct (negb (valid_name p && valid_name s)); inversion H; subst; simpl.
    + split; [split; [exact HA | simpl; lia] | intros m []].
    + split; [|intros m []]. split; [|simpl; lia]. intros b Hb Hid. simpl in Hb. apply in_app_iff in Hb as [Hb|[<-|[]]]; [apply HA; assumption|].
      simpl in Hid. lia.
  - destruct (find_job j (n_jobs n)) as [b0|] eqn:Ef; [|discriminate]. destruct (smem N.eqb r (j_todo b0)) eqn:Er; [|discriminate].
    apply find_job_first in Ef as [Hb0 Hid0]. inversion H; subst. simpl. split; [|intros m []]. split; [|exact HB].
    intros b Hb Hid. apply In_put_job_weak in Hb as [->|Hb]; [|apply HA; assumption].
    simpl in Hid. destruct (HA b0 Hb0 Hid) as (T & _). rewrite T in Er. discriminate.
  - destruct (find_job j (n_jobs n)) as [b0|] eqn:Ef; [|discriminate]. destruct (j_todo b0) eqn:Et; [|discriminate].
    destruct (j_rsnap b0) eqn:Ers; [discriminate|]. apply find_job_first in Ef as [Hb0 Hid0]. inversion H; subst. simpl.
    split; [|intros m []]. split; [|exact HB].
    intros b Hb Hid. apply In_put_job_weak in Hb as [->|Hb]; [|apply HA; assumption].
    simpl in Hid. destruct (HA b0 Hb0 Hid) as (_ & _ & T). congruence.
  - destruct (find_job j (n_jobs n)) as [b0|] eqn:Ef; [|discriminate]. destruct (smem str_eqb x (j_rtodo b0)) eqn:Ex; [|discriminate].
    apply find_job_first in Ef as [Hb0 Hid0]. inversion H; subst. simpl.
    assert (Hne : j_id b0 <> j1). { intro Hid. destruct (HA b0 Hb0 Hid) as (_ & T & _). rewrite T in Ex. discriminate. }
    split; [split; [|exact HB]|].
    + intros b Hb Hid. apply In_put_job_weak in Hb as [->|Hb]; [|apply HA; assumption]. simpl in Hid. contradiction.
    + intros m Hm. unfold send_to in Hm. destruct (can_send n x); simpl in Hm; [|destruct Hm]. destruct Hm as [<-|[]].
      unfold tagged. simpl. apply N.eqb_neq. exact Hne.
  - destruct m; try discriminate. inversion H; subst. split; [|intros m []].
    unfold done_job, deliver_remote. destruct (alookup str_eqb (key3 from pub sig) (n_lsubs n)); simpl; auto.
Qed.

(* API steps add only records of the node's own publications *)
Lemma api_step_log n i n' os :
  node_step n i = Some (n', os) -> api_input i = true ->
  exists new, n_log n' = new ++ n_log n /\ forall e, In e new -> fst (fst (fst (snd (fst e)))) = n_name n.
Proof.
  intros H Hapi. destruct (touches_pub i) eqn:Ht.
  2: { pose proof (step_pub _ _ _ _ H Ht) as E. unfold pubpart in E. inversion E. exists []. split; [simpl; congruence | intros e []]. }
  destruct i; simpl in Ht, Hapi; try discriminate; simpl in H.
  - destruct (negb (valid_name p && valid_name s)); inversion H; subst; exists []; (split; [reflexivity | intros e []]).
  - destruct (find_job j (n_jobs n)); [|discriminate]. destruct (smem N.eqb r (j_todo j0)); [|discriminate]. inversion H; subst. simpl.
    eexists [_]. split; [reflexivity|]. intros e [<-|[]]. reflexivity.
  - destruct (find_job j (n_jobs n)); [|discriminate]. destruct (j_todo j0); [|discriminate]. destruct (j_rsnap j0); [discriminate|].
    inversion H; subst. exists []. split; [reflexivity | intros e []].
  - destruct (find_job j (n_jobs n)); [|discriminate]. destruct (smem str_eqb x (j_rtodo j0)); [|discriminate]. inversion H; subst.
    exists []. split; [reflexivity | intros e []].
Qed.

(* ---- channel bookkeeping of the two-context system ---- *)
Lemma route2_sent sd os : forall s,
  nd (route2 sd os s) true = nd s true /\ nd (route2 sd os s) false = nd s false /\
  ch (route2 sd os s) sd = ch s sd ++ sent_msgs os /\ ch (route2 sd os s) (negb sd) = ch s (negb sd).
Proof.
  induction os as [|o os IH]; intro s.
  - simpl. rewrite app_nil_r. auto.
  - destruct o as [y m|r].
    2: { change (route2 sd (ORes r :: os) s) with (route2 sd os s). change (sent_msgs (ORes r :: os)) with (sent_msgs os). apply IH. }
    pose (s0 := w_ch sd (ch s sd ++ [m]) s).
    pose (s1 := match req_id_of m with Some id => w_cp sd (cp s0 sd ++ [id]) s0 | None => s0 end).
    change (route2 sd (OSend y m :: os) s) with (route2 sd os s1).
    destruct (IH s1) as (A1 & A2 & A3 & A4).
    assert (B : nd s1 true = nd s true /\ nd s1 false = nd s false /\ ch s1 sd = ch s sd ++ [m] /\ ch s1 (negb sd) = ch s (negb sd)).
    { unfold s1, s0. destruct (req_id_of m); destruct sd; simpl; auto. }
    destruct B as (B1 & B2 & B3 & B4). rewrite A1, A2, A3, A4, B1, B2, B3, B4.
    change (sent_msgs (OSend y m :: os)) with (m :: sent_msgs os). rewrite <- app_assoc. simpl. auto.
Qed.

Lemma existsb_app_f {A} (f : A -> bool) l app : (forall m, In m app -> f m = false) -> existsb f (l ++ app) = existsb f l.
Proof.
  intro H. rewrite existsb_app. replace (existsb f app) with false; [apply orb_false_r|].
  symmetry. destruct (existsb f app) eqn:E; [|reflexivity]. apply existsb_exists in E as [m [Hm Hf]]. rewrite (H m Hm) in Hf. discriminate.
Qed.

(* appending untagged-by-j1 messages to the channel *)
Lemma chan_append_ok j1 j2 (c app : list msg) :
  (forall m, In m app -> tagged j1 m = false) ->
  (forall a m b, c = a ++ m :: b -> tagged j2 m = true -> existsb (tagged j1) b = false) ->
  (forall a m b, c ++ app = a ++ m :: b -> tagged j2 m = true -> existsb (tagged j1) b = false).
Proof.
  intros Happ HC a m b E Hm.
  (* either m lies in c or in app *)
  revert a E. induction c as [|x c IH] using rev_ind; intros a E.
  - simpl in E. assert (Hsub : forall y, In y b -> In y app) by (intros y Hy; rewrite E; apply in_app_iff; right; right; exact Hy).
    destruct (existsb (tagged j1) b) eqn:Eb; [|reflexivity]. apply existsb_exists in Eb as [y [Hy Ht]]. rewrite (Happ y (Hsub y Hy)) in Ht. discriminate.
  - clear IH.
    destruct (Nat.lt_ge_cases (length a) (length (c ++ [x]))) as [Hlt|Hge].
    + (* m inside c ++ [x] *)
      assert (Hsplit : exists b1, c ++ [x] = a ++ m :: b1 /\ b = b1 ++ app).
      { revert Hlt E. generalize (c ++ [x]). intro l. revert a. induction l as [|y l IHl]; intros a Hlt E; [simpl in Hlt; lia|].
        destruct a as [|z a].
        - simpl in E. inversion E; subst. exists l. auto.
        - simpl in E. inversion E; subst. simpl in Hlt. destruct (IHl a) as (b1 & E1 & E2); [lia | assumption|].
          exists b1. split; [simpl; rewrite E1; reflexivity | exact E2]. }
      destruct Hsplit as (b1 & E1 & ->). rewrite existsb_app_f by exact Happ. eapply HC; eauto.
    + (* m inside app *)
      assert (Hsub : forall y, In y b -> In y app).
      { revert Hge E. generalize (c ++ [x]). intro l. revert a. induction l as [|y l IHl]; intros a Hge E y0 Hy0.
        - simpl in E. rewrite E. apply in_app_iff. right. right. exact Hy0.
        - destruct a as [|z a]; [simpl in Hge; lia|]. simpl in E. inversion E; subst. apply (IHl a); [simpl in Hge; lia | assumption | exact Hy0]. }
      destruct (existsb (tagged j1) b) eqn:Eb; [|reflexivity]. apply existsb_exists in Eb as [y [Hy Ht]]. rewrite (Happ y (Hsub y Hy)) in Ht. discriminate.
Qed.

Lemma err_replies_sent ids : forall n, forall m, In m (sent_msgs (snd (err_replies n ids))) -> sigtag m = None.
Proof.
  induction ids as [|id ids IH]; intros n m Hm; simpl in Hm; [destruct Hm|].
  pose proof (handle_reply_no_signal n id false) as Hs.
  destruct (handle_reply n id false) as [n1 o1]. specialize (IH n1). destruct (err_replies n1 ids) as [n2 o2]. simpl in *.
  unfold sent_msgs in Hm. rewrite flat_map_app in Hm. apply in_app_iff in Hm as [Hm|Hm]; [|apply IH; exact Hm].
  apply in_flat_map in Hm as [o [Ho Hm]]. destruct o as [y m'|]; [|destruct Hm]. destruct Hm as [<-|[]].
  destruct m'; try reflexivity. exfalso. eapply Hs; eauto.
Qed.

Lemma tagged_none j m : sigtag m = None -> tagged j m = false.
Proof. unfold tagged. intros ->. reflexivity. Qed.

(* X's log grows at its newer end by records that are not from y *)
Lemma log_prepend_other y j1 j2 (new old : list logent) :
  (forall e, In e new -> rec_from y j1 e = false /\ rec_from y j2 e = false) ->
  (forall a e b, old = a ++ e :: b -> rec_from y j1 e = true -> existsb (rec_from y j2) b = false) ->
  (forall a e b, new ++ old = a ++ e :: b -> rec_from y j1 e = true -> existsb (rec_from y j2) b = false) /\
  existsb (rec_from y j2) (new ++ old) = existsb (rec_from y j2) old.
Proof.
  intros Hnew HD. split.
  - induction new as [|x new IH]; simpl; [exact HD|].
    assert (Hnew' : forall e, In e new -> rec_from y j1 e = false /\ rec_from y j2 e = false) by (intros e He; apply Hnew; right; exact He).
    intros a e b E He. destruct a as [|z a]; simpl in E; inversion E; subst.
    + destruct (Hnew e (or_introl eq_refl)) as [H1 _]. congruence.
    + eapply (IH Hnew'); eauto.
  - rewrite existsb_app. replace (existsb (rec_from y j2) new) with false; [reflexivity|].
    symmetry. destruct (existsb (rec_from y j2) new) eqn:E; [|reflexivity]. apply existsb_exists in E as [e [He Hf]].
    destruct (Hnew e He) as [_ H2]. congruence.
Qed.

Lemma rec_from_entries y j from p s a j' rs e :
  In e (rev (mk_entries from p s a j' rs)) -> rec_from y j e = str_eqb from y && N.eqb j' j.
Proof. intro H. apply in_rev in H. unfold mk_entries in H. apply in_map_iff in H as [r [<- _]]. reflexivity. Qed.

Lemma prepend_no_j1 y j1 j2 (nw old : list logent) :
  (forall e, In e nw -> rec_from y j1 e = false) ->
  (forall a e b, old = a ++ e :: b -> rec_from y j1 e = true -> existsb (rec_from y j2) b = false) ->
  forall a e b, nw ++ old = a ++ e :: b -> rec_from y j1 e = true -> existsb (rec_from y j2) b = false.
Proof.
  induction nw as [|x nw IH]; intros Hnw HD a0 e0 b E0 He0; [eapply HD; eauto|].
  destruct a0 as [|z a0]; simpl in E0; inversion E0; subst.
  - rewrite (Hnw e0 (or_introl eq_refl)) in He0. discriminate.
  - eapply IH; eauto. intros e1 He1. apply Hnw. right. exact He1.
Qed.

Local Opaque node_step err_replies.

Lemma step2_OrdInv j1 j2 sd s l s' os :
  j1 <> j2 -> step2 s l = Some (s', os) -> OrdInv j1 j2 sd s -> OrdInv j1 j2 sd s'.
Proof.
  intros Hj H (HA & HN & HC & HD & HE).
  destruct l as [e i|e| |e]; unfold step2 in H.
  - (* API step of side e *)
    destruct (api_input i) eqn:Hapi; [|discriminate]. destruct (node_step (nd s e) i) as [[n' os']|] eqn:E; [|discriminate].
    inversion H; subst. destruct (route2_sent e os (w_nd e n' s)) as (R1 & R2 & R3 & R4).
    assert (Hnd : forall x, nd (route2 e os (w_nd e n' s)) x = if Bool.eqb x e then n' else nd s x).
    { intro x. destruct x; [rewrite R1 | rewrite R2]; destruct e; reflexivity. }
    pose proof (step_name _ _ _ _ E) as Hnm.
    destruct (Bool.bool_dec e sd) as [->|Hne].
    + (* the publisher side acts *)
      destruct (step_done_job j1 _ _ _ _ E HA) as [HA' Hm].
      unfold OrdInv. rewrite !Hnd. rewrite eqb_reflx. replace (Bool.eqb (negb sd) sd) with false by (destruct sd; reflexivity).
      rewrite R3. replace (ch (w_nd sd n' s) sd) with (ch s sd) by (destruct sd; reflexivity). rewrite Hnm.
      split; [exact HA'|]. split; [exact HN|]. split; [apply chan_append_ok; assumption|]. split; [exact HD|].
      intro Hx. rewrite existsb_app_f by exact Hm. apply HE. exact Hx.
    + (* the subscriber side acts *)
      assert (e = negb sd) by (destruct e, sd; try reflexivity; contradiction). subst e.
      destruct (api_step_log _ _ _ _ E Hapi) as (new & Hlog & Hnew).
      unfold OrdInv. rewrite !Hnd. rewrite eqb_reflx. replace (Bool.eqb sd (negb sd)) with false by (destruct sd; reflexivity).
      rewrite negb_involutive in R4. rewrite R4. replace (ch (w_nd (negb sd) n' s) sd) with (ch s sd) by (destruct sd; reflexivity).
      rewrite Hnm, Hlog.
      assert (Hnew' : forall e0, In e0 new -> rec_from (n_name (nd s sd)) j1 e0 = false /\ rec_from (n_name (nd s sd)) j2 e0 = false).
      { intros e0 He0. specialize (Hnew e0 He0). destruct e0 as [[r [[[c p] sg] a]] j]. simpl in *. subst c.
        rewrite (str_eqb_neq _ _ HN). auto. }
      destruct (log_prepend_other _ j1 j2 new (n_log (nd s (negb sd))) Hnew' HD) as [D1 D2].
      split; [exact HA|]. split; [exact HN|]. split; [exact HC|]. split; [exact D1|]. rewrite D2. exact HE.
  - (* delivery of the head of channel e *)
    destruct (ch s e) as [|m rest] eqn:Ec; [discriminate|]. destruct (up s (negb e)); [|discriminate]. cbv zeta in H.
    match type of H with match node_step ?a ?b with _ => _ end = _ => destruct (node_step a b) as [[n' os']|] eqn:E; [|discriminate] end.
    inversion H; subst.
    match type of E with node_step (nd ?ss _) _ = _ => set (s2 := ss) in * end.
    assert (Hs2 : forall x, nd s2 x = nd s x) by (intro x; unfold s2; destruct (reply_id_of m); destruct x, e; reflexivity).
    assert (Hc2 : forall x, ch s2 x = if Bool.eqb x e then rest else ch s x) by (intro x; unfold s2; destruct (reply_id_of m); destruct x, e; reflexivity).
    rewrite !Hs2 in E.
    destruct (route2_sent (negb e) os (w_nd (negb e) n' s2)) as (R1 & R2 & R3 & R4). rewrite negb_involutive in R4.
    assert (Hnd : forall x, nd (route2 (negb e) os (w_nd (negb e) n' s2)) x = if Bool.eqb x (negb e) then n' else nd s x).
    { intro x. destruct x; [rewrite R1 | rewrite R2]; destruct e; simpl; try reflexivity; first [exact (Hs2 true) | exact (Hs2 false)]. }
    pose proof (step_name _ _ _ _ E) as Hnm.
    destruct (Bool.bool_dec e sd) as [->|Hne].
    + (* a message of the publisher reaches the subscriber *)
      unfold OrdInv. rewrite !Hnd. rewrite eqb_reflx. replace (Bool.eqb sd (negb sd)) with false by (destruct sd; reflexivity).
      assert (Hrest : ch (w_nd (negb sd) n' s2) sd = rest) by (transitivity (ch s2 sd); [destruct sd; reflexivity | rewrite Hc2, eqb_reflx; reflexivity]).
      rewrite R4, Hrest.
      rewrite Hnm. rewrite Ec in HC, HE.
      assert (HC' : forall a m0 b, rest = a ++ m0 :: b -> tagged j2 m0 = true -> existsb (tagged j1) b = false).
      { intros a m0 b Er Hm0. apply (HC (m :: a) m0 b); [rewrite Er; reflexivity | exact Hm0]. }
      split; [exact HA|]. split; [exact HN|]. split; [exact HC'|].
      destruct m as [p sg a j|id p sg f|id ok|p sg].
      * (* a signal *)
        Local Transparent node_step. simpl in E. Local Opaque node_step. injection E as En Eos. rewrite <- En. clear En. unfold deliver_remote.
        destruct (alookup str_eqb (key3 (n_name (nd s sd)) p sg) (n_lsubs (nd s (negb sd)))) as [rs|]; simpl.
        2: { split; [exact HD|]. intro Hx. specialize (HE Hx). simpl in HE. apply orb_false_iff in HE. apply HE. }
        set (new := rev (mk_entries (n_name (nd s sd)) p sg a j rs)).
        assert (Hrf : forall jj e0, In e0 new -> rec_from (n_name (nd s sd)) jj e0 = N.eqb j jj).
        { intros jj e0 He0. rewrite (rec_from_entries _ jj _ _ _ _ _ _ _ He0). rewrite str_eqb_refl. reflexivity. }
        destruct (N.eq_dec j j1) as [->|Hn1].
        -- (* records of j1: nothing of j2 may be in the queue yet *)
           assert (Hold : existsb (rec_from (n_name (nd s sd)) j2) (n_log (nd s (negb sd))) = false).
           { destruct (existsb (rec_from (n_name (nd s sd)) j2) (n_log (nd s (negb sd)))) eqn:Ex; [|reflexivity].
             specialize (HE eq_refl). simpl in HE. unfold tagged in HE at 1. simpl in HE. rewrite N.eqb_refl in HE. discriminate. }
           assert (Hall : existsb (rec_from (n_name (nd s sd)) j2) (new ++ n_log (nd s (negb sd))) = false).
           { rewrite existsb_app, Hold, orb_false_r. destruct (existsb (rec_from (n_name (nd s sd)) j2) new) eqn:Ex; [|reflexivity].
             apply existsb_exists in Ex as [e0 [He0 Hf]]. rewrite (Hrf j2 e0 He0) in Hf. apply N.eqb_eq in Hf. contradiction. }
           split; [|rewrite Hall; discriminate].
           intros a0 e0 b E0 He0. destruct (existsb (rec_from (n_name (nd s sd)) j2) b) eqn:Eb; [|reflexivity].
           apply existsb_exists in Eb as [x [Hx Hfx]].
           assert (Hin : In x (new ++ n_log (nd s (negb sd)))) by (rewrite E0; apply in_app_iff; right; right; exact Hx).
           assert (existsb (rec_from (n_name (nd s sd)) j2) (new ++ n_log (nd s (negb sd))) = true) by (apply existsb_exists; eauto). congruence.
        -- assert (Hnew' : forall e0, In e0 new -> rec_from (n_name (nd s sd)) j1 e0 = false).
           { intros e0 He0. rewrite (Hrf j1 e0 He0). apply N.eqb_neq. exact Hn1. }
           split.
           ++ (* D: a j1 record can only be in the old part *)
              apply prepend_no_j1; assumption.
           ++ intro Hx. destruct (N.eq_dec j j2) as [->|Hn2].
              ** apply (HC [] (MSignal p sg a j2) rest eq_refl). unfold tagged. simpl. apply N.eqb_refl.
              ** rewrite existsb_app in Hx. apply orb_true_iff in Hx as [Hx|Hx].
                 --- apply existsb_exists in Hx as [e0 [He0 Hf]]. rewrite (Hrf j2 e0 He0) in Hf. apply N.eqb_eq in Hf. contradiction.
                 --- specialize (HE Hx). simpl in HE. apply orb_false_iff in HE. apply HE.
      * assert (Ht : touches_pub (IRecv (n_name (nd s sd)) (MSubReq id p sg f)) = false) by reflexivity.
        pose proof (step_pub _ _ _ _ E Ht) as Ep. unfold pubpart in Ep. inversion Ep as [[E1 E2 E3 E4]]. rewrite E3.
        split; [exact HD|]. intro Hx. specialize (HE Hx). simpl in HE. exact HE.
      * assert (Ht : touches_pub (IRecv (n_name (nd s sd)) (MSubReply id ok)) = false) by reflexivity.
        pose proof (step_pub _ _ _ _ E Ht) as Ep. unfold pubpart in Ep. inversion Ep as [[E1 E2 E3 E4]]. rewrite E3.
        split; [exact HD|]. intro Hx. specialize (HE Hx). simpl in HE. exact HE.
      * assert (Ht : touches_pub (IRecv (n_name (nd s sd)) (MRemoved p sg)) = false) by reflexivity.
        pose proof (step_pub _ _ _ _ E Ht) as Ep. unfold pubpart in Ep. inversion Ep as [[E1 E2 E3 E4]]. rewrite E3.
        split; [exact HD|]. intro Hx. specialize (HE Hx). simpl in HE. exact HE.
    + (* a message of the subscriber reaches the publisher *)
      assert (e = negb sd) by (destruct e, sd; try reflexivity; contradiction). subst e. rewrite negb_involutive in *.
      destruct (step_done_job j1 _ _ _ _ E HA) as [HA' Hm].
      unfold OrdInv. rewrite !Hnd. rewrite eqb_reflx. replace (Bool.eqb (negb sd) sd) with false by (destruct sd; reflexivity).
      assert (Hsame : ch (w_nd sd n' s2) sd = ch s sd) by (transitivity (ch s2 sd); [destruct sd; reflexivity | rewrite Hc2; destruct sd; reflexivity]).
      rewrite R3, Hsame.
      rewrite Hnm.
      split; [exact HA'|]. split; [exact HN|]. split; [apply chan_append_ok; assumption|]. split; [exact HD|].
      intro Hx. rewrite existsb_app_f by exact Hm. apply HE. exact Hx.
  - (* connect *)
    destruct (negb (up s true) && negb (up s false)); [|discriminate].
    Local Transparent node_step. simpl in H. Local Opaque node_step. inversion H; subst.
    unfold OrdInv. destruct sd; simpl in *; (split; [exact HA|]; split; [exact HN|]; split; [intros a m b E0; destruct a; discriminate|];
      split; [exact HD | reflexivity]).
  - (* close *)
    destruct (up s e); [|discriminate].
    Local Transparent node_step. simpl in H. Local Opaque node_step.
    set (n1 := peer_removed (w_peers (sdel str_eqb (n_name (nd s (negb e))) (n_peers (nd s e))) (nd s e)) (n_name (nd s (negb e)))) in *.
    pose proof (err_replies_pub (cp s e) n1) as Hp. pose proof (err_replies_sent (cp s e) n1) as Hsent.
    destruct (err_replies n1 (cp s e)) as [n2 os2]. simpl in Hp, Hsent. inversion H; subst.
    assert (Hpub : pubpart n2 = pubpart (nd s e)) by (rewrite Hp; reflexivity).
    unfold pubpart in Hpub. inversion Hpub as [[E1 E2 E3 E4]].
    destruct (route2_sent e os (w_cp e [] (w_nd e n2 s))) as (R1 & R2 & R3 & R4).
    assert (Hnd : forall x, nd (route2 e os (w_cp e [] (w_nd e n2 s))) x = if Bool.eqb x e then n2 else nd s x).
    { intro x. destruct x; [rewrite R1 | rewrite R2]; destruct e; reflexivity. }
    assert (Hm : forall m, In m (sent_msgs os) -> tagged j1 m = false) by (intros m Hm; apply tagged_none, Hsent, Hm).
    destruct (Bool.bool_dec e sd) as [->|Hne].
    + unfold OrdInv. rewrite !Hnd. rewrite eqb_reflx. replace (Bool.eqb (negb sd) sd) with false by (destruct sd; reflexivity).
      rewrite R3. replace (ch (w_cp sd [] (w_nd sd n2 s)) sd) with (ch s sd) by (destruct sd; reflexivity). rewrite E1.
      split; [unfold done_job; rewrite E2, E4; exact HA|]. split; [exact HN|]. split; [apply chan_append_ok; assumption|]. split; [exact HD|].
      intro Hx. rewrite existsb_app_f by exact Hm. apply HE. exact Hx.
    + assert (e = negb sd) by (destruct e, sd; try reflexivity; contradiction). subst e.
      unfold OrdInv. rewrite !Hnd. rewrite eqb_reflx. replace (Bool.eqb sd (negb sd)) with false by (destruct sd; reflexivity).
      rewrite negb_involutive in R4. rewrite R4. replace (ch (w_cp (negb sd) [] (w_nd (negb sd) n2 s)) sd) with (ch s sd) by (destruct sd; reflexivity).
      rewrite E1, E3. split; [exact HA|]. split; [exact HN|]. split; [exact HC|]. split; [exact HD | exact HE].
Qed.

Lemma run2_OrdInv j1 j2 sd ls : forall s s', j1 <> j2 -> run2 s ls = Some s' -> OrdInv j1 j2 sd s -> OrdInv j1 j2 sd s'.
Proof.
  induction ls as [|l r IH]; simpl; intros s s' Hj H HO.
  - inversion H; subst. exact HO.
  - destruct (step2 s l) as [[s1 os]|] eqn:E; [|discriminate]. eapply IH; eauto. eapply step2_OrdInv; eauto.
Qed.

(* THE theorem.  Publisher Y = side sd, subscriber X = the other side.  In state s1 publication j1 of Y
   is complete (all receivers and peers served) and publication j2 has not produced anything yet (the same
   thread publishes j2 after j1).  Then after ANY further history, in the queue of every receiver of X
   (the queue is the projection of n_log, newest first) no record of j2 is older than a record of j1. *)
Lemma remote_order j1 j2 sd s1 ls s2 :
  j1 <> j2 ->
  done_job j1 (nd s1 sd) -> n_name (nd s1 (negb sd)) <> n_name (nd s1 sd) ->
  existsb (tagged j2) (ch s1 sd) = false ->
  existsb (rec_from (n_name (nd s1 sd)) j2) (n_log (nd s1 (negb sd))) = false ->
  run2 s1 ls = Some s2 ->
  forall a e b, n_log (nd s2 (negb sd)) = a ++ e :: b -> rec_from (n_name (nd s2 sd)) j1 e = true ->
  existsb (rec_from (n_name (nd s2 sd)) j2) b = false.
Proof.
  intros Hj HA HN Hc Hl Hr.
  assert (HO : OrdInv j1 j2 sd s1).
  { unfold OrdInv. split; [exact HA|]. split; [exact HN|]. split; [|split].
    - intros a m b E Hm. exfalso. assert (existsb (tagged j2) (ch s1 sd) = true); [|congruence].
      apply existsb_exists. exists m. split; [rewrite E; apply in_app_iff; right; left; reflexivity | exact Hm].
    - intros a e b E He. destruct (existsb (rec_from (n_name (nd s1 sd)) j2) b) eqn:Eb; [|reflexivity].
      apply existsb_exists in Eb as [x [Hx Hf]].
      assert (existsb (rec_from (n_name (nd s1 sd)) j2) (n_log (nd s1 (negb sd))) = true); [|congruence].
      apply existsb_exists. exists x. split; [rewrite E; apply in_app_iff; right; right; exact Hx | exact Hf].
    - intro Hx. congruence. }
  pose proof (run2_OrdInv j1 j2 sd ls s1 s2 Hj Hr HO) as (_ & _ & _ & HD & _). exact HD.
Qed.

(* ---- a publication number not yet handed out has produced nothing ---- *)
Definition FT (sd : bool) (s : sys2) : Prop :=
  let Y := nd s sd in let X := nd s (negb sd) in
  (forall b, In b (n_jobs Y) -> j_id b < n_jobctr Y) /\ n_name X <> n_name Y /\
  (forall m j, In m (ch s sd) -> sigtag m = Some j -> j < n_jobctr Y) /\
  (forall e j, In e (n_log X) -> rec_from (n_name Y) j e = true -> j < n_jobctr Y).

Local Transparent node_step.

Lemma step_fresh n i n' os :
  node_step n i = Some (n', os) -> (forall b, In b (n_jobs n) -> j_id b < n_jobctr n) ->
  (forall b, In b (n_jobs n') -> j_id b < n_jobctr n') /\ n_jobctr n <= n_jobctr n' /\
  (forall m j, In m (sent_msgs os) -> sigtag m = Some j -> j < n_jobctr n').
Proof.
  intros H HJ.
  destruct (touches_pub i) eqn:Ht.
  2: { pose proof (step_pub _ _ _ _ H Ht) as E. unfold pubpart in E. inversion E as [[E1 E2 E3 E4]]. rewrite E2, E4.
       split; [exact HJ|]. split; [lia|].
       assert (Hns : no_signal os) by (apply (step_no_signal _ _ _ _ H); intros j x ->; discriminate).
       intros m j Hm Hs. unfold sent_msgs in Hm. apply in_flat_map in Hm as [o [Ho Hm]]. destruct o as [y m'|]; [|destruct Hm].
       destruct Hm as [<-|[]]. destruct m'; try discriminate. exfalso. eapply Hns; eauto. }
  destruct i; simpl in Ht; try discriminate; simpl in H.
  - destruct (negb (valid_name p && valid_name s)); inversion H; subst; simpl.
    + split; [intros b Hb; specialize (HJ b Hb); lia|]. split; [lia | intros m j []].
    + split; [|split; [lia | intros m j []]]. intros b Hb. apply in_app_iff in Hb as [Hb|[<-|[]]]; [specialize (HJ b Hb); lia | simpl; lia].
  - destruct (find_job j (n_jobs n)) as [b0|] eqn:Ef; [|discriminate]. destruct (smem N.eqb r (j_todo b0)); [|discriminate].
    apply find_job_first in Ef as [Hb0 Hid0]. inversion H; subst. simpl. split; [|split; [lia | intros m j0 []]].
    intros b Hb. apply In_put_job_weak in Hb as [->|Hb]; [simpl; apply HJ; exact Hb0 | apply HJ; exact Hb].
  - destruct (find_job j (n_jobs n)) as [b0|] eqn:Ef; [|discriminate]. destruct (j_todo b0); [|discriminate]. destruct (j_rsnap b0); [discriminate|].
    apply find_job_first in Ef as [Hb0 Hid0]. inversion H; subst. simpl. split; [|split; [lia | intros m j0 []]].
    intros b Hb. apply In_put_job_weak in Hb as [->|Hb]; [simpl; apply HJ; exact Hb0 | apply HJ; exact Hb].
  - destruct (find_job j (n_jobs n)) as [b0|] eqn:Ef; [|discriminate]. destruct (smem str_eqb x (j_rtodo b0)); [|discriminate].
    apply find_job_first in Ef as [Hb0 Hid0]. inversion H; subst. simpl. split; [|split; [lia|]].
    + intros b Hb. apply In_put_job_weak in Hb as [->|Hb]; [simpl; apply HJ; exact Hb0 | apply HJ; exact Hb].
    + intros m j0 Hm Hs. unfold send_to in Hm. destruct (can_send n x); simpl in Hm; [|destruct Hm]. destruct Hm as [<-|[]].
      simpl in Hs. inversion Hs; subst. apply HJ. exact Hb0.
  - destruct m; try discriminate. inversion H; subst. unfold deliver_remote.
    destruct (alookup str_eqb (key3 from pub sig) (n_lsubs n)); simpl; (split; [exact HJ|]; split; [lia | intros m j0 []]).
Qed.

Local Opaque node_step.

Lemma step2_FT sd s l s' os : step2 s l = Some (s', os) -> FT sd s -> FT sd s'.
Proof.
  intros H (HJ & HN & HC & HL).
  destruct l as [e i|e| |e]; unfold step2 in H.
  - destruct (api_input i) eqn:Hapi; [|discriminate]. destruct (node_step (nd s e) i) as [[n' os']|] eqn:E; [|discriminate].
    inversion H; subst. destruct (route2_sent e os (w_nd e n' s)) as (R1 & R2 & R3 & R4).
    assert (Hnd : forall x, nd (route2 e os (w_nd e n' s)) x = if Bool.eqb x e then n' else nd s x).
    { intro x. destruct x; [rewrite R1 | rewrite R2]; destruct e; reflexivity. }
    pose proof (step_name _ _ _ _ E) as Hnm.
    destruct (Bool.bool_dec e sd) as [->|Hne].
    + destruct (step_fresh _ _ _ _ E HJ) as (F1 & F2 & F3).
      unfold FT. rewrite !Hnd. rewrite eqb_reflx. replace (Bool.eqb (negb sd) sd) with false by (destruct sd; reflexivity).
      rewrite R3. replace (ch (w_nd sd n' s) sd) with (ch s sd) by (destruct sd; reflexivity). rewrite Hnm.
      split; [exact F1|]. split; [exact HN|]. split.
      * intros m j Hm Hs. apply in_app_iff in Hm as [Hm|Hm]; [specialize (HC m j Hm Hs); lia | eapply F3; eauto].
      * intros e0 j He0 Hr. specialize (HL e0 j He0 Hr). lia.
    + assert (e = negb sd) by (destruct e, sd; try reflexivity; contradiction). subst e.
      destruct (api_step_log _ _ _ _ E Hapi) as (new & Hlog & Hnew).
      unfold FT. rewrite !Hnd. rewrite eqb_reflx. replace (Bool.eqb sd (negb sd)) with false by (destruct sd; reflexivity).
      rewrite negb_involutive in R4. rewrite R4. replace (ch (w_nd (negb sd) n' s) sd) with (ch s sd) by (destruct sd; reflexivity).
      rewrite Hnm, Hlog. split; [exact HJ|]. split; [exact HN|]. split; [exact HC|].
      intros e0 j He0 Hr. apply in_app_iff in He0 as [He0|He0]; [|eapply HL; eauto].
      exfalso. specialize (Hnew e0 He0). destruct e0 as [[r [[[c p] sg] a]] j0]. simpl in *. subst c.
      rewrite (str_eqb_neq _ _ HN) in Hr. discriminate.
  - destruct (ch s e) as [|m rest] eqn:Ec; [discriminate|]. destruct (up s (negb e)); [|discriminate]. cbv zeta in H.
    match type of H with match node_step ?a ?b with _ => _ end = _ => destruct (node_step a b) as [[n' os']|] eqn:E; [|discriminate] end.
    inversion H; subst.
    match type of E with node_step (nd ?ss _) _ = _ => set (s2 := ss) in * end.
    assert (Hs2 : forall x, nd s2 x = nd s x) by (intro x; unfold s2; destruct (reply_id_of m); destruct x, e; reflexivity).
    assert (Hc2 : forall x, ch s2 x = if Bool.eqb x e then rest else ch s x) by (intro x; unfold s2; destruct (reply_id_of m); destruct x, e; reflexivity).
    rewrite !Hs2 in E.
    destruct (route2_sent (negb e) os (w_nd (negb e) n' s2)) as (R1 & R2 & R3 & R4). rewrite negb_involutive in R4.
    assert (Hnd : forall x, nd (route2 (negb e) os (w_nd (negb e) n' s2)) x = if Bool.eqb x (negb e) then n' else nd s x).
    { intro x. destruct x; [rewrite R1 | rewrite R2]; destruct e; simpl; try reflexivity; first [exact (Hs2 true) | exact (Hs2 false)]. }
    pose proof (step_name _ _ _ _ E) as Hnm.
    destruct (Bool.bool_dec e sd) as [->|Hne].
    + unfold FT. rewrite !Hnd. rewrite eqb_reflx. replace (Bool.eqb sd (negb sd)) with false by (destruct sd; reflexivity).
      assert (Hrest : ch (w_nd (negb sd) n' s2) sd = rest) by (transitivity (ch s2 sd); [destruct sd; reflexivity | rewrite Hc2, eqb_reflx; reflexivity]).
      rewrite R4, Hrest, Hnm. rewrite Ec in HC.
      split; [exact HJ|]. split; [exact HN|]. split; [intros m0 j Hm0; apply HC; right; exact Hm0|].
      destruct m as [p sg a j|id p sg f|id ok|p sg].
      * Local Transparent node_step. simpl in E. Local Opaque node_step. injection E as En Eos. rewrite <- En. clear En. unfold deliver_remote.
        destruct (alookup str_eqb (key3 (n_name (nd s sd)) p sg) (n_lsubs (nd s (negb sd)))) as [rs|]; simpl; [|exact HL].
        intros e0 j0 He0 Hr. apply in_app_iff in He0 as [He0|He0]; [|eapply HL; eauto].
        rewrite (rec_from_entries _ j0 _ _ _ _ _ _ _ He0) in Hr. apply andb_true_iff in Hr as [_ Hr]. apply N.eqb_eq in Hr. subst j0.
        apply (HC (MSignal p sg a j) j (or_introl eq_refl) eq_refl).
      * assert (Ht : touches_pub (IRecv (n_name (nd s sd)) (MSubReq id p sg f)) = false) by reflexivity.
        pose proof (step_pub _ _ _ _ E Ht) as Ep. unfold pubpart in Ep. inversion Ep as [[E1 E2 E3 E4]]. rewrite E3. exact HL.
      * assert (Ht : touches_pub (IRecv (n_name (nd s sd)) (MSubReply id ok)) = false) by reflexivity.
        pose proof (step_pub _ _ _ _ E Ht) as Ep. unfold pubpart in Ep. inversion Ep as [[E1 E2 E3 E4]]. rewrite E3. exact HL.
      * assert (Ht : touches_pub (IRecv (n_name (nd s sd)) (MRemoved p sg)) = false) by reflexivity.
        pose proof (step_pub _ _ _ _ E Ht) as Ep. unfold pubpart in Ep. inversion Ep as [[E1 E2 E3 E4]]. rewrite E3. exact HL.
    + assert (e = negb sd) by (destruct e, sd; try reflexivity; contradiction). subst e. rewrite negb_involutive in *.
      destruct (step_fresh _ _ _ _ E HJ) as (F1 & F2 & F3).
      unfold FT. rewrite !Hnd. rewrite eqb_reflx. replace (Bool.eqb (negb sd) sd) with false by (destruct sd; reflexivity).
      assert (Hsame : ch (w_nd sd n' s2) sd = ch s sd) by (transitivity (ch s2 sd); [destruct sd; reflexivity | rewrite Hc2; destruct sd; reflexivity]).
      rewrite R3, Hsame, Hnm. split; [exact F1|]. split; [exact HN|]. split.
      * intros m0 j Hm0 Hs. apply in_app_iff in Hm0 as [Hm0|Hm0]; [specialize (HC m0 j Hm0 Hs); lia | eapply F3; eauto].
      * intros e0 j He0 Hr. specialize (HL e0 j He0 Hr). lia.
  - destruct (negb (up s true) && negb (up s false)); [|discriminate].
    Local Transparent node_step. simpl in H. Local Opaque node_step. inversion H; subst.
    unfold FT. destruct sd; simpl in *; (split; [exact HJ|]; split; [exact HN|]; split; [intros m j [] | exact HL]).
  - destruct (up s e); [|discriminate].
    Local Transparent node_step. simpl in H. Local Opaque node_step.
    set (n1 := peer_removed (w_peers (sdel str_eqb (n_name (nd s (negb e))) (n_peers (nd s e))) (nd s e)) (n_name (nd s (negb e)))) in *.
    pose proof (err_replies_pub (cp s e) n1) as Hp. pose proof (err_replies_sent (cp s e) n1) as Hsent.
    destruct (err_replies n1 (cp s e)) as [n2 os2]. simpl in Hp, Hsent. inversion H; subst.
    assert (Hpub : pubpart n2 = pubpart (nd s e)) by (rewrite Hp; reflexivity).
    unfold pubpart in Hpub. inversion Hpub as [[E1 E2 E3 E4]].
    destruct (route2_sent e os (w_cp e [] (w_nd e n2 s))) as (R1 & R2 & R3 & R4).
    assert (Hnd : forall x, nd (route2 e os (w_cp e [] (w_nd e n2 s))) x = if Bool.eqb x e then n2 else nd s x).
    { intro x. destruct x; [rewrite R1 | rewrite R2]; destruct e; reflexivity. }
    destruct (Bool.bool_dec e sd) as [->|Hne].
    + unfold FT. rewrite !Hnd. rewrite eqb_reflx. replace (Bool.eqb (negb sd) sd) with false by (destruct sd; reflexivity).
      rewrite R3. replace (ch (w_cp sd [] (w_nd sd n2 s)) sd) with (ch s sd) by (destruct sd; reflexivity). rewrite E1, E2, E4.
      split; [exact HJ|]. split; [exact HN|]. split; [|exact HL].
      intros m j Hm Hs. apply in_app_iff in Hm as [Hm|Hm]; [eapply HC; eauto|]. rewrite (Hsent m Hm) in Hs. discriminate.
    + assert (e = negb sd) by (destruct e, sd; try reflexivity; contradiction). subst e.
      unfold FT. rewrite !Hnd. rewrite eqb_reflx. replace (Bool.eqb sd (negb sd)) with false by (destruct sd; reflexivity).
      rewrite negb_involutive in R4. rewrite R4. replace (ch (w_cp (negb sd) [] (w_nd (negb sd) n2 s)) sd) with (ch s sd) by (destruct sd; reflexivity).
      rewrite E1, E3. split; [exact HJ|]. split; [exact HN|]. split; [exact HC | exact HL].
Qed.

Lemma run2_FT sd ls : forall s s', run2 s ls = Some s' -> FT sd s -> FT sd s'.
Proof.
  induction ls as [|l r IH]; simpl; intros s s' H HF.
  - inversion H; subst. exact HF.
  - destruct (step2 s l) as [[s1 os]|] eqn:E; [|discriminate]. eapply IH; eauto. eapply step2_FT; eauto.
Qed.

Lemma init2_FT sd a b oa ob : a <> b -> FT sd (init2 a b oa ob).
Proof. intro H. unfold FT. destruct sd; simpl; (split; [intros x []|]; split; [congruence|]; split; [intros m j [] | intros e j []]). Qed.

(* the end-to-end statement from the initial state *)
Lemma remote_order_reachable a b oa ob ls1 s1 ls2 s2 sd j1 j2 :
  a <> b -> run2 (init2 a b oa ob) ls1 = Some s1 ->
  done_job j1 (nd s1 sd) -> n_jobctr (nd s1 sd) <= j2 ->
  run2 s1 ls2 = Some s2 ->
  forall x e y, n_log (nd s2 (negb sd)) = x ++ e :: y -> rec_from (n_name (nd s2 sd)) j1 e = true ->
  existsb (rec_from (n_name (nd s2 sd)) j2) y = false.
Proof.
  intros Hab H1 HA Hj2 H2.
  pose proof (run2_FT sd ls1 _ _ H1 (init2_FT sd a b oa ob Hab)) as (F1 & F2 & F3 & F4).
  assert (Hj : j1 <> j2) by (destruct HA as [_ HB]; lia).
  apply (remote_order j1 j2 sd s1 ls2 s2 Hj HA F2); [| |exact H2].
  - destruct (existsb (tagged j2) (ch s1 sd)) eqn:E; [|reflexivity]. exfalso.
    apply existsb_exists in E as [m [Hm Ht]]. unfold tagged in Ht. destruct (sigtag m) as [j|] eqn:Es; [|discriminate].
    apply N.eqb_eq in Ht. subst j. specialize (F3 m j2 Hm Es). lia.
  - destruct (existsb (rec_from (n_name (nd s1 sd)) j2) (n_log (nd s1 (negb sd)))) eqn:E; [|reflexivity]. exfalso.
    apply existsb_exists in E as [e [He Hr]]. specialize (F4 e j2 He Hr). lia.
Qed.
