(* C07 — property theorems only.  Statements are about [node_step]/[node_run] of Model.v, the very
   functions the correspondence evaluates against qmi.core.pubsub.SignalManager, for EVERY input
   sequence a node can see (API calls of any number of threads interleaved at handler / lock-region
   granularity, and any messages from peers: [reachable] only excludes a message whose source is
   the node itself and subscription requests naming objects with a '.').  A receiver's queue is the
   projection of [n_log] on its id; [cnt nm j r log] counts the records of publication j of context
   nm in the queue of receiver r. *)
From Coq Require Import List NArith ZArith Bool.
Require Import QV.C07.Model QV.C07.ProofsLib QV.C07.Proofs QV.C07.ProofsThm QV.C07.ProofsOrder.
Import ListNotations.
Open Scope N_scope.

(* names accepted by is_valid_object_name contain no '.' *)
Theorem C07_valid_name_no_dot : forall n, valid_name n = true -> nodot n = true.
Proof. exact valid_nodot. Qed.
Print Assumptions C07_valid_name_no_dot.

(* joining with '.' is injective on such names: two different (context, publisher, signal)
   triples never share a table entry *)
Theorem C07_join_dot_injective : forall c p s c' p' s',
  nodot c = true -> nodot p = true -> nodot c' = true -> nodot p' = true ->
  key3 c p s = key3 c' p' s' -> c = c' /\ p = p' /\ s = s'.
Proof. exact key3_inj. Qed.
Print Assumptions C07_join_dot_injective.

Theorem C07_join_dot_injective2 : forall p s p' s',
  nodot p = true -> nodot p' = true -> key2 p s = key2 p' s' -> p = p' /\ s = s'.
Proof. exact key2_inj. Qed.
Print Assumptions C07_join_dot_injective2.

(* the prefix tests of handle_object_removed / handle_peer_context_removed select exactly the
   entries of that object / that context *)
Theorem C07_prefix_tests_exact :
  (forall x c p s, nodot x = true -> nodot c = true -> (startswith (x ++ [DOT]) (key3 c p s) = true <-> x = c)) /\
  (forall me o c p s, nodot me = true -> nodot o = true -> nodot c = true -> nodot p = true ->
     (startswith (me ++ DOT :: o ++ [DOT]) (key3 c p s) = true <-> me = c /\ o = p)) /\
  (forall o p s, nodot o = true -> nodot p = true -> (startswith (o ++ [DOT]) (key2 p s) = true <-> o = p)).
Proof. exact (conj prefix_ctx (conj prefix_obj3 prefix_obj2)). Qed.
Print Assumptions C07_prefix_tests_exact.

(* every key stored in the tables of a reachable state is such a join *)
Theorem C07_keys_well_formed : forall nm objs n,
  nodot nm = true -> reachable nm objs n ->
  (forall k l, In (k, l) (n_lsubs n) -> wf3 k) /\ (forall k q, In (k, q) (n_pname n) -> wf3 k) /\
  (forall k l, In (k, l) (n_rsubs n) -> wf2 k).
Proof. intros nm objs n Hd Hr. destruct (reachable_NInv _ _ _ Hd Hr) as [_ (_ & H1 & H2 & H3)]. exact (conj H1 (conj H2 H3)). Qed.
Print Assumptions C07_keys_well_formed.

(* publish_signal takes as receivers exactly the set stored for (own context, publisher, signal)
   at that moment ... *)
Theorem C07_snapshot_exact : forall n p s a n' os,
  node_step n (IPubBegin p s a) = Some (n', os) -> valid_name p = true -> valid_name s = true ->
  os = [] /\ n_log n' = n_log n /\
  n_jobs n' = n_jobs n ++ [mkJob (n_jobctr n) p s a (opt_list (alookup str_eqb (key3 (n_name n) p s) (n_lsubs n)))
                                 (opt_list (alookup str_eqb (key3 (n_name n) p s) (n_lsubs n))) None []].
Proof. exact snapshot_exact. Qed.
Print Assumptions C07_snapshot_exact.

(* ... and in every reachable state, whatever other threads and peers did in between, every
   receiver of that snapshot already served has exactly one record of the publication, every other
   receiver none; the records carry the published publisher, signal and arguments *)
Theorem C07_local_exactly_once : forall nm objs n b,
  nodot nm = true -> reachable nm objs n -> In b (n_jobs n) ->
  NoDup (j_snap b) /\
  (forall r, cnt nm (j_id b) r (n_log n) = if smem N.eqb r (j_snap b) && negb (smem N.eqb r (j_todo b)) then 1%nat else 0%nat) /\
  (forall r c p s a, In (r, (c, p, s, a), j_id b) (n_log n) -> c = nm ->
     p = j_pub b /\ s = j_sig b /\ a = j_args b /\ In r (j_snap b)).
Proof. exact local_exactly_once. Qed.
Print Assumptions C07_local_exactly_once.

(* a delivered signal message appends exactly one record (source context, publisher, signal, args)
   per receiver stored for that triple at delivery time, and nothing else *)
Theorem C07_deliver_exactly_once : forall n from p s a j n' os,
  node_step n (IRecv from (MSignal p s a j)) = Some (n', os) ->
  os = [] /\
  n_log n' = rev (mk_entries from p s a j (opt_list (alookup str_eqb (key3 from p s) (n_lsubs n)))) ++ n_log n.
Proof. exact deliver_exact. Qed.
Print Assumptions C07_deliver_exactly_once.

(* unsubscribe takes effect when it returns: the receiver is not in the table entry, so
   (C07_snapshot_exact) not in any later snapshot, and (below) gets no record of such a publication *)
Theorem C07_after_unsub : forall n c p s r n' os,
  node_step n (IUnsub c p s r) = Some (n', os) -> names_ok (resolve_ctx n c) p s = true ->
  smem N.eqb r (opt_list (alookup str_eqb (key3 (resolve_ctx n c) p s) (n_lsubs n'))) = false.
Proof. exact after_unsub. Qed.
Print Assumptions C07_after_unsub.

Theorem C07_not_in_snapshot_no_record : forall nm objs n b r,
  nodot nm = true -> reachable nm objs n -> In b (n_jobs n) -> ~ In r (j_snap b) ->
  cnt nm (j_id b) r (n_log n) = 0%nat.
Proof. exact not_in_snapshot_no_record. Qed.
Print Assumptions C07_not_in_snapshot_no_record.

(* Order, local receivers.  A thread publishes sequentially: when it starts publication j2 its
   earlier publication j1 has served all its receivers (state n1).  From there on, whatever the
   other threads and peers do, queues only grow at the newer end, j1 adds no further record and j2
   had none before: in every queue every record of j1 is older than every record of j2. *)
Theorem C07_order_local : forall nm n1 ins n2 os b1 j2,
  NInv nm n1 -> node_run n1 ins = Some (n2, os) -> Forall (fun i => input_ok nm i /\ input_wf i) ins ->
  In b1 (n_jobs n1) -> j_todo b1 = [] -> n_jobctr n1 <= j2 ->
  exists new, n_log n2 = new ++ n_log n1 /\
    (forall r, cnt nm (j_id b1) r new = 0%nat) /\ (forall r, cnt nm j2 r (n_log n1) = 0%nat).
Proof. exact order_local. Qed.
Print Assumptions C07_order_local.

(* ... the hypothesis NInv holds in every reachable state *)
Theorem C07_reachable_NInv : forall nm objs n, nodot nm = true -> reachable nm objs n -> NInv nm n.
Proof. exact reachable_NInv. Qed.
Print Assumptions C07_reachable_NInv.

(* Remote: per publication and peer context at most one signal message is handed to the router, only
   to peers of the snapshot of _remote_subscriptions taken under the lock and already served, with
   the published contents (exactly one unless the peer vanished between snapshot and send) *)
Theorem C07_remote_at_most_once : forall nm objs ins n os b x,
  nodot nm = true -> node_run (init_node nm objs) ins = Some (n, os) ->
  Forall (fun i => input_ok nm i /\ input_wf i) ins -> In b (n_jobs n) ->
  (sent x (j_id b) os <= if smem str_eqb x (opt_list (j_rsnap b)) && negb (smem str_eqb x (j_rtodo b)) then 1 else 0)%nat /\
  (forall p s a, In (OSend x (MSignal p s a (j_id b))) os ->
     p = j_pub b /\ s = j_sig b /\ a = j_args b /\ In x (opt_list (j_rsnap b))).
Proof. exact remote_at_most_once. Qed.
Print Assumptions C07_remote_at_most_once.

(* the send itself: one message iff the router can reach the peer *)
Theorem C07_send_step : forall n j x n' os b,
  node_step n (IPubSend j x) = Some (n', os) -> find_job j (n_jobs n) = Some b ->
  In x (j_rtodo b) /\ os = (if can_send n x then [OSend x (MSignal (j_pub b) (j_sig b) (j_args b) j)] else []).
Proof.
  intros n j x n' os b H Hf. simpl in H. rewrite Hf in H.
  destruct (smem str_eqb x (j_rtodo b)) eqn:E; [|discriminate]. inversion H. split; [apply smem_S_In; exact E | reflexivity].
Qed.
Print Assumptions C07_send_step.

(* FIFO channels of the two-context system: a step only appends at the tail of a channel, or takes
   its head (which is what L2Deliver handles), or empties both at a new connection *)
Theorem C07_channel_fifo : forall s l s' os sd,
  step2 s l = Some (s', os) ->
  (exists app, ch s' sd = ch s sd ++ app) \/
  (exists m rest app, ch s sd = m :: rest /\ ch s' sd = rest ++ app /\ l = L2Deliver sd) \/
  (ch s' sd = [] /\ l = L2Connect).
Proof. exact channel_fifo. Qed.
Print Assumptions C07_channel_fifo.

(* Order, remote receivers, end to end, as ONE statement over the two-context system (two complete
   SignalManagers, FIFO channels, connects and closes at any position).  Publisher = side sd, subscriber =
   the other side.  s1 is any reachable state in which publication j1 of the publisher is complete (all
   local receivers and all peers of its snapshot served: the publishing thread has returned from
   publish_signal) and publication number j2 has not been handed out yet (the same thread publishes it
   later).  Then after ANY further history ls2, in the subscriber's delivery log (newest first; the queue of
   a receiver is its projection, C09 is the queue itself) no record of j2 is older than a record of j1:
   every receiver there sees the publications of one thread in publication order. *)
Theorem C07_remote_order : forall a b oa ob ls1 s1 ls2 s2 sd j1 j2,
  a <> b -> run2 (init2 a b oa ob) ls1 = Some s1 ->
  done_job j1 (nd s1 sd) -> n_jobctr (nd s1 sd) <= j2 ->
  run2 s1 ls2 = Some s2 ->
  forall x e y, n_log (nd s2 (negb sd)) = x ++ e :: y -> rec_from (n_name (nd s2 sd)) j1 e = true ->
  existsb (rec_from (n_name (nd s2 sd)) j2) y = false.
Proof. exact remote_order_reachable. Qed.
Print Assumptions C07_remote_order.

(* non-vacuity: a concrete history with two receivers, a publication interleaved with an unsubscribe *)
Example C07_example :
  let nm := [110] in let p := [112] in let s := [115] in
  exists n os, node_run (init_node nm [p])
     [ISub 1 [] p s 1; ISub 2 [] p s 2; IPubBegin p s 7%Z; IUnsub [] p s 2; IPubDeliver 0 2; IPubDeliver 0 1;
      IPubSnapRemote 0; IPubBegin p s 8%Z; IPubDeliver 1 1] = Some (n, os) /\
    cnt nm 0 2 (n_log n) = 1%nat /\ cnt nm 1 2 (n_log n) = 0%nat /\ cnt nm 1 1 (n_log n) = 1%nat.
Proof. vm_compute. eexists. eexists. repeat split. Qed.

(* non-vacuity of C07_remote_order: two publications of one thread of m, delivered to receiver 1 of n *)
Example C07_remote_order_example :
  let n := [110] in let m := [109] in let p := [112] in let sg := [115] in
  let ls1 := [L2Connect; L2Node true (ISub 1 m p sg 1); L2Deliver true; L2Deliver false; L2Node true (ISubEnd 1);
              L2Node false (IPubBegin p sg 7%Z); L2Node false (IPubSnapRemote 0); L2Node false (IPubSend 0 n)] in
  let ls2 := [L2Node false (IPubBegin p sg 8%Z); L2Node false (IPubSnapRemote 1); L2Node false (IPubSend 1 n);
              L2Deliver false; L2Deliver false] in
  exists s1 s2, run2 (init2 n m [] [p]) ls1 = Some s1 /\ done_job 0 (nd s1 false) /\ n_jobctr (nd s1 false) <= 1 /\
    run2 s1 ls2 = Some s2 /\ n_log (nd s2 true) = [(1, (m, p, sg, 8%Z), 1); (1, (m, p, sg, 7%Z), 0)].
Proof.
  eexists. eexists. split; [vm_compute; reflexivity|]. split.
  - split; [|vm_compute; reflexivity]. intros b0 [<-|[]] _. vm_compute. repeat split. discriminate.
  - split; [vm_compute; discriminate|]. split; vm_compute; reflexivity.
Qed.
