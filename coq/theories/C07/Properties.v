Require Import QV.C07.Model QV.C07.Proofs.
