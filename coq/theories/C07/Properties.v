(* C07 — property theorems only.  Statements are about [node_step]/[node_run] of Model.v, the very
   functions the correspondence evaluates against qmi.core.pubsub.SignalManager, for EVERY input
   sequence a node can see (API calls of any number of threads interleaved at handler / lock-region
   granularity, and any messages from peers: [reachable] only excludes a message whose source is
   the node itself and subscription requests naming objects with a '.').  A receiver's queue is the
   projection of [n_log] on its id; [cnt nm j r log] counts the records of publication j of context
   nm in the queue of receiver r. *)
From Coq Require Import List NArith ZArith Bool.
Require Import QV.C07.Model QV.C07.ProofsLib QV.C07.Proofs QV.C07.ProofsThm.
Import ListNotations.
Open Scope N_scope.

(* names accepted by is_valid_object_name contain no '.' *)
Theorem C07_valid_name_no_dot : forall n, valid_name n = true -> nodot n = true.
Proof. exact valid_nodot. Qed.
Print Assumptions C07_valid_name_no_dot.

(* joining with '.' is injective on such names: two different (context, publisher, signal)
   triples never share a table entry *)
Theorem C07_join_dot_injective : forall c p s c' p' s',
  nodot c = true -> nodot p = true -> nodot c' = true -> nodot p' = true ->
  key3 c p s = key3 c' p' s' -> c = c' /\ p = p' /\ s = s'.
Proof. exact key3_inj. Qed.
Print Assumptions C07_join_dot_injective.

Theorem C07_join_dot_injective2 : forall p s p' s',
  nodot p = true -> nodot p' = true -> key2 p s = key2 p' s' -> p = p' /\ s = s'.
Proof. exact key2_inj. Qed.
Print Assumptions C07_join_dot_injective2.

(* the prefix tests of handle_object_removed / handle_peer_context_removed select exactly the
   entries of that object / that context *)
Theorem C07_prefix_tests_exact :
  (forall x c p s, nodot x = true -> nodot c = true -> (startswith (x ++ [DOT]) (key3 c p s) = true <-> x = c)) /\
  (forall me o c p s, nodot me = true -> nodot o = true -> nodot c = true -> nodot p = true ->
     (startswith (me ++ DOT :: o ++ [DOT]) (key3 c p s) = true <-> me = c /\ o = p)) /\
  (forall o p s, nodot o = true -> nodot p = true -> (startswith (o ++ [DOT]) (key2 p s) = true <-> o = p)).
Proof. exact (conj prefix_ctx (conj prefix_obj3 prefix_obj2)). Qed.
Print Assumptions C07_prefix_tests_exact.

(* every key stored in the tables of a reachable state is such a join *)
Theorem C07_keys_well_formed : forall nm objs n,
  nodot nm = true -> reachable nm objs n ->
  (forall k l, In (k, l) (n_lsubs n) -> wf3 k) /\ (forall k q, In (k, q) (n_pname n) -> wf3 k) /\
  (forall k l, In (k, l) (n_rsubs n) -> wf2 k).
Proof. intros nm objs n Hd Hr. destruct (reachable_NInv _ _ _ Hd Hr) as [_ (_ & H1 & H2 & H3)]. exact (conj H1 (conj H2 H3)). Qed.
Print Assumptions C07_keys_well_formed.

(* publish_signal takes as receivers exactly the set stored for (own context, publisher, signal)
   at that moment ... *)
Theorem C07_snapshot_exact : forall n p s a n' os,
  node_step n (IPubBegin p s a) = Some (n', os) -> valid_name p = true -> valid_name s = true ->
  os = [] /\ n_log n' = n_log n /\
  n_jobs n' = n_jobs n ++ [mkJob (n_jobctr n) p s a (opt_list (alookup str_eqb (key3 (n_name n) p s) (n_lsubs n)))
                                 (opt_list (alookup str_eqb (key3 (n_name n) p s) (n_lsubs n))) None []].
Proof. exact snapshot_exact. Qed.
Print Assumptions C07_snapshot_exact.

(* ... and in every reachable state, whatever other threads and peers did in between, every
   receiver of that snapshot already served has exactly one record of the publication, every other
   receiver none; the records carry the published publisher, signal and arguments *)
Theorem C07_local_exactly_once : forall nm objs n b,
  nodot nm = true -> reachable nm objs n -> In b (n_jobs n) ->
  NoDup (j_snap b) /\
  (forall r, cnt nm (j_id b) r (n_log n) = if smem N.eqb r (j_snap b) && negb (smem N.eqb r (j_todo b)) then 1%nat else 0%nat) /\
  (forall r c p s a, In (r, (c, p, s, a), j_id b) (n_log n) -> c = nm ->
     p = j_pub b /\ s = j_sig b /\ a = j_args b /\ In r (j_snap b)).
Proof. exact local_exactly_once. Qed.
Print Assumptions C07_local_exactly_once.

(* a delivered signal message appends exactly one record (source context, publisher, signal, args)
   per receiver stored for that triple at delivery time, and nothing else *)
Theorem C07_deliver_exactly_once : forall n from p s a j n' os,
  node_step n (IRecv from (MSignal p s a j)) = Some (n', os) ->
  os = [] /\
  n_log n' = rev (mk_entries from p s a j (opt_list (alookup str_eqb (key3 from p s) (n_lsubs n)))) ++ n_log n.
Proof. exact deliver_exact. Qed.
Print Assumptions C07_deliver_exactly_once.

(* unsubscribe takes effect when it returns: the receiver is not in the table entry, so
   (C07_snapshot_exact) not in any later snapshot, and (below) gets no record of such a publication *)
Theorem C07_after_unsub : forall n c p s r n' os,
  node_step n (IUnsub c p s r) = Some (n', os) -> names_ok (resolve_ctx n c) p s = true ->
  smem N.eqb r (opt_list (alookup str_eqb (key3 (resolve_ctx n c) p s) (n_lsubs n'))) = false.
Proof. exact after_unsub. Qed.
Print Assumptions C07_after_unsub.

Theorem C07_not_in_snapshot_no_record : forall nm objs n b r,
  nodot nm = true -> reachable nm objs n -> In b (n_jobs n) -> ~ In r (j_snap b) ->
  cnt nm (j_id b) r (n_log n) = 0%nat.
Proof. exact not_in_snapshot_no_record. Qed.
Print Assumptions C07_not_in_snapshot_no_record.

(* non-vacuity: a concrete history with two receivers, a publication interleaved with an unsubscribe *)
Example C07_example :
  let nm := [110] in let p := [112] in let s := [115] in
  exists n os, node_run (init_node nm [p])
     [ISub 1 [] p s 1; ISub 2 [] p s 2; IPubBegin p s 7%Z; IUnsub [] p s 2; IPubDeliver 0 2; IPubDeliver 0 1;
      IPubSnapRemote 0; IPubBegin p s 8%Z; IPubDeliver 1 1] = Some (n, os) /\
    cnt nm 0 2 (n_log n) = 1%nat /\ cnt nm 1 2 (n_log n) = 0%nat /\ cnt nm 1 1 (n_log n) = 1%nat.
Proof. vm_compute. eexists. eexists. repeat split. Qed.
