(* Generic lemmas: strings, '.'-joined keys, association lists, list sets. *)
From Coq Require Import List NArith ZArith Bool Arith Lia.
Require Import QV.C07.Model.
Import ListNotations.
Open Scope N_scope.

(* ------------------------------------------------------------------ strings *)
Lemma str_eqb_spec a b : str_eqb a b = true <-> a = b.
Proof.
  revert b; induction a as [|x a IH]; intros [|y b]; simpl; split; intro H; try reflexivity; try discriminate.
  - apply andb_true_iff in H as [H1 H2]. apply N.eqb_eq in H1. apply IH in H2. congruence.
  - inversion H; subst. rewrite N.eqb_refl. simpl. apply IH. reflexivity.
Qed.

Lemma str_eqb_refl a : str_eqb a a = true.
Proof. apply str_eqb_spec. reflexivity. Qed.

Lemma str_eqb_neq a b : a <> b -> str_eqb a b = false.
Proof. intro H. destruct (str_eqb a b) eqn:E; [apply str_eqb_spec in E; contradiction | reflexivity]. Qed.

Lemma str_eq_dec (a b : str) : {a = b} + {a <> b}.
Proof. destruct (str_eqb a b) eqn:E; [left; apply str_eqb_spec; exact E | right; intro H; apply str_eqb_spec in H; congruence]. Qed.

Lemma Neqb_spec a b : N.eqb a b = true <-> a = b.
Proof. apply N.eqb_eq. Qed.

Lemma nodot_app a b : nodot (a ++ b) = nodot a && nodot b.
Proof. unfold nodot. apply forallb_app. Qed.

Lemma okch_not_dot c : okch c = true -> (c =? DOT) = false.
Proof.
  unfold okch, DOT. intro H. destruct (c =? 46) eqn:E; [|reflexivity].
  apply N.eqb_eq in E. subst. vm_compute in H. discriminate.
Qed.

Lemma valid_chars_nodot l : valid_chars l = true -> nodot l = true.
Proof.
  induction l as [|c r IH]; simpl; intro H; [discriminate|].
  apply andb_true_iff in H as [H1 H2]. rewrite (okch_not_dot _ H1). simpl.
  destruct r as [|d r']; [reflexivity|].
  destruct r' as [|e r''].
  - destruct (N.eq_dec d 10) as [->|Hd].
    + reflexivity.
    + assert (Hv : valid_chars [d] = true).
      { destruct d as [|pd]; [exact H2|].
        destruct pd as [pd|pd|]; try exact H2.
        destruct pd as [pd|pd|]; try exact H2.
        destruct pd as [pd|pd|]; try exact H2.
        destruct pd as [pd|pd|]; try exact H2. exfalso. apply Hd. reflexivity. }
      apply IH. exact Hv.
  - apply IH. destruct d as [|pd]; [exact H2|].
    destruct pd as [pd|pd|]; try exact H2.
    destruct pd as [pd|pd|]; try exact H2.
    destruct pd as [pd|pd|]; try exact H2.
    destruct pd as [pd|pd|]; exact H2.
Qed.

Lemma valid_nodot n : valid_name n = true -> nodot n = true.
Proof. unfold valid_name. intro H. apply andb_true_iff in H as [_ H]. apply valid_chars_nodot. exact H. Qed.

Local Opaque N.eqb.

(* splitting at the first '.' *)
Lemma split_first_dot a b a' b' :
  nodot a = true -> nodot a' = true -> a ++ DOT :: b = a' ++ DOT :: b' -> a = a' /\ b = b'.
Proof.
  revert a'; induction a as [|x a IH]; intros [|y a'] Ha Ha' E; simpl in *.
  - inversion E. auto.
  - inversion E; subst. apply andb_true_iff in Ha' as [Hy _]. rewrite N.eqb_refl in Hy. discriminate.
  - inversion E; subst. apply andb_true_iff in Ha as [Hx _]. rewrite N.eqb_refl in Hx. discriminate.
  - inversion E; subst. apply andb_true_iff in Ha as [_ Ha]. apply andb_true_iff in Ha' as [_ Ha'].
    destruct (IH a' Ha Ha' H1) as [-> ->]. auto.
Qed.

Lemma key3_inj c p s c' p' s' :
  nodot c = true -> nodot p = true -> nodot c' = true -> nodot p' = true ->
  key3 c p s = key3 c' p' s' -> c = c' /\ p = p' /\ s = s'.
Proof.
  unfold key3. intros Hc Hp Hc' Hp' E.
  destruct (split_first_dot _ _ _ _ Hc Hc' E) as [-> E2].
  destruct (split_first_dot _ _ _ _ Hp Hp' E2) as [-> ->]. auto.
Qed.

Lemma key2_inj p s p' s' :
  nodot p = true -> nodot p' = true -> key2 p s = key2 p' s' -> p = p' /\ s = s'.
Proof. unfold key2. intros. eapply split_first_dot; eauto. Qed.

Lemma startswith_app p s : startswith p (p ++ s) = true.
Proof. induction p; simpl; [reflexivity | rewrite N.eqb_refl; exact IHp]. Qed.

Lemma startswith_dot a b rest :
  nodot a = true -> nodot b = true -> startswith (a ++ [DOT]) (b ++ DOT :: rest) = true -> a = b.
Proof.
  revert b; induction a as [|x a IH]; intros [|y b] Ha Hb H; simpl in *; try reflexivity.
  - apply andb_true_iff in H as [H _]. apply N.eqb_eq in H. subst.
    apply andb_true_iff in Hb as [Hb _]. rewrite N.eqb_refl in Hb. discriminate.
  - apply andb_true_iff in H as [H _]. apply N.eqb_eq in H. subst.
    apply andb_true_iff in Ha as [Ha _]. rewrite N.eqb_refl in Ha. discriminate.
  - apply andb_true_iff in H as [H1 H2]. apply N.eqb_eq in H1. subst.
    apply andb_true_iff in Ha as [_ Ha]. apply andb_true_iff in Hb as [_ Hb].
    f_equal. eapply IH; eauto.
Qed.

(* handle_peer_context_removed hits exactly the keys of that context *)
Lemma prefix_ctx x c p s :
  nodot x = true -> nodot c = true ->
  (startswith (x ++ [DOT]) (key3 c p s) = true <-> x = c).
Proof.
  intros Hx Hc. split.
  - apply startswith_dot; assumption.
  - intros ->. unfold key3. replace (c ++ DOT :: p ++ DOT :: s) with ((c ++ [DOT]) ++ p ++ DOT :: s)
      by (rewrite <- app_assoc; reflexivity). apply startswith_app.
Qed.

(* handle_object_removed hits exactly the keys of that object *)
Lemma prefix_obj2 o p s :
  nodot o = true -> nodot p = true -> (startswith (o ++ [DOT]) (key2 p s) = true <-> o = p).
Proof.
  intros Ho Hp. split.
  - apply startswith_dot; assumption.
  - intros ->. unfold key2. replace (p ++ DOT :: s) with ((p ++ [DOT]) ++ s) by (rewrite <- app_assoc; reflexivity).
    apply startswith_app.
Qed.

Lemma startswith_app_l a p s : startswith (a ++ p) (a ++ s) = startswith p s.
Proof. induction a; simpl; [reflexivity | rewrite N.eqb_refl; exact IHa]. Qed.

Lemma startswith_nodot_prefix a b p rest :
  nodot a = true -> nodot b = true -> startswith (a ++ DOT :: p) (b ++ DOT :: rest) = true -> a = b.
Proof.
  revert b; induction a as [|x a IH]; intros [|y b] Ha Hb H; simpl in *; try reflexivity.
  - apply andb_true_iff in H as [H _]. apply N.eqb_eq in H. subst.
    apply andb_true_iff in Hb as [Hb _]. rewrite N.eqb_refl in Hb. discriminate.
  - apply andb_true_iff in H as [H _]. apply N.eqb_eq in H. subst.
    apply andb_true_iff in Ha as [Ha _]. rewrite N.eqb_refl in Ha. discriminate.
  - apply andb_true_iff in H as [H1 H2]. apply N.eqb_eq in H1. subst.
    apply andb_true_iff in Ha as [_ Ha]. apply andb_true_iff in Hb as [_ Hb].
    f_equal. eapply IH; eauto.
Qed.

Lemma prefix_obj3 me o c p s :
  nodot me = true -> nodot o = true -> nodot c = true -> nodot p = true ->
  (startswith (me ++ DOT :: o ++ [DOT]) (key3 c p s) = true <-> me = c /\ o = p).
Proof.
  intros Hm Ho Hc Hp. unfold key3. split.
  - intro H. assert (me = c) by (eapply startswith_nodot_prefix; eauto). subst. split; [reflexivity|].
    replace (c ++ DOT :: o ++ [DOT]) with ((c ++ [DOT]) ++ o ++ [DOT]) in H by (rewrite <- app_assoc; reflexivity).
    replace (c ++ DOT :: p ++ DOT :: s) with ((c ++ [DOT]) ++ p ++ DOT :: s) in H by (rewrite <- app_assoc; reflexivity).
    rewrite startswith_app_l in H. eapply startswith_dot; eauto.
  - intros [-> ->].
    replace (c ++ DOT :: p ++ [DOT]) with ((c ++ [DOT]) ++ p ++ [DOT]) by (rewrite <- app_assoc; reflexivity).
    replace (c ++ DOT :: p ++ DOT :: s) with ((c ++ [DOT]) ++ p ++ DOT :: s) by (rewrite <- app_assoc; reflexivity).
    rewrite startswith_app_l.
    replace (p ++ DOT :: s) with ((p ++ [DOT]) ++ s) by (rewrite <- app_assoc; reflexivity). apply startswith_app.
Qed.

Lemma after_dot_key2 p s : nodot p = true -> after_dot (key2 p s) = s.
Proof.
  unfold key2. induction p as [|x p IH]; simpl; intro H.
  - reflexivity.
  - apply andb_true_iff in H as [H1 H2]. apply negb_true_iff in H1. rewrite H1. apply IH. exact H2.
Qed.

(* ------------------------------------------------------------------ association lists *)
Section AssocLemmas.
  Context {K V : Type}.
  Variable eqb : K -> K -> bool.
  Hypothesis eqb_spec : forall a b, eqb a b = true <-> a = b.

  Lemma eqb_refl' (a : K) : eqb a a = true.
  Proof. apply eqb_spec. reflexivity. Qed.
  Lemma eqb_neq' (a b : K) : a <> b -> eqb a b = false.
  Proof. intro H. destruct (eqb a b) eqn:E; [apply eqb_spec in E; contradiction | reflexivity]. Qed.
  Lemma eqb_dec' (a b : K) : {a = b} + {a <> b}.
  Proof. destruct (eqb a b) eqn:E; [left; apply eqb_spec; exact E | right; intro H; apply eqb_spec in H; congruence]. Qed.

  Lemma alookup_aset_same k (v : V) t : alookup eqb k (aset eqb k v t) = Some v.
  Proof.
    induction t as [|[k' v'] r IH]; simpl.
    - rewrite eqb_refl'. reflexivity.
    - destruct (eqb k k') eqn:E; simpl; rewrite E; [reflexivity | exact IH].
  Qed.

  Lemma alookup_aset_other k k' (v : V) t : k <> k' -> alookup eqb k (aset eqb k' v t) = alookup eqb k t.
  Proof.
    intro Hn. induction t as [|[k2 v2] r IH]; simpl.
    - rewrite (eqb_neq' _ _ Hn). reflexivity.
    - destruct (eqb k' k2) eqn:E; simpl.
      + apply eqb_spec in E. subst. rewrite (eqb_neq' _ _ Hn). reflexivity.
      + destruct (eqb k k2); [reflexivity | exact IH].
  Qed.

  Lemma alookup_aremove_same k (t : list (K * V)) : alookup eqb k (aremove eqb k t) = None.
  Proof.
    unfold aremove. induction t as [|[k' v'] r IH]; simpl; [reflexivity|].
    destruct (eqb k k') eqn:E; simpl; [exact IH | rewrite E; exact IH].
  Qed.

  Lemma alookup_aremove_other k k' (t : list (K * V)) : k <> k' -> alookup eqb k (aremove eqb k' t) = alookup eqb k t.
  Proof.
    intro Hn. unfold aremove. induction t as [|[k2 v2] r IH]; simpl; [reflexivity|].
    destruct (eqb k' k2) eqn:E; simpl.
    - apply eqb_spec in E. subst. rewrite (eqb_neq' _ _ Hn). exact IH.
    - destruct (eqb k k2); [reflexivity | exact IH].
  Qed.

  Lemma alookup_filter_key (f : K -> bool) k (t : list (K * V)) :
    alookup eqb k (filter (fun e => f (fst e)) t) = if f k then alookup eqb k t else None.
  Proof.
    induction t as [|[k' v'] r IH]; simpl.
    - destruct (f k); reflexivity.
    - destruct (f k') eqn:F; simpl.
      + destruct (eqb k k') eqn:E.
        * apply eqb_spec in E. subst. rewrite F. reflexivity.
        * exact IH.
      + destruct (eqb k k') eqn:E.
        * apply eqb_spec in E. subst. rewrite F in IH. rewrite F. exact IH.
        * exact IH.
  Qed.

  Lemma alookup_In k (v : V) t : alookup eqb k t = Some v -> In (k, v) t.
  Proof.
    induction t as [|[k' v'] r IH]; simpl; [discriminate|].
    destruct (eqb k k') eqn:E.
    - apply eqb_spec in E. subst. intro H. inversion H. left. reflexivity.
    - intro H. right. apply IH. exact H.
  Qed.

  Lemma alookup_None_In k (t : list (K * V)) : alookup eqb k t = None -> forall v, ~ In (k, v) t.
  Proof.
    induction t as [|[k' v'] r IH]; simpl; intros H v; [tauto|].
    destruct (eqb k k') eqn:E; [discriminate|].
    intros [H1|H1].
    - inversion H1; subst. rewrite eqb_refl' in E. discriminate.
    - eapply IH; eauto.
  Qed.

  Lemma In_alookup_some k (v : V) t : In (k, v) t -> exists v', alookup eqb k t = Some v'.
  Proof.
    induction t as [|[k' v'] r IH]; simpl; [tauto|].
    intros [H|H].
    - inversion H; subst. rewrite eqb_refl'. eauto.
    - destruct (eqb k k'); eauto.
  Qed.

  Lemma keys_aset k (v : V) t :
    map fst (aset eqb k v t) = if existsb (eqb k) (map fst t) then map fst t else map fst t ++ [k].
  Proof.
    induction t as [|[k' v'] r IH]; simpl; [reflexivity|].
    destruct (eqb k k') eqn:E; simpl; [reflexivity|].
    rewrite IH. destruct (existsb (eqb k) (map fst r)); reflexivity.
  Qed.

  Lemma NoDup_snoc (A : Type) (l : list A) x : NoDup l -> ~ In x l -> NoDup (l ++ [x]).
  Proof.
    induction l as [|y l IH]; simpl; intros H Hn.
    - constructor; [tauto | constructor].
    - inversion H; subst. constructor.
      + rewrite in_app_iff. simpl. intros [H1|[H1|[]]]; [contradiction | subst; tauto].
      + apply IH; [assumption | tauto].
  Qed.

  Lemma NoDup_keys_aset k (v : V) t : NoDup (map fst t) -> NoDup (map fst (aset eqb k v t)).
  Proof.
    intro H. rewrite keys_aset. destruct (existsb (eqb k) (map fst t)) eqn:E; [exact H|].
    apply NoDup_snoc; [exact H|].
    intro Hin. assert (existsb (eqb k) (map fst t) = true).
    { apply existsb_exists. exists k. split; [exact Hin | apply eqb_refl']. }
    congruence.
  Qed.

  Lemma NoDup_keys_filter (f : K * V -> bool) t : NoDup (map fst t) -> NoDup (map fst (filter f t)).
  Proof.
    induction t as [|e r IH]; simpl; intro H; [constructor|].
    inversion H; subst. destruct (f e); simpl.
    - constructor; [|apply IH; assumption].
      intro Hin. apply H2. apply in_map_iff in Hin as [e' [He' Hin']]. apply filter_In in Hin' as [Hin' _].
      apply in_map_iff. exists e'. auto.
    - apply IH. assumption.
  Qed.

  Lemma NoDup_keys_aremove k (t : list (K * V)) : NoDup (map fst t) -> NoDup (map fst (aremove eqb k t)).
  Proof. apply NoDup_keys_filter. Qed.
End AssocLemmas.

(* ------------------------------------------------------------------ list sets *)
Section SetLemmas.
  Context {A : Type}.
  Variable eqb : A -> A -> bool.
  Hypothesis eqb_spec : forall a b, eqb a b = true <-> a = b.

  Lemma smem_In x l : smem eqb x l = true <-> In x l.
  Proof.
    unfold smem. rewrite existsb_exists. split.
    - intros [y [Hy E]]. apply eqb_spec in E. subst. exact Hy.
    - intro H. exists x. split; [exact H | apply eqb_spec; reflexivity].
  Qed.

  Lemma smem_false x l : smem eqb x l = false <-> ~ In x l.
  Proof. rewrite <- smem_In. destruct (smem eqb x l); split; intro H; congruence || tauto. Qed.

  Lemma In_sadd x y l : In y (sadd eqb x l) <-> y = x \/ In y l.
  Proof.
    unfold sadd. destruct (smem eqb x l) eqn:E.
    - apply smem_In in E. split; [tauto | intros [->|H]; assumption].
    - rewrite in_app_iff. simpl. split; [intros [H|[H|[]]]; auto | intros [->|H]; auto].
  Qed.

  Lemma In_sdel x y l : In y (sdel eqb x l) <-> y <> x /\ In y l.
  Proof.
    unfold sdel. rewrite filter_In. split.
    - intros [H1 H2]. split; [|exact H1]. intros ->. rewrite (proj2 (eqb_spec x x) eq_refl) in H2. discriminate.
    - intros [H1 H2]. split; [exact H2|]. destruct (eqb x y) eqn:E; [apply eqb_spec in E; congruence | reflexivity].
  Qed.

  Lemma NoDup_sadd x l : NoDup l -> NoDup (sadd eqb x l).
  Proof.
    intro H. unfold sadd. destruct (smem eqb x l) eqn:E; [exact H|].
    apply smem_false in E. clear eqb_spec.
    induction l as [|y l IH]; simpl.
    - constructor; [tauto | constructor].
    - inversion H; subst. constructor.
      + rewrite in_app_iff. simpl. intros [H1|[H1|[]]]; [contradiction | subst; apply E; left; reflexivity].
      + apply IH; [assumption | intro; apply E; right; assumption].
  Qed.

  Lemma NoDup_sdel x l : NoDup l -> NoDup (sdel eqb x l).
  Proof. unfold sdel. apply NoDup_filter. Qed.

  Lemma sadd_nonnil x l : sadd eqb x l <> [].
  Proof. unfold sadd. destruct (smem eqb x l) eqn:E; [|destruct l; discriminate].
    destruct l; [discriminate E | discriminate]. Qed.

  Lemma In_sunion y l m : In y (sunion eqb l m) <-> In y l \/ In y m.
  Proof.
    unfold sunion. revert l. induction m as [|x m IH]; simpl; intro l; [tauto|].
    rewrite IH, In_sadd. split; intros [H|H]; auto; destruct H; auto.
  Qed.

  Lemma NoDup_sunion l m : NoDup l -> NoDup (sunion eqb l m).
  Proof. unfold sunion. revert l. induction m as [|x m IH]; simpl; intros l H; [exact H | apply IH, NoDup_sadd, H]. Qed.
End SetLemmas.

Lemma is_nil_true {A} (l : list A) : is_nil l = true <-> l = [].
Proof. destruct l; simpl; split; congruence. Qed.
Lemma is_nil_false {A} (l : list A) : is_nil l = false <-> l <> [].
Proof. destruct l; simpl; split; congruence. Qed.

(* values of a table *)
Definition vals_ok {K V} (P : V -> Prop) (t : list (K * V)) : Prop := forall k v, In (k, v) t -> P v.

Lemma In_aset {K V} (eqb : K -> K -> bool) k (v : V) t k' v' :
  In (k', v') (aset eqb k v t) -> v' = v \/ In (k', v') t.
Proof.
  induction t as [|[k2 v2] r IH]; simpl.
  - intros [H|[]]. inversion H. auto.
  - destruct (eqb k k2); simpl; intros [H|H]; try (inversion H; subst; auto; fail); auto.
    destruct (IH H); auto.
Qed.

Lemma vals_aset {K V} (eqb : K -> K -> bool) (P : V -> Prop) k v (t : list (K * V)) :
  vals_ok P t -> P v -> vals_ok P (aset eqb k v t).
Proof. intros Ht Hv k' v' Hin. apply In_aset in Hin as [->|Hin]; [exact Hv | eapply Ht; eauto]. Qed.

Lemma vals_filter {K V} (P : V -> Prop) f (t : list (K * V)) : vals_ok P t -> vals_ok P (filter f t).
Proof. intros Ht k v Hin. apply filter_In in Hin as [Hin _]. eapply Ht; eauto. Qed.

Lemma vals_aremove {K V} (eqb : K -> K -> bool) (P : V -> Prop) k (t : list (K * V)) :
  vals_ok P t -> vals_ok P (aremove eqb k t).
Proof. apply vals_filter. Qed.

Lemma vals_lookup {K V} (eqb : K -> K -> bool) (Hs : forall a b, eqb a b = true <-> a = b)
      (P : V -> Prop) k v (t : list (K * V)) :
  vals_ok P t -> alookup eqb k t = Some v -> P v.
Proof. intros Ht Hl. eapply Ht. eapply alookup_In; eauto. Qed.

(* keys of a table *)
Definition keys_ok {K V} (P : K -> Prop) (t : list (K * V)) : Prop := forall k v, In (k, v) t -> P k.

Lemma In_aset_key {K V} (eqb : K -> K -> bool) (Hs : forall a b, eqb a b = true <-> a = b) k (v : V) t k' v' :
  In (k', v') (aset eqb k v t) -> (k' = k /\ v' = v) \/ In (k', v') t.
Proof.
  induction t as [|[k2 v2] r IH]; simpl.
  - intros [H|[]]. inversion H. auto.
  - destruct (eqb k k2) eqn:E; simpl; intros [H|H].
    + apply Hs in E. inversion H; subst. auto.
    + auto.
    + auto.
    + destruct (IH H); auto.
Qed.

Lemma kok_aset {K V} (eqb : K -> K -> bool) (Hs : forall a b, eqb a b = true <-> a = b) (P : K -> Prop) k (v : V) t :
  keys_ok P t -> P k -> keys_ok P (aset eqb k v t).
Proof. intros Ht Hk k' v' Hin. apply (In_aset_key eqb Hs) in Hin as [[-> _]|Hin]; [exact Hk | eapply Ht; eauto]. Qed.

Lemma kok_filter {K V} (P : K -> Prop) f (t : list (K * V)) : keys_ok P t -> keys_ok P (filter f t).
Proof. intros Ht k v Hin. apply filter_In in Hin as [Hin _]. eapply Ht; eauto. Qed.

Lemma kok_aremove {K V} (eqb : K -> K -> bool) (P : K -> Prop) k (t : list (K * V)) :
  keys_ok P t -> keys_ok P (aremove eqb k t).
Proof. apply kok_filter. Qed.

Lemma kok_lookup {K V} (eqb : K -> K -> bool) (Hs : forall a b, eqb a b = true <-> a = b)
      (P : K -> Prop) k v (t : list (K * V)) :
  keys_ok P t -> alookup eqb k t = Some v -> P k.
Proof. intros Ht Hl. eapply Ht. eapply alookup_In; eauto. Qed.
