(* C07/C08 correspondence (trace acceptance + observable state): a history executed by the H2
   harness on real SignalManager instances is replayed on the N-node system of Model.v.  Every
   label must be accepted, the messages the handler handed to the router (per destination, in
   order) and the API result must be the ones observed, and at check points the tables named by
   the property anchors and every receiver queue must be equal. *)
Require Export QV.Lib.Corr QV.C07.Model.
From Coq Require Import List NArith ZArith Bool Arith.
Import ListNotations.
Open Scope N_scope.

Definition msg_eqb (a b : msg) : bool :=
  match a, b with
  | MSignal p s x j, MSignal p' s' x' j' => str_eqb p p' && str_eqb s s' && Z.eqb x x' && N.eqb j j'
  | MSubReq i p s f, MSubReq i' p' s' f' => N.eqb i i' && str_eqb p p' && str_eqb s s' && Bool.eqb f f'
  | MSubReply i f, MSubReply i' f' => N.eqb i i' && Bool.eqb f f'
  | MRemoved p s, MRemoved p' s' => str_eqb p p' && str_eqb s s'
  | _, _ => false
  end.

Definition res_eqb (a b : res) : bool :=
  match a, b with
  | RNone, RNone | RUsage, RUsage | RSubErr, RSubErr | RWait, RWait => true
  | _, _ => false
  end.

Definition sends_to (x : name) (os : list out) : list msg :=
  flat_map (fun o => match o with OSend y m => if str_eqb x y then [m] else [] | ORes _ => [] end) os.
Definition results (os : list out) : list res :=
  flat_map (fun o => match o with ORes r => [r] | _ => [] end) os.
Definition dests (os : list out) : list name :=
  flat_map (fun o => match o with OSend y _ => [y] | _ => [] end) os.

(* equal up to the relative order of messages for different destinations (set iteration order) *)
Definition outs_eqb (a b : list out) : bool :=
  Nat.eqb (length a) (length b) &&
  list_eqb res_eqb (results a) (results b) &&
  forallb (fun x => list_eqb msg_eqb (sends_to x a) (sends_to x b)) (dests a ++ dests b).

Definition subset {A} (eqb : A -> A -> bool) (l m : list A) : bool := forallb (fun x => smem eqb x m) l.
Definition set_eqb {A} (eqb : A -> A -> bool) (l m : list A) : bool := subset eqb l m && subset eqb m l.

Definition sigrec_eqb (a b : sigrec) : bool :=
  let '(c, p, s, x) := a in let '(c', p', s', x') := b in
  str_eqb c c' && str_eqb p p' && str_eqb s s' && Z.eqb x x'.

(* observed: lsubs, rsubs, by_id, by_name (subscribe flag, receivers), receiver queues oldest first *)
Definition obs := (list (str * list N) * list (str * list name) * list (N * str)
                   * list (str * (bool * list N)) * list (N * list sigrec))%type.

Definition log_of (n : node) (r : N) : list sigrec :=
  rev (flat_map (fun e : logent => let '(r', g, _) := e in if N.eqb r r' then [g] else []) (n_log n)).

Fixpoint list_rel {A B} (f : A -> B -> bool) (a : list A) (b : list B) : bool :=
  match a, b with
  | [], [] => true
  | x :: a', y :: b' => f x y && list_rel f a' b'
  | _, _ => false
  end.

Definition obs_ok (n : node) (o : obs) : bool :=
  let '(ls, rs, pid, pname, logs) := o in
  list_eqb (fun a b => str_eqb (fst a) (fst b) && set_eqb N.eqb (snd a) (snd b)) (n_lsubs n) ls &&
  list_eqb (fun a b => str_eqb (fst a) (fst b) && set_eqb str_eqb (snd a) (snd b)) (n_rsubs n) rs &&
  list_eqb (fun a b => N.eqb (fst a) (fst b) && str_eqb (snd a) (snd b)) (n_pid n) pid &&
  list_rel (fun (a : str * preq) (b : str * (bool * list N)) =>
              str_eqb (fst a) (fst b) && Bool.eqb (pq_sub (snd a)) (fst (snd b))
              && set_eqb N.eqb (pq_recv (snd a)) (snd (snd b))
              && str_eqb (fst a) (key3 (pq_ctx (snd a)) (pq_pub (snd a)) (pq_sig (snd a))))
           (n_pname n) pname &&
  forallb (fun e : N * list sigrec => list_eqb sigrec_eqb (log_of n (fst e)) (snd e)) logs &&
  forallb (fun e : logent => smem N.eqb (fst (fst e)) (map fst logs)) (n_log n).

Inductive ev :=
| EStep (l : labelN) (exp : list out)
| ECheck (x : name) (o : obs).

Definition case := (list (name * list name) * list ev)%type.

(* index of the first event the model does not reproduce, with the model's outputs there *)
Fixpoint first_bad (s : sysN) (es : list ev) (i : nat) : option (nat * option (list out)) :=
  match es with
  | [] => None
  | EStep l exp :: r =>
      match stepN s l with
      | Some (s', os) => if outs_eqb os exp then first_bad s' r (S i) else Some (i, Some os)
      | None => Some (i, None)
      end
  | ECheck x o :: r =>
      match getn s x with
      | Some n => if obs_ok n o then first_bad s r (S i) else Some (i, Some [])
      | None => Some (i, None)
      end
  end.

Definition model_out (c : case) : option (nat * option (list out)) := first_bad (initN (fst c)) (snd c) 0.
Definition check_case (c : case) : bool := match model_out c with None => true | Some _ => false end.

(* the model's tables of one node after a history (for replay printing) *)
Fixpoint runN (s : sysN) (es : list ev) : option sysN :=
  match es with
  | [] => Some s
  | EStep l _ :: r => match stepN s l with Some (s', _) => runN s' r | None => None end
  | ECheck _ _ :: r => runN s r
  end.

(* ---- the two-node system of the theorems on the same histories ---- *)
Inductive ev2 :=
| E2Step (l : label2) (exp : list out)
| E2Check (sd : bool) (o : obs).

Definition case2 := ((name * list name) * (name * list name) * list ev2)%type.

Fixpoint first_bad2 (s : sys2) (es : list ev2) (i : nat) : option (nat * option (list out)) :=
  match es with
  | [] => None
  | E2Step l exp :: r =>
      match step2 s l with
      | Some (s', os) => if outs_eqb os exp then first_bad2 s' r (S i) else Some (i, Some os)
      | None => Some (i, None)
      end
  | E2Check sd o :: r => if obs_ok (nd s sd) o then first_bad2 s r (S i) else Some (i, Some [])
  end.

Definition model_out2 (c : case2) : option (nat * option (list out)) :=
  let '(a, b, es) := c in first_bad2 (init2 (fst a) (fst b) (snd a) (snd b)) es 0.
Definition check_case2 (c : case2) : bool := match model_out2 c with None => true | Some _ => false end.

(* name validity on its own (util.is_valid_object_name) *)
Definition check_name (c : list N * bool) : bool := Bool.eqb (valid_name (fst c)) (snd c).

(* ---- the hypothesis about object removal, checked on real schedules ----
   The model's step IObjRemove is atomic: the object stops being known AND handle_object_removed runs,
   before anything else can happen to that name.  What this needs from QMI_Context.remove_rpc_object is that
   the subscription clean-up of a removed object runs while its name is still reserved: no object with the
   same name can be created between the release of the name and the clean-up of the previous incarnation
   (otherwise the clean-up, which works by name, hits the NEW object).  The thread-level runs record, per
   context, the events of the object map and of handle_object_removed; [lifecycle_ok] rejects a schedule in
   which a name is reserved again while the clean-up of its previous incarnation is still outstanding. *)
Inductive objev :=
| EvMark (x : name)       (* remove_rpc_object: the name is marked "being removed" *)
| EvCleanup (x : name)    (* SignalManager.handle_object_removed(x) *)
| EvRelease (x : name)    (* the name is deleted from the object map *)
| EvReserve (x : name).   (* make_rpc_object reserves the name *)

(* marked: removal started, clean-up not yet run; dangling: released while the clean-up is outstanding *)
Fixpoint lifecycle_run (marked dangling : list name) (evs : list objev) : bool :=
  match evs with
  | [] => true
  | EvMark x :: r => lifecycle_run (sadd str_eqb x marked) dangling r
  | EvCleanup x :: r => lifecycle_run (sdel str_eqb x marked) (sdel str_eqb x dangling) r
  | EvRelease x :: r =>
      if smem str_eqb x marked then lifecycle_run (sdel str_eqb x marked) (sadd str_eqb x dangling) r
      else lifecycle_run marked dangling r
  | EvReserve x :: r => if smem str_eqb x dangling then false else lifecycle_run marked dangling r
  end.

Definition lifecycle_ok (evs : list objev) : bool := lifecycle_run [] [] evs.

