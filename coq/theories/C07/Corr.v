(* C07/C08 correspondence (trace acceptance + observable state): a history executed by the H2
   harness on real SignalManager instances is replayed on the N-node system of Model.v.  Every
   label must be accepted, the messages the handler handed to the router (per destination, in
   order) and the API result must be the ones observed, and at check points the tables named by
   the property anchors and every receiver queue must be equal. *)
Require Export QV.Lib.Corr QV.C07.Model.
From Coq Require Import List NArith ZArith Bool Arith.
Import ListNotations.
Open Scope N_scope.

Definition msg_eqb (a b : msg) : bool :=
  match a, b with
  | MSignal p s x j, MSignal p' s' x' j' => str_eqb p p' && str_eqb s s' && Z.eqb x x' && N.eqb j j'
  | MSubReq i p s f, MSubReq i' p' s' f' => N.eqb i i' && str_eqb p p' && str_eqb s s' && Bool.eqb f f'
  | MSubReply i f, MSubReply i' f' => N.eqb i i' && Bool.eqb f f'
  | MRemoved p s, MRemoved p' s' => str_eqb p p' && str_eqb s s'
  | _, _ => false
  end.

Definition res_eqb (a b : res) : bool :=
  match a, b with
  | RNone, RNone | RUsage, RUsage | RSubErr, RSubErr | RWait, RWait => true
  | _, _ => false
  end.

Definition sends_to (x : name) (os : list out) : list msg :=
  flat_map (fun o => match o with OSend y m => if str_eqb x y then [m] else [] | ORes _ => [] end) os.
Definition results (os : list out) : list res :=
  flat_map (fun o => match o with ORes r => [r] | _ => [] end) os.
Definition dests (os : list out) : list name :=
  flat_map (fun o => match o with OSend y _ => [y] | _ => [] end) os.

(* equal up to the relative order of messages for different destinations (set iteration order) *)
Definition outs_eqb (a b : list out) : bool :=
  Nat.eqb (length a) (length b) &&
  list_eqb res_eqb (results a) (results b) &&
  forallb (fun x => list_eqb msg_eqb (sends_to x a) (sends_to x b)) (dests a ++ dests b).

(* Request ids are random in QMI; the harness numbers them per context in creation order and the model has
   a per-context counter.  The two numberings agree unless one side creates a request object the other
   does not (e.g. a subscribe that is refused before / after a request is registered), which the property
   does not fix.  The comparison is therefore up to a renaming of request ids, built on the fly: the k-th
   request a step hands to the router on the implementation side is paired with the k-th of the model. *)
Definition ren := list ((name * N) * N).
Definition ren_key_eqb (a b : name * N) : bool := str_eqb (fst a) (fst b) && N.eqb (snd a) (snd b).
Definition tr_id (r : ren) (x : name) (id : N) : N :=
  match alookup ren_key_eqb (x, id) r with Some j => j | None => 4000000 + id end.
Definition tr_msg (r : ren) (actor dest : name) (m : msg) : msg :=
  match m with
  | MSubReq id p s f => MSubReq (tr_id r actor id) p s f
  | MSubReply id ok => MSubReply (tr_id r dest id) ok
  | _ => m
  end.
Definition tr_outs (r : ren) (actor : name) (os : list out) : list out :=
  map (fun o => match o with OSend y m => OSend y (tr_msg r actor y m) | ORes _ => o end) os.
Definition out_req_ids (os : list out) : list N :=
  flat_map (fun o => match o with OSend _ (MSubReq id _ _ _) => [id] | _ => [] end) os.
Fixpoint ren_extend (r : ren) (x : name) (model impl : list N) : option ren :=
  match model, impl with
  | [], [] => Some r
  | j :: model', i :: impl' =>
      match alookup ren_key_eqb (x, i) r with
      | Some j' => if N.eqb j j' then ren_extend r x model' impl' else None
      | None => ren_extend (((x, i), j) :: r) x model' impl'
      end
  | _, _ => None
  end.
(* model outputs [os] of a step of context [actor] against the observed [exp] *)
Definition match_outs (r : ren) (actor : name) (os exp : list out) : option ren :=
  match ren_extend r actor (out_req_ids os) (out_req_ids exp) with
  | Some r' => if outs_eqb os (tr_outs r' actor exp) then Some r' else None
  | None => None
  end.
(* a subscribe that cannot succeed may be refused at once (QMI_SignalSubscriptionException from the call)
   or after registering a request and cancelling it (the call blocks in wait() and wait() returns the
   failure): the same outcome, nothing stored.  The model does the latter. *)
Definition swap_wait (os : list out) : list out :=
  map (fun o => match o with ORes RWait => ORes RSubErr | _ => o end) os.
Definition is_wait_then_err (os os2 : list out) : bool :=
  list_eqb res_eqb (results os) [RWait] && list_eqb res_eqb (results os2) [RSubErr] && Nat.eqb (length os2) 1.

Definition subset {A} (eqb : A -> A -> bool) (l m : list A) : bool := forallb (fun x => smem eqb x m) l.
Definition set_eqb {A} (eqb : A -> A -> bool) (l m : list A) : bool := subset eqb l m && subset eqb m l.

Definition sigrec_eqb (a b : sigrec) : bool :=
  let '(c, p, s, x) := a in let '(c', p', s', x') := b in
  str_eqb c c' && str_eqb p p' && str_eqb s s' && Z.eqb x x'.

(* observed: lsubs, rsubs, by_id, by_name (subscribe flag, receivers), receiver queues oldest first *)
Definition obs := (list (str * list N) * list (str * list name) * list (N * str)
                   * list (str * (bool * list N)) * list (N * list sigrec))%type.

Definition log_of (n : node) (r : N) : list sigrec :=
  rev (flat_map (fun e : logent => let '(r', g, _) := e in if N.eqb r r' then [g] else []) (n_log n)).

Fixpoint list_rel {A B} (f : A -> B -> bool) (a : list A) (b : list B) : bool :=
  match a, b with
  | [], [] => true
  | x :: a', y :: b' => f x y && list_rel f a' b'
  | _, _ => false
  end.

Definition obs_ok (r : ren) (n : node) (o : obs) : bool :=
  let '(ls, rs, pid0, pname, logs) := o in
  let pid := map (fun e : N * str => (tr_id r (n_name n) (fst e), snd e)) pid0 in
  list_eqb (fun a b => str_eqb (fst a) (fst b) && set_eqb N.eqb (snd a) (snd b)) (n_lsubs n) ls &&
  list_eqb (fun a b => str_eqb (fst a) (fst b) && set_eqb str_eqb (snd a) (snd b)) (n_rsubs n) rs &&
  list_eqb (fun a b => N.eqb (fst a) (fst b) && str_eqb (snd a) (snd b)) (n_pid n) pid &&
  list_rel (fun (a : str * preq) (b : str * (bool * list N)) =>
              str_eqb (fst a) (fst b) && Bool.eqb (pq_sub (snd a)) (fst (snd b))
              && set_eqb N.eqb (pq_recv (snd a)) (snd (snd b))
              && str_eqb (fst a) (key3 (pq_ctx (snd a)) (pq_pub (snd a)) (pq_sig (snd a))))
           (n_pname n) pname &&
  forallb (fun e : N * list sigrec => list_eqb sigrec_eqb (log_of n (fst e)) (snd e)) logs &&
  forallb (fun e : logent => smem N.eqb (fst (fst e)) (map fst logs)) (n_log n).

Inductive ev :=
| EStep (l : labelN) (exp : list out)
| EObjRemoveU (x o : name) (u : list name) (exp : list out)   (* remove_rpc_object at x while the peers u are unreachable *)
| ECheck (x : name) (o : obs).

Definition case := (list (name * list name) * list ev)%type.

Definition actorN (l : labelN) : name :=
  match l with LNode x _ => x | LDeliver _ y => y | LClose x _ => x | LConnect _ _ => [] end.

(* index of the first event the model does not reproduce, with the model's outputs there *)
Fixpoint first_bad (r : ren) (s : sysN) (es : list ev) (i : nat) : option (nat * option (list out)) :=
  match es with
  | [] => None
  | EStep l exp :: rest =>
      match stepN s l with
      | Some (s', os) =>
          match match_outs r (actorN l) os exp with
          | Some r' => first_bad r' s' rest (S i)
          | None =>
              match l with
              | LNode x (ISub call _ _ _ _) =>
                  match stepN s' (LNode x (ISubEnd call)) with
                  | Some (s'', os2) =>
                      if is_wait_then_err os os2 then
                        match match_outs r x (swap_wait os) exp with
                        | Some r' => first_bad r' s'' rest (S i)
                        | None => Some (i, Some os)
                        end
                      else Some (i, Some os)
                  | None => Some (i, Some os)
                  end
              | _ => Some (i, Some os)
              end
          end
      | None => Some (i, None)
      end
  | EObjRemoveU x o u exp :: rest =>
      match getn s x with
      | Some n =>
          let '(n', os) := object_removed_u u (w_objs (sdel str_eqb o (n_objs n)) n) o in
          match match_outs r x os exp with
          | Some r' => first_bad r' (routeN x os (putn x n' s)) rest (S i)
          | None => Some (i, Some os)
          end
      | None => Some (i, None)
      end
  | ECheck x o :: rest =>
      match getn s x with
      | Some n => if obs_ok r n o then first_bad r s rest (S i) else Some (i, Some [])
      | None => Some (i, None)
      end
  end.

Definition model_out (c : case) : option (nat * option (list out)) := first_bad [] (initN (fst c)) (snd c) 0.
Definition check_case (c : case) : bool := match model_out c with None => true | Some _ => false end.

(* the model's tables of one node after a history (for replay printing) *)
Fixpoint runN (s : sysN) (es : list ev) : option sysN :=
  match es with
  | [] => Some s
  | EStep l _ :: r => match stepN s l with Some (s', _) => runN s' r | None => None end
  | EObjRemoveU x o u _ :: r =>
      match getn s x with
      | Some n => let '(n', os) := object_removed_u u (w_objs (sdel str_eqb o (n_objs n)) n) o in runN (routeN x os (putn x n' s)) r
      | None => None
      end
  | ECheck _ _ :: r => runN s r
  end.

(* ---- the two-node system of the theorems on the same histories ---- *)
Inductive ev2 :=
| E2Step (l : label2) (exp : list out)
| E2Check (sd : bool) (o : obs).

Definition case2 := ((name * list name) * (name * list name) * list ev2)%type.

Definition actor2 (s : sys2) (l : label2) : name :=
  match l with
  | L2Node sd _ => n_name (nd s sd)
  | L2Deliver sd => n_name (nd s (negb sd))
  | L2Close sd => n_name (nd s sd)
  | L2Connect => []
  end.

Fixpoint first_bad2 (r : ren) (s : sys2) (es : list ev2) (i : nat) : option (nat * option (list out)) :=
  match es with
  | [] => None
  | E2Step l exp :: rest =>
      match step2 s l with
      | Some (s', os) =>
          match match_outs r (actor2 s l) os exp with
          | Some r' => first_bad2 r' s' rest (S i)
          | None =>
              match l with
              | L2Node sd (ISub call _ _ _ _) =>
                  match step2 s' (L2Node sd (ISubEnd call)) with
                  | Some (s'', os2) =>
                      if is_wait_then_err os os2 then
                        match match_outs r (actor2 s l) (swap_wait os) exp with
                        | Some r' => first_bad2 r' s'' rest (S i)
                        | None => Some (i, Some os)
                        end
                      else Some (i, Some os)
                  | None => Some (i, Some os)
                  end
              | _ => Some (i, Some os)
              end
          end
      | None => Some (i, None)
      end
  | E2Check sd o :: rest => if obs_ok r (nd s sd) o then first_bad2 r s rest (S i) else Some (i, Some [])
  end.

Definition model_out2 (c : case2) : option (nat * option (list out)) :=
  let '(a, b, es) := c in first_bad2 [] (init2 (fst a) (fst b) (snd a) (snd b)) es 0.
Definition check_case2 (c : case2) : bool := match model_out2 c with None => true | Some _ => false end.

(* name validity on its own (util.is_valid_object_name) *)
Definition check_name (c : list N * bool) : bool := Bool.eqb (valid_name (fst c)) (snd c).

(* ---- the hypothesis about object removal, checked on real schedules ----
   The model's step IObjRemove is atomic: the object stops being known AND handle_object_removed runs,
   before anything else can happen to that name.  What this needs from QMI_Context.remove_rpc_object is that
   the subscription clean-up of a removed object runs while its name is still reserved: no object with the
   same name can be created between the release of the name and the clean-up of the previous incarnation
   (otherwise the clean-up, which works by name, hits the NEW object).  The thread-level runs record, per
   context, the events of the object map and of handle_object_removed; [lifecycle_ok] rejects a schedule in
   which a name is reserved again while the clean-up of its previous incarnation is still outstanding. *)
Inductive objev :=
| EvMark (x : name)       (* remove_rpc_object: the name is marked "being removed" *)
| EvCleanup (x : name)    (* SignalManager.handle_object_removed(x) *)
| EvRelease (x : name)    (* the name is deleted from the object map *)
| EvReserve (x : name).   (* make_rpc_object reserves the name *)

(* marked: removal started, clean-up not yet run; dangling: released while the clean-up is outstanding *)
Fixpoint lifecycle_run (marked dangling : list name) (evs : list objev) : bool :=
  match evs with
  | [] => true
  | EvMark x :: r => lifecycle_run (sadd str_eqb x marked) dangling r
  | EvCleanup x :: r => lifecycle_run (sdel str_eqb x marked) (sdel str_eqb x dangling) r
  | EvRelease x :: r =>
      if smem str_eqb x marked then lifecycle_run (sdel str_eqb x marked) (sadd str_eqb x dangling) r
      else lifecycle_run marked dangling r
  | EvReserve x :: r => if smem str_eqb x dangling then false else lifecycle_run marked dangling r
  end.

Definition lifecycle_ok (evs : list objev) : bool := lifecycle_run [] [] evs.

(* ---- which connection the manager is told about ----
   In the model a context knows its connections by the names in [n_peers]: these are the LOCAL ALIASES of the
   message router (the peer's context name for an outgoing connection, "$client_N" for an incoming one), a
   connection is the pair (context, alias), and the step IPeerRemoved x — handle_peer_context_removed(x) —
   names the alias of the connection that closed: it leaves every other connection of the context, in
   particular another connection to the same peer context, and the subscriptions made over it, untouched.
   The thread-level runs record, around every close, the aliases the router of a context knew before, the
   argument of each handle_peer_context_removed call, and the aliases it knows afterwards. *)
Definition peer_notice_ok (c : list name * list name * list name) : bool :=
  let '(before, told, after) := c in
  forallb (fun x => smem str_eqb x before) told &&
  match node_run (w_peers before (init_node [] [])) (map IPeerRemoved told) with
  | Some (n, _) => set_eqb str_eqb (n_peers n) after
  | None => false
  end.

