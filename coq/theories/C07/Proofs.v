Require Import QV.C07.Model.
