(* C07 — lemmas: publications in progress, receiver logs, table keys. *)
From Coq Require Import List NArith ZArith Bool Arith Lia.
Require Import QV.C07.Model QV.C07.ProofsLib.
Import ListNotations.
Open Scope N_scope.

(* ------------------------------------------------------------------ frames *)
(* the part of a node only the publish steps and signal delivery touch *)
Definition pubpart (n : node) := (n_name n, n_jobs n, n_log n, n_jobctr n).
(* the part only the table handlers touch *)
Definition namepart (n : node) := n_name n.

Ltac crush_match :=
  repeat match goal with
         | |- context [match ?x with _ => _ end] => destruct x eqn:?; simpl
         | |- context [if ?x then _ else _] => destruct x eqn:?; simpl
         end.

Lemma complete_pub n id ok : pubpart (fst (complete n id ok)) = pubpart n.
Proof. unfold complete. crush_match; reflexivity. Qed.

Lemma send_req_pub n id q : pubpart (fst (send_req n id q)) = pubpart n.
Proof.
  unfold send_req. destruct (can_send n (pq_ctx q)); [reflexivity|].
  destruct (complete n id false) as [n1 r1] eqn:E1.
  assert (H1 : pubpart n1 = pubpart n) by (rewrite <- (complete_pub n id false), E1; reflexivity).
  destruct r1 as [[id2 q2]|]; simpl; [|exact H1].
  rewrite complete_pub. exact H1.
Qed.

Lemma handle_reply_pub n id ok : pubpart (fst (handle_reply n id ok)) = pubpart n.
Proof.
  unfold handle_reply. destruct (complete n id ok) as [n1 r1] eqn:E1.
  assert (H1 : pubpart n1 = pubpart n) by (rewrite <- (complete_pub n id ok), E1; reflexivity).
  destruct r1 as [[id2 q2]|]; simpl; [|exact H1].
  rewrite send_req_pub. exact H1.
Qed.

Lemma remove_local_pub n k r : pubpart (fst (remove_local n k r)) = pubpart n.
Proof. unfold remove_local. crush_match; reflexivity. Qed.

Lemma sub_remote_pub n call c p s r : pubpart (fst (sub_remote n call c p s r)) = pubpart n.
Proof.
  unfold sub_remote.
  destruct (alookup str_eqb (key3 c p s) (n_lsubs n)) as [[|x l]|]; try reflexivity;
  (destruct (alookup str_eqb (key3 c p s) (n_pname n)); [reflexivity|]);
  unfold new_request;
  match goal with |- context [send_req ?a ?b ?c] => pose proof (send_req_pub a b c) as H; destruct (send_req a b c) end;
  simpl in *; rewrite H; reflexivity.
Qed.

Lemma unsub_remote_pub n c p s r : pubpart (fst (unsub_remote n c p s r)) = pubpart n.
Proof.
  unfold unsub_remote. pose proof (remove_local_pub n (key3 c p s) r) as H0.
  destruct (remove_local n (key3 c p s) r) as [n1 last]. simpl in H0.
  destruct last; [|simpl; exact H0].
  destruct (alookup str_eqb (key3 c p s) (n_pname n1)); [simpl; exact H0|].
  unfold new_request.
  match goal with |- context [send_req ?a ?b ?c] => pose proof (send_req_pub a b c) as H; destruct (send_req a b c) end.
  simpl in *. rewrite H. exact H0.
Qed.

Lemma err_replies_pub ids : forall n, pubpart (fst (err_replies n ids)) = pubpart n.
Proof.
  induction ids as [|id r IH]; intro n; simpl; [reflexivity|].
  pose proof (handle_reply_pub n id false) as H. destruct (handle_reply n id false) as [n1 o1]. simpl in H.
  specialize (IH n1). destruct (err_replies n1 r) as [n2 o2]. simpl in *. congruence.
Qed.

Definition touches_pub (i : input) : bool :=
  match i with
  | IPubBegin _ _ _ | IPubDeliver _ _ | IPubSnapRemote _ | IPubSend _ _ | IRecv _ (MSignal _ _ _ _) => true
  | _ => false
  end.

Lemma some_fst {A B} (x : A * B) a b : Some x = Some (a, b) -> a = fst x.
Proof. intro H. inversion H. reflexivity. Qed.

Ltac fst_of H := apply some_fst in H; rewrite H; clear H.

Lemma step_pub n i n' os : node_step n i = Some (n', os) -> touches_pub i = false -> pubpart n' = pubpart n.
Proof.
  intros H Ht. destruct i; simpl in Ht; try discriminate; simpl in H.
  - (* ISub *)
    destruct (negb (names_ok (resolve_ctx n c) p s)); [fst_of H; reflexivity|].
    destruct (str_eqb (resolve_ctx n c) (n_name n)).
    + fst_of H. unfold sub_local, add_local. crush_match; reflexivity.
    + fst_of H. apply sub_remote_pub.
  - destruct (alookup N.eqb call (n_done n)); [|discriminate]. fst_of H. reflexivity.
  - destruct (negb (names_ok (resolve_ctx n c) p s)); [fst_of H; reflexivity|].
    destruct (str_eqb (resolve_ctx n c) (n_name n)).
    + fst_of H. apply remove_local_pub.
    + fst_of H. apply unsub_remote_pub.
  - fst_of H. reflexivity.
  - fst_of H. unfold object_removed. reflexivity.
  - destruct m; try discriminate; fst_of H.
    + unfold handle_sub_request, add_remote, remove_remote. crush_match; reflexivity.
    + apply handle_reply_pub.
    + reflexivity.
  - fst_of H. apply handle_reply_pub.
  - fst_of H. reflexivity.
  - fst_of H. unfold peer_removed. reflexivity.
Qed.

Lemma step_name n i n' os : node_step n i = Some (n', os) -> n_name n' = n_name n.
Proof.
  intro H. destruct (touches_pub i) eqn:Ht.
  - destruct i; simpl in Ht; try discriminate; simpl in H.
    + destruct (negb (valid_name p && valid_name s)); fst_of H; reflexivity.
    + destruct (find_job j (n_jobs n)); [|discriminate]. destruct (smem N.eqb r (j_todo j0)); [|discriminate]. fst_of H; reflexivity.
    + destruct (find_job j (n_jobs n)); [|discriminate]. destruct (j_todo j0); [|discriminate].
      destruct (j_rsnap j0); [discriminate|]. fst_of H; reflexivity.
    + destruct (find_job j (n_jobs n)); [|discriminate]. destruct (smem str_eqb x (j_rtodo j0)); [|discriminate]. fst_of H; reflexivity.
    + destruct m; try discriminate. fst_of H. unfold deliver_remote. crush_match; reflexivity.
  - pose proof (step_pub _ _ _ _ H Ht) as E. unfold pubpart in E. congruence.
Qed.

(* ------------------------------------------------------------------ jobs *)
Lemma find_job_In j l b : find_job j l = Some b -> In b l /\ j_id b = j.
Proof.
  induction l as [|c r IH]; simpl; [discriminate|].
  destruct (j_id c =? j) eqn:E.
  - intro H. inversion H; subst. apply N.eqb_eq in E. auto.
  - intro H. destruct (IH H). auto.
Qed.

Lemma In_put_job b' l b :
  NoDup (map j_id l) -> In b (put_job b' l) -> b = b' \/ (In b l /\ j_id b <> j_id b').
Proof.
  induction l as [|c r IH]; simpl; [tauto|]. intro ND. inversion ND; subst.
  destruct (j_id c =? j_id b') eqn:E.
  - apply N.eqb_eq in E. intros [H|H]; [left; auto|].
    right. split; [right; exact H|]. intro Hid. apply H1. rewrite E, <- Hid. apply in_map. exact H.
  - apply N.eqb_neq in E. intros [H|H].
    + subst. right. split; [left; reflexivity | exact E].
    + destruct (IH H2 H) as [->|[Hin Hid]]; [left; reflexivity | right; split; [right; exact Hin | exact Hid]].
Qed.

Lemma ids_put_job b' l : In (j_id b') (map j_id l) -> map j_id (put_job b' l) = map j_id l.
Proof.
  induction l as [|c r IH]; simpl; [tauto|].
  destruct (j_id c =? j_id b') eqn:E.
  - apply N.eqb_eq in E. intros _. simpl. congruence.
  - apply N.eqb_neq in E. intros [H|H]; [congruence|]. simpl. rewrite IH; auto.
Qed.

Lemma put_job_has b' l : In (j_id b') (map j_id l) -> In b' (put_job b' l).
Proof.
  induction l as [|c r IH]; simpl; [tauto|].
  destruct (j_id c =? j_id b') eqn:E; [intros _; left; reflexivity|].
  apply N.eqb_neq in E. intros [H|H]; [congruence | right; apply IH; exact H].
Qed.

(* log entries of publication j of this context for receiver r *)
Definition is_local (nm : name) (j : N) (r : N) (e : logent) : bool :=
  let '(r', (c, _, _, _), j') := e in N.eqb r' r && str_eqb c nm && N.eqb j' j.
Definition cnt (nm : name) (j r : N) (log : list logent) : nat := length (filter (is_local nm j r) log).

Definition input_ok (nm : name) (i : input) : Prop :=
  match i with IRecv from _ => from <> nm | _ => True end.

Definition lists_nodup (n : node) : Prop :=
  (forall k l, In (k, l) (n_lsubs n) -> NoDup l) /\
  (forall k q, In (k, q) (n_pname n) -> NoDup (pq_recv q)) /\
  (forall k l, In (k, l) (n_rsubs n) -> NoDup l).

Definition job_ok (nm : name) (log : list logent) (b : job) : Prop :=
  NoDup (j_snap b) /\ NoDup (j_todo b) /\ (forall r, In r (j_todo b) -> In r (j_snap b)) /\
  (forall r, cnt nm (j_id b) r log = if smem N.eqb r (j_snap b) && negb (smem N.eqb r (j_todo b)) then 1%nat else 0%nat) /\
  match j_rsnap b with
  | None => j_rtodo b = []
  | Some l => NoDup l /\ NoDup (j_rtodo b) /\ (forall x, In x (j_rtodo b) -> In x l) /\ j_todo b = []
  end.

Definition JInv (nm : name) (n : node) : Prop :=
  n_name n = nm /\
  (forall b, In b (n_jobs n) -> j_id b < n_jobctr n) /\
  NoDup (map j_id (n_jobs n)) /\
  (forall b, In b (n_jobs n) -> job_ok nm (n_log n) b) /\
  (forall r c p s a j, In (r, (c, p, s, a), j) (n_log n) -> c = nm ->
     exists b, In b (n_jobs n) /\ j_id b = j /\ j_pub b = p /\ j_sig b = s /\ j_args b = a /\ In r (j_snap b)) /\
  lists_nodup n.

(* ------------------------------------------------------------------ receiver / peer lists are sets *)
Definition LN (n : node) : Prop :=
  vals_ok (@NoDup N) (n_lsubs n) /\ vals_ok (fun q => NoDup (pq_recv q)) (n_pname n) /\ vals_ok (@NoDup name) (n_rsubs n).

Lemma LN_lists n : LN n <-> lists_nodup n.
Proof. unfold LN, lists_nodup, vals_ok. tauto. Qed.

Lemma NoDup_sadd_N x l : NoDup l -> NoDup (sadd N.eqb x l).
Proof. apply NoDup_sadd, N.eqb_eq. Qed.
Lemma NoDup_sadd_S x l : NoDup l -> NoDup (sadd str_eqb x l).
Proof. apply NoDup_sadd, str_eqb_spec. Qed.
Lemma NoDup_sdel_N x l : NoDup l -> NoDup (sdel N.eqb x l).
Proof. apply NoDup_sdel. Qed.
Lemma NoDup_sdel_S x l : NoDup l -> NoDup (sdel str_eqb x l).
Proof. apply NoDup_sdel. Qed.
Lemma NoDup_sunion_N l m : NoDup l -> NoDup (sunion N.eqb l m).
Proof. apply NoDup_sunion, N.eqb_eq. Qed.
Lemma NoDup_one {A} (x : A) : NoDup [x].
Proof. constructor; [simpl; tauto | constructor]. Qed.

#[export] Hint Resolve vals_aset vals_aremove vals_filter NoDup_sadd_N NoDup_sadd_S NoDup_sdel_N NoDup_sdel_S
  NoDup_sunion_N NoDup_one NoDup_nil : tab.

Ltac lookups :=
  repeat match goal with
         | H : alookup str_eqb ?k ?t = Some ?v, Hv : vals_ok ?P ?t |- _ =>
             let T := eval cbv beta in (P v) in
             lazymatch goal with
             | _ : T |- _ => fail
             | _ => let Hn := fresh "Hlk" in
                    assert (Hn : T) by (exact (vals_lookup str_eqb str_eqb_spec P k v t Hv H))
             end
         end.

Lemma vals_aset_preq k v (t : list (str * preq)) :
  vals_ok (fun q => NoDup (pq_recv q)) t -> NoDup (pq_recv v) -> vals_ok (fun q => NoDup (pq_recv q)) (aset str_eqb k v t).
Proof. intros. apply vals_aset; assumption. Qed.

Ltac ln_tac :=
  crush_match; unfold LN in *; simpl in *;
  repeat match goal with H : _ /\ _ |- _ => destruct H end;
  lookups; repeat split; simpl;
  try (apply vals_aset_preq; simpl); eauto 7 with tab; fail.

Lemma complete_LN n id ok : LN n -> LN (fst (complete n id ok)).
Proof. intro H. unfold complete. ln_tac. Qed.

Lemma send_req_LN n id q : LN n -> LN (fst (send_req n id q)).
Proof.
  intro H. unfold send_req. destruct (can_send n (pq_ctx q)); [exact H|].
  pose proof (complete_LN n id false H) as H1. destruct (complete n id false) as [n1 r1]. simpl in H1.
  destruct r1 as [[id2 q2]|]; simpl; [|exact H1]. apply complete_LN. exact H1.
Qed.

Lemma handle_reply_LN n id ok : LN n -> LN (fst (handle_reply n id ok)).
Proof.
  intro H. unfold handle_reply.
  pose proof (complete_LN n id ok H) as H1. destruct (complete n id ok) as [n1 r1]. simpl in H1.
  destruct r1 as [[id2 q2]|]; simpl; [|exact H1]. apply send_req_LN. exact H1.
Qed.

Lemma remove_local_LN n k r : LN n -> LN (fst (remove_local n k r)).
Proof. intro H. unfold remove_local. ln_tac. Qed.

Lemma sub_remote_LN n call c p s r : LN n -> LN (fst (sub_remote n call c p s r)).
Proof.
  intro H. unfold sub_remote.
  destruct (alookup str_eqb (key3 c p s) (n_lsubs n)) as [[|x l]|] eqn:El.
  2: { ln_tac. }
  all: destruct (alookup str_eqb (key3 c p s) (n_pname n)) as [q|] eqn:Eq; [solve [ln_tac]|];
    unfold new_request;
    match goal with |- context [send_req ?a ?b ?c] =>
      assert (Ha : LN a) by ln_tac; pose proof (send_req_LN a b c Ha) as Hs; destruct (send_req a b c) end;
    exact Hs.
Qed.

Lemma unsub_remote_LN n c p s r : LN n -> LN (fst (unsub_remote n c p s r)).
Proof.
  intro H. unfold unsub_remote. pose proof (remove_local_LN n (key3 c p s) r H) as H0.
  destruct (remove_local n (key3 c p s) r) as [n1 last]. simpl in H0.
  destruct last; [|exact H0].
  destruct (alookup str_eqb (key3 c p s) (n_pname n1)); [exact H0|].
  unfold new_request.
  match goal with |- context [send_req ?a ?b ?c] =>
    assert (Ha : LN a) by ln_tac; pose proof (send_req_LN a b c Ha) as Hs; destruct (send_req a b c) end.
  exact Hs.
Qed.

Lemma vals_flat_peer x (t : list (str * list name)) :
  vals_ok (@NoDup name) t ->
  vals_ok (@NoDup name)
    (flat_map (fun e => if smem str_eqb x (snd e) then
                          let l' := sdel str_eqb x (snd e) in if is_nil l' then [] else [(fst e, l')]
                        else [e]) t).
Proof.
  intros Ht k v Hin. apply in_flat_map in Hin as [[k0 l0] [Hin0 Hin]]. simpl in Hin.
  destruct (smem str_eqb x l0).
  - destruct (is_nil (sdel str_eqb x l0)); [destruct Hin|]. destruct Hin as [Hin|[]]. inversion Hin; subst.
    apply NoDup_sdel_S. eapply Ht; eauto.
  - destruct Hin as [Hin|[]]. inversion Hin; subst. eapply Ht; eauto.
Qed.

Lemma step_LN n i n' os : node_step n i = Some (n', os) -> LN n -> LN n'.
Proof.
  intros H Hn. destruct i; simpl in H.
  - destruct (negb (names_ok (resolve_ctx n c) p s)); [fst_of H; exact Hn|].
    destruct (str_eqb (resolve_ctx n c) (n_name n)).
    + fst_of H. unfold sub_local, add_local. ln_tac.
    + fst_of H. apply sub_remote_LN. exact Hn.
  - destruct (alookup N.eqb call (n_done n)); [|discriminate]. fst_of H. exact Hn.
  - destruct (negb (names_ok (resolve_ctx n c) p s)); [fst_of H; exact Hn|].
    destruct (str_eqb (resolve_ctx n c) (n_name n)).
    + fst_of H. apply remove_local_LN. exact Hn.
    + fst_of H. apply unsub_remote_LN. exact Hn.
  - destruct (negb (valid_name p && valid_name s)); fst_of H; exact Hn.
  - destruct (find_job j (n_jobs n)); [|discriminate]. destruct (smem N.eqb r (j_todo j0)); [|discriminate]. fst_of H. exact Hn.
  - destruct (find_job j (n_jobs n)); [|discriminate]. destruct (j_todo j0); [|discriminate].
    destruct (j_rsnap j0); [discriminate|]. fst_of H. exact Hn.
  - destruct (find_job j (n_jobs n)); [|discriminate]. destruct (smem str_eqb x (j_rtodo j0)); [|discriminate]. fst_of H. exact Hn.
  - fst_of H. exact Hn.
  - fst_of H. unfold object_removed. ln_tac.
  - destruct m; fst_of H.
    + unfold deliver_remote. ln_tac.
    + unfold handle_sub_request, add_remote, remove_remote. ln_tac.
    + apply handle_reply_LN. exact Hn.
    + ln_tac.
  - fst_of H. apply handle_reply_LN. exact Hn.
  - fst_of H. exact Hn.
  - fst_of H. unfold peer_removed. destruct Hn as (H1 & H2 & H3). unfold LN. simpl. repeat split; auto with tab.
    apply vals_flat_peer. exact H3.
Qed.

(* ------------------------------------------------------------------ the publication invariant *)
Lemma cnt_cons nm j r e log :
  cnt nm j r (e :: log) = ((if is_local nm j r e then 1 else 0) + cnt nm j r log)%nat.
Proof. unfold cnt. simpl. destruct (is_local nm j r e); reflexivity. Qed.

Lemma cnt_app_other nm j r new log :
  (forall e, In e new -> is_local nm j r e = false) -> cnt nm j r (new ++ log) = cnt nm j r log.
Proof.
  intro H. induction new as [|e new IH]; simpl; [reflexivity|].
  rewrite cnt_cons, (H e (or_introl eq_refl)). simpl. apply IH. intros e' He'. apply H. right. exact He'.
Qed.

Lemma is_local_true nm j r e :
  is_local nm j r e = true <-> exists p s a, e = (r, (nm, p, s, a), j).
Proof.
  destruct e as [[r' [[[c p] s] a]] j']. simpl. split.
  - intro H. apply andb_true_iff in H as [H H3]. apply andb_true_iff in H as [H1 H2].
    apply N.eqb_eq in H1, H3. apply str_eqb_spec in H2. subst. eauto.
  - intros (p0 & s0 & a0 & E). inversion E; subst. rewrite !N.eqb_refl, str_eqb_refl. reflexivity.
Qed.

Ltac jsplit := unfold JInv; split; [|split; [|split; [|split; [|split]]]].

Lemma JInv_frame nm n n' : pubpart n' = pubpart n -> LN n' -> JInv nm n -> JInv nm n'.
Proof.
  unfold pubpart. intros E HL (H0 & H1 & H2 & H3 & H4 & H5). inversion E as [[E1 E2 E3 E4]].
  unfold JInv. rewrite E1, E2, E3, E4. jsplit; try assumption.
Qed.

Lemma smem_N_In x l : smem N.eqb x l = true <-> In x l.
Proof. apply smem_In, N.eqb_eq. Qed.
Lemma smem_S_In x l : smem str_eqb x l = true <-> In x l.
Proof. apply smem_In, str_eqb_spec. Qed.

Lemma opt_list_nodup {A} (t : list (str * list A)) k :
  vals_ok (@NoDup A) t -> NoDup (opt_list (alookup str_eqb k t)).
Proof.
  intro H. destruct (alookup str_eqb k t) eqn:E; simpl; [|constructor].
  eapply (vals_lookup str_eqb str_eqb_spec); eauto.
Qed.

Lemma step_JInv nm n i n' os :
  node_step n i = Some (n', os) -> input_ok nm i -> JInv nm n -> JInv nm n'.
Proof.
  intros H Hi HJ.
  assert (HL' : LN n') by (eapply step_LN; [exact H | apply LN_lists; apply HJ]).
  destruct (touches_pub i) eqn:Ht.
  2: { apply (JInv_frame nm n n'); [eapply step_pub; eauto | exact HL' | exact HJ]. }
  destruct HJ as (H0 & H1 & H2 & H3 & H4 & H5).
  destruct i; simpl in Ht; try discriminate; simpl in H.
  - (* IPubBegin *)
    destruct (negb (valid_name p && valid_name s)).
    + fst_of H. jsplit; simpl; try assumption. intros b Hb. specialize (H1 b Hb). lia.
    + fst_of H.
      assert (Hfresh : forall r, cnt nm (n_jobctr n) r (n_log n) = 0%nat).
      { intro r. unfold cnt. destruct (filter (is_local nm (n_jobctr n) r) (n_log n)) as [|e l] eqn:Ef; [reflexivity|].
        assert (Hin : In e (filter (is_local nm (n_jobctr n) r) (n_log n))) by (rewrite Ef; left; reflexivity).
        apply filter_In in Hin as [Hin Hl]. apply is_local_true in Hl as (p0 & s0 & a0 & ->).
        destruct (H4 _ _ _ _ _ _ Hin eq_refl) as (b & Hb & Hid & _). specialize (H1 b Hb). lia. }
      jsplit; simpl; try assumption.
      * intros b Hb. apply in_app_iff in Hb as [Hb|[<-|[]]]; [specialize (H1 b Hb); lia | simpl; lia].
      * rewrite map_app. simpl. apply NoDup_snoc; [assumption|].
        intro Hin. apply in_map_iff in Hin as [b [Hid Hb]]. specialize (H1 b Hb). lia.
      * intros b Hb. apply in_app_iff in Hb as [Hb|[<-|[]]]; [apply H3; exact Hb|].
        unfold job_ok. simpl. rewrite H0.
        assert (ND : NoDup (opt_list (alookup str_eqb (key3 nm p s) (n_lsubs n)))) by (apply opt_list_nodup; exact (proj1 H5)).
        repeat split; try assumption; try tauto.
        intro r. rewrite Hfresh. destruct (smem N.eqb r _); reflexivity.
      * intros r c p0 s0 a0 j Hin Hc. destruct (H4 _ _ _ _ _ _ Hin Hc) as (b & Hb & Hrest).
        exists b. split; [apply in_app_iff; left; exact Hb | exact Hrest].
  - (* IPubDeliver *)
    destruct (find_job j (n_jobs n)) as [b|] eqn:Ef; [|discriminate].
    destruct (smem N.eqb r (j_todo b)) eqn:Er; [|discriminate]. fst_of H.
    apply find_job_In in Ef as [Hb Hid]. apply smem_N_In in Er.
    destruct (H3 b Hb) as (K1 & K2 & K3 & K4 & K5).
    assert (Hrs : j_rsnap b = None).
    { destruct (j_rsnap b); [|reflexivity]. destruct K5 as (_ & _ & _ & K5). rewrite K5 in Er. destruct Er. }
    set (b' := mkJob (j_id b) (j_pub b) (j_sig b) (j_args b) (j_snap b) (sdel N.eqb r (j_todo b)) (j_rsnap b) (j_rtodo b)).
    assert (Hidin : In (j_id b') (map j_id (n_jobs n))) by (simpl; apply in_map; exact Hb).
    jsplit; simpl; try assumption.
    + intros b2 Hb2. apply In_put_job in Hb2 as [->|[Hb2 _]]; [simpl; apply H1; exact Hb | apply H1; exact Hb2 | assumption].
    + rewrite ids_put_job; assumption.
    + intros b2 Hb2. apply In_put_job in Hb2 as [->|[Hb2 Hne]]; [| |assumption].
      * unfold job_ok. simpl. rewrite Hrs. rewrite Hrs in K5. repeat split; try assumption.
        -- apply NoDup_sdel_N. exact K2.
        -- intros r0 Hr0. apply (In_sdel N.eqb N.eqb_eq) in Hr0 as [_ Hr0]. apply K3. exact Hr0.
        -- intro r0. rewrite cnt_cons, K4. subst j. rewrite H0.
           destruct (N.eq_dec r0 r) as [->|Hne].
           ++ simpl. rewrite !N.eqb_refl, str_eqb_refl. simpl.
              assert (E1 : smem N.eqb r (j_snap b) = true) by (apply smem_N_In; apply K3; exact Er).
              assert (E2 : smem N.eqb r (j_todo b) = true) by (apply smem_N_In; exact Er).
              assert (E3 : smem N.eqb r (sdel N.eqb r (j_todo b)) = false).
              { apply (smem_false N.eqb N.eqb_eq). intro Hx. apply (In_sdel N.eqb N.eqb_eq) in Hx as [Hx _]. congruence. }
              rewrite E1, E2, E3. reflexivity.
           ++ simpl. replace (r =? r0) with false by (symmetry; apply N.eqb_neq; congruence). simpl.
              assert (E3 : smem N.eqb r0 (sdel N.eqb r (j_todo b)) = smem N.eqb r0 (j_todo b)).
              { destruct (smem N.eqb r0 (j_todo b)) eqn:Eold.
                - apply smem_N_In. apply (In_sdel N.eqb N.eqb_eq). split; [exact Hne | apply smem_N_In; exact Eold].
                - apply (smem_false N.eqb N.eqb_eq). intro Hx. apply (In_sdel N.eqb N.eqb_eq) in Hx as [_ Hx].
                  apply smem_N_In in Hx. congruence. }
              rewrite E3. reflexivity.
      * destruct (H3 b2 Hb2) as (L1 & L2 & L3 & L4 & L5). unfold job_ok. repeat split; try assumption.
        intro r0. rewrite cnt_cons, L4. simpl in Hne. subst j.
        simpl. replace (j_id b =? j_id b2) with false by (symmetry; apply N.eqb_neq; congruence).
        rewrite !andb_false_r. reflexivity.
    + intros r0 c p s a j0 [Hin|Hin] Hc.
      * inversion Hin; subst. exists b'. split; [apply put_job_has; exact Hidin|].
        simpl. repeat split; try reflexivity. apply K3. exact Er.
      * destruct (H4 _ _ _ _ _ _ Hin Hc) as (b2 & Hb2 & I1 & I2 & I3 & I4 & I5).
        destruct (N.eq_dec (j_id b2) (j_id b)) as [Eid|Nid].
        -- assert (b2 = b).
           { clear - H2 Hb Hb2 Eid. induction (n_jobs n) as [|c l IH]; [destruct Hb|].
             simpl in H2. inversion H2; subst. destruct Hb as [->|Hb], Hb2 as [->|Hb2]; try reflexivity.
             - exfalso. apply H1. rewrite <- Eid. apply in_map. exact Hb2.
             - exfalso. apply H1. rewrite Eid. apply in_map. exact Hb.
             - apply IH; assumption. }
           subst b2. exists b'. split; [apply put_job_has; exact Hidin|]. simpl. auto.
        -- exists b2. split; [|auto].
           clear - Hb2 Nid. induction (n_jobs n) as [|c l IH]; [destruct Hb2|]. simpl.
           destruct (j_id c =? j_id b) eqn:E.
           ++ apply N.eqb_eq in E. destruct Hb2 as [->|Hb2]; [congruence | right; exact Hb2].
           ++ destruct Hb2 as [->|Hb2]; [left; reflexivity | right; apply IH; exact Hb2].
  - (* IPubSnapRemote *)
    destruct (find_job j (n_jobs n)) as [b|] eqn:Ef; [|discriminate].
    destruct (j_todo b) eqn:Etodo; [|discriminate]. destruct (j_rsnap b) eqn:Ers; [discriminate|]. fst_of H.
    apply find_job_In in Ef as [Hb Hid].
    destruct (H3 b Hb) as (K1 & K2 & K3 & K4 & K5).
    set (b' := mkJob (j_id b) (j_pub b) (j_sig b) (j_args b) (j_snap b) []
                     (Some (opt_list (alookup str_eqb (key2 (j_pub b) (j_sig b)) (n_rsubs n))))
                     (opt_list (alookup str_eqb (key2 (j_pub b) (j_sig b)) (n_rsubs n)))).
    assert (Hidin : In (j_id b') (map j_id (n_jobs n))) by (simpl; apply in_map; exact Hb).
    jsplit; simpl; try assumption.
    + intros b2 Hb2. apply In_put_job in Hb2 as [->|[Hb2 _]]; [simpl; apply H1; exact Hb | apply H1; exact Hb2 | assumption].
    + rewrite ids_put_job; assumption.
    + intros b2 Hb2. apply In_put_job in Hb2 as [->|[Hb2 Hne]]; [| apply H3; exact Hb2 | assumption].
      unfold job_ok. simpl. rewrite Etodo in *.
      assert (ND : NoDup (opt_list (alookup str_eqb (key2 (j_pub b) (j_sig b)) (n_rsubs n)))) by (apply opt_list_nodup; exact (proj2 (proj2 H5))).
      repeat split; try assumption; try tauto.
    + intros r0 c p s a j0 Hin Hc.
      destruct (H4 _ _ _ _ _ _ Hin Hc) as (b2 & Hb2 & I1 & I2 & I3 & I4 & I5).
      destruct (N.eq_dec (j_id b2) (j_id b)) as [Eid|Nid].
      * assert (b2 = b).
        { clear - H2 Hb Hb2 Eid. induction (n_jobs n) as [|c l IH]; [destruct Hb|].
          simpl in H2. inversion H2; subst. destruct Hb as [->|Hb], Hb2 as [->|Hb2]; try reflexivity.
          - exfalso. apply H1. rewrite <- Eid. apply in_map. exact Hb2.
          - exfalso. apply H1. rewrite Eid. apply in_map. exact Hb.
          - apply IH; assumption. }
        subst b2. exists b'. split; [apply put_job_has; exact Hidin|]. simpl. auto.
      * exists b2. split; [|auto].
        clear - Hb2 Nid. induction (n_jobs n) as [|c l IH]; [destruct Hb2|]. simpl.
        destruct (j_id c =? j_id b) eqn:E.
        -- apply N.eqb_eq in E. destruct Hb2 as [->|Hb2]; [congruence | right; exact Hb2].
        -- destruct Hb2 as [->|Hb2]; [left; reflexivity | right; apply IH; exact Hb2].
  - (* IPubSend *)
    destruct (find_job j (n_jobs n)) as [b|] eqn:Ef; [|discriminate].
    destruct (smem str_eqb x (j_rtodo b)) eqn:Ex; [|discriminate]. fst_of H.
    apply find_job_In in Ef as [Hb Hid]. apply smem_S_In in Ex.
    destruct (H3 b Hb) as (K1 & K2 & K3 & K4 & K5).
    set (b' := mkJob (j_id b) (j_pub b) (j_sig b) (j_args b) (j_snap b) (j_todo b) (j_rsnap b) (sdel str_eqb x (j_rtodo b))).
    assert (Hidin : In (j_id b') (map j_id (n_jobs n))) by (simpl; apply in_map; exact Hb).
    jsplit; simpl; try assumption.
    + intros b2 Hb2. apply In_put_job in Hb2 as [->|[Hb2 _]]; [simpl; apply H1; exact Hb | apply H1; exact Hb2 | assumption].
    + rewrite ids_put_job; assumption.
    + intros b2 Hb2. apply In_put_job in Hb2 as [->|[Hb2 Hne]]; [| apply H3; exact Hb2 | assumption].
      unfold job_ok. simpl. repeat split; try assumption.
      destruct (j_rsnap b) as [l|]; [|rewrite K5 in Ex; destruct Ex].
      destruct K5 as (M1 & M2 & M3 & M4). repeat split; try assumption.
      * apply NoDup_sdel_S. exact M2.
      * intros y Hy. apply (In_sdel str_eqb str_eqb_spec) in Hy as [_ Hy]. apply M3. exact Hy.
    + intros r0 c p s a j0 Hin Hc.
      destruct (H4 _ _ _ _ _ _ Hin Hc) as (b2 & Hb2 & I1 & I2 & I3 & I4 & I5).
      destruct (N.eq_dec (j_id b2) (j_id b)) as [Eid|Nid].
      * assert (b2 = b).
        { clear - H2 Hb Hb2 Eid. induction (n_jobs n) as [|c l IH]; [destruct Hb|].
          simpl in H2. inversion H2; subst. destruct Hb as [->|Hb], Hb2 as [->|Hb2]; try reflexivity.
          - exfalso. apply H1. rewrite <- Eid. apply in_map. exact Hb2.
          - exfalso. apply H1. rewrite Eid. apply in_map. exact Hb.
          - apply IH; assumption. }
        subst b2. exists b'. split; [apply put_job_has; exact Hidin|]. simpl. auto.
      * exists b2. split; [|auto].
        clear - Hb2 Nid. induction (n_jobs n) as [|c l IH]; [destruct Hb2|]. simpl.
        destruct (j_id c =? j_id b) eqn:E.
        -- apply N.eqb_eq in E. destruct Hb2 as [->|Hb2]; [congruence | right; exact Hb2].
        -- destruct Hb2 as [->|Hb2]; [left; reflexivity | right; apply IH; exact Hb2].
  - (* IRecv signal *)
    destruct m; try discriminate. fst_of H. simpl in Hi.
    unfold deliver_remote. destruct (alookup str_eqb (key3 from pub sig) (n_lsubs n)) as [rs|] eqn:El; simpl;
      [|jsplit; assumption].
    assert (Hnew : forall e, In e (rev (mk_entries from pub sig a j rs)) -> exists r, e = (r, (from, pub, sig, a), j)).
    { intros e He. apply in_rev in He. unfold mk_entries in He. apply in_map_iff in He as [r [<- _]]. eauto. }
    jsplit; simpl; try assumption.
    + intros b Hb. destruct (H3 b Hb) as (K1 & K2 & K3 & K4 & K5). unfold job_ok. repeat split; try assumption.
      intro r. rewrite cnt_app_other; [apply K4|].
      intros e He. destruct (Hnew e He) as [r0 ->]. simpl.
      replace (str_eqb from nm) with false by (symmetry; apply str_eqb_neq; exact Hi).
      rewrite andb_false_r. reflexivity.
    + intros r c p s a0 j0 Hin Hc. apply in_app_iff in Hin as [Hin|Hin].
      * destruct (Hnew _ Hin) as [r0 E]. inversion E; subst. contradiction.
      * eapply H4; eauto.
Qed.

(* ------------------------------------------------------------------ table keys are well formed *)
Definition wf3 (k : str) : Prop := exists c p s, k = key3 c p s /\ nodot c = true /\ nodot p = true /\ nodot s = true.
Definition wf2 (k : str) : Prop := exists p s, k = key2 p s /\ nodot p = true /\ nodot s = true.

Definition KW (n : node) : Prop :=
  nodot (n_name n) = true /\ keys_ok wf3 (n_lsubs n) /\ keys_ok wf3 (n_pname n) /\ keys_ok wf2 (n_rsubs n).

Definition input_wf (i : input) : Prop :=
  match i with IRecv _ (MSubReq _ p s true) => nodot p = true /\ nodot s = true | _ => True end.

Lemma names_ok_wf3 c p s : names_ok c p s = true -> wf3 (key3 c p s).
Proof.
  unfold names_ok. intro H. apply andb_true_iff in H as [H H3]. apply andb_true_iff in H as [H1 H2].
  exists c, p, s. repeat split; try reflexivity; apply valid_nodot; assumption.
Qed.

Lemma kok_aset_S {V} P k (v : V) t : keys_ok P t -> P k -> keys_ok P (aset str_eqb k v t).
Proof. apply kok_aset, str_eqb_spec. Qed.

#[export] Hint Resolve kok_aset_S kok_aremove kok_filter : tab.

Ltac klookups :=
  repeat match goal with
         | H : alookup str_eqb ?k ?t = Some ?v, Hv : keys_ok ?P ?t |- _ =>
             lazymatch goal with
             | _ : P k |- _ => fail
             | _ => let Hn := fresh "Hkk" in
                    assert (Hn : P k) by (exact (kok_lookup str_eqb str_eqb_spec P k v t Hv H))
             end
         end.

Ltac kw_tac :=
  crush_match; unfold KW in *; simpl in *;
  repeat match goal with H : _ /\ _ |- _ => destruct H end;
  klookups; repeat split; simpl; eauto 7 with tab; fail.

Lemma complete_KW n id ok : KW n -> KW (fst (complete n id ok)).
Proof. intro H. unfold complete. kw_tac. Qed.

Lemma send_req_KW n id q : KW n -> KW (fst (send_req n id q)).
Proof.
  intro H. unfold send_req. destruct (can_send n (pq_ctx q)); [exact H|].
  pose proof (complete_KW n id false H) as H1. destruct (complete n id false) as [n1 r1]. simpl in H1.
  destruct r1 as [[id2 q2]|]; simpl; [|exact H1]. apply complete_KW. exact H1.
Qed.

Lemma handle_reply_KW n id ok : KW n -> KW (fst (handle_reply n id ok)).
Proof.
  intro H. unfold handle_reply.
  pose proof (complete_KW n id ok H) as H1. destruct (complete n id ok) as [n1 r1]. simpl in H1.
  destruct r1 as [[id2 q2]|]; simpl; [|exact H1]. apply send_req_KW. exact H1.
Qed.

Lemma remove_local_KW n k r : KW n -> KW (fst (remove_local n k r)).
Proof. intro H. unfold remove_local. kw_tac. Qed.

Lemma sub_remote_KW n call c p s r : KW n -> wf3 (key3 c p s) -> KW (fst (sub_remote n call c p s r)).
Proof.
  intros H Hk. unfold sub_remote.
  destruct (alookup str_eqb (key3 c p s) (n_lsubs n)) as [[|x l]|] eqn:El.
  2: { kw_tac. }
  all: destruct (alookup str_eqb (key3 c p s) (n_pname n)) as [q|] eqn:Eq; [solve [kw_tac]|];
    unfold new_request;
    match goal with |- context [send_req ?a ?b ?c] =>
      assert (Ha : KW a) by kw_tac; pose proof (send_req_KW a b c Ha) as Hs; destruct (send_req a b c) end;
    exact Hs.
Qed.

Lemma unsub_remote_KW n c p s r : KW n -> wf3 (key3 c p s) -> KW (fst (unsub_remote n c p s r)).
Proof.
  intros H Hk. unfold unsub_remote. pose proof (remove_local_KW n (key3 c p s) r H) as H0.
  destruct (remove_local n (key3 c p s) r) as [n1 last]. simpl in H0.
  destruct last; [|exact H0].
  destruct (alookup str_eqb (key3 c p s) (n_pname n1)); [exact H0|].
  unfold new_request.
  match goal with |- context [send_req ?a ?b ?c] =>
    assert (Ha : KW a) by kw_tac; pose proof (send_req_KW a b c Ha) as Hs; destruct (send_req a b c) end.
  exact Hs.
Qed.

Lemma resolve_names_ok n c p s :
  nodot (n_name n) = true -> names_ok (resolve_ctx n c) p s = true -> wf3 (key3 (resolve_ctx n c) p s).
Proof. intros _ H. apply names_ok_wf3. exact H. Qed.

Lemma step_KW n i n' os : node_step n i = Some (n', os) -> input_wf i -> KW n -> KW n'.
Proof.
  intros H Hi Hn. destruct i; simpl in H.
  - destruct (negb (names_ok (resolve_ctx n c) p s)) eqn:En; [fst_of H; exact Hn|].
    apply negb_false_iff in En. pose proof (names_ok_wf3 _ _ _ En) as Hk.
    destruct (str_eqb (resolve_ctx n c) (n_name n)) eqn:Ec.
    + fst_of H. apply str_eqb_spec in Ec. rewrite Ec in Hk. unfold sub_local, add_local. kw_tac.
    + fst_of H. apply sub_remote_KW; assumption.
  - destruct (alookup N.eqb call (n_done n)); [|discriminate]. fst_of H. exact Hn.
  - destruct (negb (names_ok (resolve_ctx n c) p s)) eqn:En; [fst_of H; exact Hn|].
    apply negb_false_iff in En. pose proof (names_ok_wf3 _ _ _ En) as Hk.
    destruct (str_eqb (resolve_ctx n c) (n_name n)).
    + fst_of H. apply remove_local_KW. exact Hn.
    + fst_of H. apply unsub_remote_KW; assumption.
  - destruct (negb (valid_name p && valid_name s)); fst_of H; exact Hn.
  - destruct (find_job j (n_jobs n)); [|discriminate]. destruct (smem N.eqb r (j_todo j0)); [|discriminate]. fst_of H. exact Hn.
  - destruct (find_job j (n_jobs n)); [|discriminate]. destruct (j_todo j0); [|discriminate].
    destruct (j_rsnap j0); [discriminate|]. fst_of H. exact Hn.
  - destruct (find_job j (n_jobs n)); [|discriminate]. destruct (smem str_eqb x (j_rtodo j0)); [|discriminate]. fst_of H. exact Hn.
  - fst_of H. exact Hn.
  - fst_of H. unfold object_removed. kw_tac.
  - destruct m; fst_of H.
    + unfold deliver_remote. kw_tac.
    + unfold handle_sub_request. destruct sub.
      * simpl in Hi. destruct Hi as [Hp Hs]. assert (Hk : wf2 (key2 pub sig)) by (exists pub, sig; auto).
        unfold add_remote. kw_tac.
      * unfold remove_remote. kw_tac.
    + apply handle_reply_KW. exact Hn.
    + kw_tac.
  - fst_of H. apply handle_reply_KW. exact Hn.
  - fst_of H. exact Hn.
  - fst_of H. unfold peer_removed. destruct Hn as (H1 & H2 & H3 & H4). unfold KW. simpl. repeat split; auto with tab.
    intros k v Hin. apply in_flat_map in Hin as [[k0 l0] [Hin0 Hin]]. simpl in Hin.
    destruct (smem str_eqb x l0).
    + destruct (is_nil (sdel str_eqb x l0)); [destruct Hin|]. destruct Hin as [Hin|[]]. inversion Hin; subst. eapply H4; eauto.
    + destruct Hin as [Hin|[]]. inversion Hin; subst. eapply H4; eauto.
Qed.

(* ------------------------------------------------------------------ runs *)
Definition NInv (nm : name) (n : node) : Prop := JInv nm n /\ KW n.

Lemma init_NInv nm objs : nodot nm = true -> NInv nm (init_node nm objs).
Proof.
  intro H. split.
  - unfold JInv, init_node, lists_nodup. simpl. repeat split; try tauto; try constructor.
  - unfold KW, init_node, keys_ok. simpl. repeat split; try tauto.
Qed.

Lemma run_NInv nm ins : forall n n' os,
  node_run n ins = Some (n', os) -> Forall (fun i => input_ok nm i /\ input_wf i) ins -> NInv nm n -> NInv nm n'.
Proof.
  induction ins as [|i r IH]; simpl; intros n n' os H Hf Hn.
  - inversion H; subst. exact Hn.
  - destruct (node_step n i) as [[n1 o1]|] eqn:E; [|discriminate].
    destruct (node_run n1 r) as [[n2 o2]|] eqn:E2; [|discriminate]. inversion H; subst.
    inversion Hf as [|? ? [Hi1 Hi2] Hf']; subst. destruct Hn as [HJ HK].
    eapply IH; [exact E2 | exact Hf' |].
    split; [eapply step_JInv; eauto | eapply step_KW; eauto].
Qed.
