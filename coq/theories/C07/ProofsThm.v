(* C07 — the lemmas behind the property theorems. *)
From Coq Require Import List NArith ZArith Bool Arith Lia.
Require Import QV.C07.Model QV.C07.ProofsLib QV.C07.Proofs.
Import ListNotations.
Open Scope N_scope.

Definition reachable (nm : name) (objs : list name) (n : node) : Prop :=
  exists ins os, node_run (init_node nm objs) ins = Some (n, os) /\ Forall (fun i => input_ok nm i /\ input_wf i) ins.

Lemma reachable_NInv nm objs n : nodot nm = true -> reachable nm objs n -> NInv nm n.
Proof. intros Hd (ins & os & Hr & Hf). eapply run_NInv; eauto. apply init_NInv. exact Hd. Qed.

Lemma job_unique l b1 b2 : NoDup (map j_id l) -> In b1 l -> In b2 l -> j_id b1 = j_id b2 -> b1 = b2.
Proof.
  induction l as [|c l IH]; simpl; intros ND H1 H2 E; [destruct H1|]. inversion ND; subst.
  destruct H1 as [->|H1], H2 as [->|H2]; try reflexivity.
  - exfalso. apply H3. rewrite E. apply in_map. exact H2.
  - exfalso. apply H3. rewrite <- E. apply in_map. exact H1.
  - apply IH; assumption.
Qed.

(* each publish appends exactly one record, with the published args, to every receiver in the
   snapshot that has been served, and to no other receiver *)
Lemma local_exactly_once nm objs n b :
  nodot nm = true -> reachable nm objs n -> In b (n_jobs n) ->
  NoDup (j_snap b) /\
  (forall r, cnt nm (j_id b) r (n_log n) = if smem N.eqb r (j_snap b) && negb (smem N.eqb r (j_todo b)) then 1%nat else 0%nat) /\
  (forall r c p s a, In (r, (c, p, s, a), j_id b) (n_log n) -> c = nm ->
     p = j_pub b /\ s = j_sig b /\ a = j_args b /\ In r (j_snap b)).
Proof.
  intros Hd Hr Hb. destruct (reachable_NInv _ _ _ Hd Hr) as [(H0 & H1 & H2 & H3 & H4 & H5) _].
  destruct (H3 b Hb) as (K1 & K2 & K3 & K4 & K5). repeat split; try assumption; try apply K4.
  all: destruct (H4 _ _ _ _ _ _ H H6) as (b2 & Hb2 & I1 & I2 & I3 & I4 & I5);
    assert (b2 = b) by (eapply job_unique; eauto); subst b2; auto.
Qed.

(* the snapshot is exactly the set of receivers subscribed (in the table) at that moment *)
Lemma snapshot_exact n p s a n' os :
  node_step n (IPubBegin p s a) = Some (n', os) -> valid_name p = true -> valid_name s = true ->
  os = [] /\ n_log n' = n_log n /\
  n_jobs n' = n_jobs n ++ [mkJob (n_jobctr n) p s a (opt_list (alookup str_eqb (key3 (n_name n) p s) (n_lsubs n)))
                                 (opt_list (alookup str_eqb (key3 (n_name n) p s) (n_lsubs n))) None []].
Proof. simpl. intros H Hp Hs. rewrite Hp, Hs in H. simpl in H. inversion H. simpl. auto. Qed.

(* delivery of a signal message: exactly one record per receiver subscribed there at that time *)
Lemma deliver_exact n from p s a j n' os :
  node_step n (IRecv from (MSignal p s a j)) = Some (n', os) ->
  os = [] /\
  n_log n' = rev (mk_entries from p s a j (opt_list (alookup str_eqb (key3 from p s) (n_lsubs n)))) ++ n_log n.
Proof.
  simpl. intro H. inversion H. split; [reflexivity|]. unfold deliver_remote.
  destruct (alookup str_eqb (key3 from p s) (n_lsubs n)); reflexivity.
Qed.

Lemma complete_false_lsubs n id : n_lsubs (fst (complete n id false)) = n_lsubs n.
Proof. unfold complete. crush_match; try reflexivity; rewrite andb_false_r in *; discriminate. Qed.

Lemma send_req_lsubs n id q : n_lsubs (fst (send_req n id q)) = n_lsubs n.
Proof.
  unfold send_req. destruct (can_send n (pq_ctx q)); [reflexivity|].
  pose proof (complete_false_lsubs n id) as H1. destruct (complete n id false) as [n1 r1]. simpl in H1.
  destruct r1 as [[id2 q2]|]; simpl; [|exact H1]. rewrite complete_false_lsubs. exact H1.
Qed.

Lemma remove_local_not_in n k r :
  smem N.eqb r (opt_list (alookup str_eqb k (n_lsubs (fst (remove_local n k r))))) = false.
Proof.
  unfold remove_local. destruct (alookup str_eqb k (n_lsubs n)) as [l|] eqn:El.
  - destruct (is_nil (sdel N.eqb r l)) eqn:En; simpl.
    + rewrite (alookup_aremove_same str_eqb). reflexivity.
    + rewrite (alookup_aset_same str_eqb str_eqb_spec). simpl.
      apply (smem_false N.eqb N.eqb_eq). intro H. apply (In_sdel N.eqb N.eqb_eq) in H as [H _]. congruence.
  - simpl. rewrite El. reflexivity.
Qed.

(* after unsubscribe returns, the receiver is in no later snapshot of that signal (until it
   subscribes again) *)
Lemma after_unsub n c p s r n' os :
  node_step n (IUnsub c p s r) = Some (n', os) -> names_ok (resolve_ctx n c) p s = true ->
  smem N.eqb r (opt_list (alookup str_eqb (key3 (resolve_ctx n c) p s) (n_lsubs n'))) = false.
Proof.
  simpl. intros H Hv. rewrite Hv in H. simpl in H.
  destruct (str_eqb (resolve_ctx n c) (n_name n)).
  - fst_of H. apply remove_local_not_in.
  - fst_of H. unfold unsub_remote.
    pose proof (remove_local_not_in n (key3 (resolve_ctx n c) p s) r) as H0.
    destruct (remove_local n (key3 (resolve_ctx n c) p s) r) as [n1 last]. simpl in H0.
    destruct last; [|exact H0].
    destruct (alookup str_eqb (key3 (resolve_ctx n c) p s) (n_pname n1)); [exact H0|].
    unfold new_request.
    match goal with |- context [send_req ?a ?b ?c] => pose proof (send_req_lsubs a b c) as Hs; destruct (send_req a b c) end.
    simpl in *. rewrite Hs. exact H0.
Qed.

(* a receiver that is not in the snapshot of a publication never gets a record of it *)
Lemma not_in_snapshot_no_record nm objs n b r :
  nodot nm = true -> reachable nm objs n -> In b (n_jobs n) -> ~ In r (j_snap b) ->
  cnt nm (j_id b) r (n_log n) = 0%nat.
Proof.
  intros Hd Hr Hb Hn. destruct (local_exactly_once nm objs n b Hd Hr Hb) as (_ & H & _).
  rewrite H. replace (smem N.eqb r (j_snap b)) with false; [reflexivity|].
  symmetry. apply (smem_false N.eqb N.eqb_eq). exact Hn.
Qed.
