(* C07 — the lemmas behind the property theorems. *)
From Coq Require Import List NArith ZArith Bool Arith Lia.
Require Import QV.C07.Model QV.C07.ProofsLib QV.C07.Proofs.
Import ListNotations.
Open Scope N_scope.

Definition reachable (nm : name) (objs : list name) (n : node) : Prop :=
  exists ins os, node_run (init_node nm objs) ins = Some (n, os) /\ Forall (fun i => input_ok nm i /\ input_wf i) ins.

Lemma reachable_NInv nm objs n : nodot nm = true -> reachable nm objs n -> NInv nm n.
Proof. intros Hd (ins & os & Hr & Hf). eapply run_NInv; eauto. apply init_NInv. exact Hd. Qed.

Lemma job_unique l b1 b2 : NoDup (map j_id l) -> In b1 l -> In b2 l -> j_id b1 = j_id b2 -> b1 = b2.
Proof.
  induction l as [|c l IH]; simpl; intros ND H1 H2 E; [destruct H1|]. inversion ND; subst.
  destruct H1 as [->|H1], H2 as [->|H2]; try reflexivity.
  - exfalso. apply H3. rewrite E. apply in_map. exact H2.
  - exfalso. apply H3. rewrite <- E. apply in_map. exact H1.
  - apply IH; assumption.
Qed.

(* each publish appends exactly one record, with the published args, to every receiver in the
   snapshot that has been served, and to no other receiver *)
Lemma local_exactly_once nm objs n b :
  nodot nm = true -> reachable nm objs n -> In b (n_jobs n) ->
  NoDup (j_snap b) /\
  (forall r, cnt nm (j_id b) r (n_log n) = if smem N.eqb r (j_snap b) && negb (smem N.eqb r (j_todo b)) then 1%nat else 0%nat) /\
  (forall r c p s a, In (r, (c, p, s, a), j_id b) (n_log n) -> c = nm ->
     p = j_pub b /\ s = j_sig b /\ a = j_args b /\ In r (j_snap b)).
Proof.
  intros Hd Hr Hb. destruct (reachable_NInv _ _ _ Hd Hr) as [(H0 & H1 & H2 & H3 & H4 & H5) _].
  destruct (H3 b Hb) as (K1 & K2 & K3 & K4 & K5). repeat split; try assumption; try apply K4.
  all: destruct (H4 _ _ _ _ _ _ H H6) as (b2 & Hb2 & I1 & I2 & I3 & I4 & I5);
    assert (b2 = b) by (eapply job_unique; eauto); subst b2; auto.
Qed.

(* the snapshot is exactly the set of receivers subscribed (in the table) at that moment *)
Lemma snapshot_exact n p s a n' os :
  node_step n (IPubBegin p s a) = Some (n', os) -> valid_name p = true -> valid_name s = true ->
  os = [] /\ n_log n' = n_log n /\
  n_jobs n' = n_jobs n ++ [mkJob (n_jobctr n) p s a (opt_list (alookup str_eqb (key3 (n_name n) p s) (n_lsubs n)))
                                 (opt_list (alookup str_eqb (key3 (n_name n) p s) (n_lsubs n))) None []].
Proof. simpl. intros H Hp Hs. rewrite Hp, Hs in H. simpl in H. inversion H. simpl. auto. Qed.

(* delivery of a signal message: exactly one record per receiver subscribed there at that time *)
Lemma deliver_exact n from p s a j n' os :
  node_step n (IRecv from (MSignal p s a j)) = Some (n', os) ->
  os = [] /\
  n_log n' = rev (mk_entries from p s a j (opt_list (alookup str_eqb (key3 from p s) (n_lsubs n)))) ++ n_log n.
Proof.
  simpl. intro H. inversion H. split; [reflexivity|]. unfold deliver_remote.
  destruct (alookup str_eqb (key3 from p s) (n_lsubs n)); reflexivity.
Qed.

Lemma complete_false_lsubs n id : n_lsubs (fst (complete n id false)) = n_lsubs n.
Proof. unfold complete. crush_match; try reflexivity; rewrite andb_false_r in *; discriminate. Qed.

Lemma send_req_lsubs n id q : n_lsubs (fst (send_req n id q)) = n_lsubs n.
Proof.
  unfold send_req. destruct (can_send n (pq_ctx q)); [reflexivity|].
  pose proof (complete_false_lsubs n id) as H1. destruct (complete n id false) as [n1 r1]. simpl in H1.
  destruct r1 as [[id2 q2]|]; simpl; [|exact H1]. rewrite complete_false_lsubs. exact H1.
Qed.

Lemma remove_local_not_in n k r :
  smem N.eqb r (opt_list (alookup str_eqb k (n_lsubs (fst (remove_local n k r))))) = false.
Proof.
  unfold remove_local. destruct (alookup str_eqb k (n_lsubs n)) as [l|] eqn:El.
  - destruct (is_nil (sdel N.eqb r l)) eqn:En; simpl.
    + rewrite (alookup_aremove_same str_eqb). reflexivity.
    + rewrite (alookup_aset_same str_eqb str_eqb_spec). simpl.
      apply (smem_false N.eqb N.eqb_eq). intro H. apply (In_sdel N.eqb N.eqb_eq) in H as [H _]. congruence.
  - simpl. rewrite El. reflexivity.
Qed.

(* after unsubscribe returns, the receiver is in no later snapshot of that signal (until it
   subscribes again) *)
Lemma after_unsub n c p s r n' os :
  node_step n (IUnsub c p s r) = Some (n', os) -> names_ok (resolve_ctx n c) p s = true ->
  smem N.eqb r (opt_list (alookup str_eqb (key3 (resolve_ctx n c) p s) (n_lsubs n'))) = false.
Proof.
  simpl. intros H Hv. rewrite Hv in H. simpl in H.
  destruct (str_eqb (resolve_ctx n c) (n_name n)).
  - fst_of H. apply remove_local_not_in.
  - fst_of H. unfold unsub_remote.
    pose proof (remove_local_not_in n (key3 (resolve_ctx n c) p s) r) as H0.
    destruct (remove_local n (key3 (resolve_ctx n c) p s) r) as [n1 last]. simpl in H0.
    destruct last; [|exact H0].
    destruct (alookup str_eqb (key3 (resolve_ctx n c) p s) (n_pname n1)); [exact H0|].
    unfold new_request.
    match goal with |- context [send_req ?a ?b ?c] => pose proof (send_req_lsubs a b c) as Hs; destruct (send_req a b c) end.
    simpl in *. rewrite Hs. exact H0.
Qed.

(* a receiver that is not in the snapshot of a publication never gets a record of it *)
Lemma not_in_snapshot_no_record nm objs n b r :
  nodot nm = true -> reachable nm objs n -> In b (n_jobs n) -> ~ In r (j_snap b) ->
  cnt nm (j_id b) r (n_log n) = 0%nat.
Proof.
  intros Hd Hr Hb Hn. destruct (local_exactly_once nm objs n b Hd Hr Hb) as (_ & H & _).
  rewrite H. replace (smem N.eqb r (j_snap b)) with false; [reflexivity|].
  symmetry. apply (smem_false N.eqb N.eqb_eq). exact Hn.
Qed.

(* ------------------------------------------------------------------ order *)
Lemma step_log_grows n i n' os : node_step n i = Some (n', os) -> exists new, n_log n' = new ++ n_log n.
Proof.
  intro H. destruct (touches_pub i) eqn:Ht.
  - destruct i; simpl in Ht; try discriminate; simpl in H.
    + destruct (negb (valid_name p && valid_name s)); fst_of H; exists []; reflexivity.
    + destruct (find_job j (n_jobs n)); [|discriminate]. destruct (smem N.eqb r (j_todo j0)); [|discriminate].
      fst_of H. simpl. eexists [_]. reflexivity.
    + destruct (find_job j (n_jobs n)); [|discriminate]. destruct (j_todo j0); [|discriminate].
      destruct (j_rsnap j0); [discriminate|]. fst_of H. exists []. reflexivity.
    + destruct (find_job j (n_jobs n)); [|discriminate]. destruct (smem str_eqb x (j_rtodo j0)); [|discriminate].
      fst_of H. exists []. reflexivity.
    + destruct m; try discriminate. destruct (deliver_exact _ _ _ _ _ _ _ _ H) as [_ E]. eexists. exact E.
  - pose proof (step_pub _ _ _ _ H Ht) as E. unfold pubpart in E. inversion E. exists []. simpl. congruence.
Qed.

Lemma run_log_grows ins : forall n n' os, node_run n ins = Some (n', os) -> exists new, n_log n' = new ++ n_log n.
Proof.
  induction ins as [|i r IH]; simpl; intros n n' os H.
  - inversion H; subst. exists []. reflexivity.
  - destruct (node_step n i) as [[n1 o1]|] eqn:E; [|discriminate].
    destruct (node_run n1 r) as [[n2 o2]|] eqn:E2; [|discriminate]. inversion H; subst.
    destruct (step_log_grows _ _ _ _ E) as [new1 E1]. destruct (IH _ _ _ E2) as [new2 E3].
    exists (new2 ++ new1). rewrite E3, E1, app_assoc. reflexivity.
Qed.

(* a publication keeps its identity, snapshot and contents; the receivers still to serve only shrink *)
Definition job_le (b b' : job) : Prop :=
  j_id b' = j_id b /\ j_snap b' = j_snap b /\ j_pub b' = j_pub b /\ j_sig b' = j_sig b /\ j_args b' = j_args b /\
  (forall r, In r (j_todo b') -> In r (j_todo b)).

Lemma job_le_refl b : job_le b b.
Proof. unfold job_le. tauto. Qed.

Lemma job_le_trans a b c : job_le a b -> job_le b c -> job_le a c.
Proof.
  unfold job_le. intros (A1 & A2 & A3 & A4 & A5 & A6) (B1 & B2 & B3 & B4 & B5 & B6).
  repeat split; try congruence. intros r Hr. apply A6, B6, Hr.
Qed.

Lemma put_job_keeps b' l b : In b l -> j_id b <> j_id b' -> In b (put_job b' l).
Proof.
  induction l as [|c l IH]; simpl; [tauto|]. intros [->|H] Hn.
  - destruct (j_id b =? j_id b') eqn:E; [apply N.eqb_eq in E; contradiction | left; reflexivity].
  - destruct (j_id c =? j_id b'); [right; exact H | right; apply IH; assumption].
Qed.

Lemma step_job_persists nm n i n' os b :
  node_step n i = Some (n', os) -> JInv nm n -> In b (n_jobs n) -> exists b', In b' (n_jobs n') /\ job_le b b'.
Proof.
  intros H HJ Hb. destruct (touches_pub i) eqn:Ht.
  2: { pose proof (step_pub _ _ _ _ H Ht) as E. unfold pubpart in E. inversion E as [[E1 E2 E3 E4]].
       exists b. rewrite E2. split; [exact Hb | apply job_le_refl]. }
  destruct HJ as (H0 & H1 & H2 & H3 & H4 & H5).
  assert (Hrep : forall b0 b1, In b0 (n_jobs n) -> j_id b1 = j_id b0 -> job_le b0 b1 ->
                 exists b', In b' (put_job b1 (n_jobs n)) /\ job_le b b').
  { intros b0 b1 Hb0 Hid Hle. destruct (N.eq_dec (j_id b) (j_id b0)) as [E|Ne].
    - assert (b = b0) by (eapply job_unique; eauto). subst b0. exists b1. split; [|exact Hle].
      apply put_job_has. rewrite Hid. apply in_map. exact Hb.
    - exists b. split; [apply put_job_keeps; [exact Hb | congruence] | apply job_le_refl]. }
  destruct i; simpl in Ht; try discriminate; simpl in H.
  - destruct (negb (valid_name p && valid_name s)); fst_of H; simpl.
    + exists b. split; [exact Hb | apply job_le_refl].
    + exists b. split; [apply in_app_iff; left; exact Hb | apply job_le_refl].
  - destruct (find_job j (n_jobs n)) as [b0|] eqn:Ef; [|discriminate].
    destruct (smem N.eqb r (j_todo b0)); [|discriminate]. fst_of H. simpl.
    apply find_job_In in Ef as [Hb0 _]. apply (Hrep b0); [exact Hb0 | reflexivity|].
    unfold job_le. simpl. repeat split; try reflexivity. intros r0 Hr0. apply (In_sdel N.eqb N.eqb_eq) in Hr0. tauto.
  - destruct (find_job j (n_jobs n)) as [b0|] eqn:Ef; [|discriminate].
    destruct (j_todo b0) eqn:Et; [|discriminate]. destruct (j_rsnap b0); [discriminate|]. fst_of H. simpl.
    apply find_job_In in Ef as [Hb0 _]. apply (Hrep b0); [exact Hb0 | reflexivity|].
    unfold job_le. simpl. repeat split; try reflexivity. intros r0 [].
  - destruct (find_job j (n_jobs n)) as [b0|] eqn:Ef; [|discriminate].
    destruct (smem str_eqb x (j_rtodo b0)); [|discriminate]. fst_of H. simpl.
    apply find_job_In in Ef as [Hb0 _]. apply (Hrep b0); [exact Hb0 | reflexivity|].
    unfold job_le. simpl. repeat split; try reflexivity. tauto.
  - destruct m; try discriminate. fst_of H. unfold deliver_remote.
    destruct (alookup str_eqb (key3 from pub sig) (n_lsubs n)); simpl; exists b; (split; [exact Hb | apply job_le_refl]).
Qed.

Lemma run_job_persists nm ins : forall n n' os b,
  node_run n ins = Some (n', os) -> Forall (fun i => input_ok nm i /\ input_wf i) ins -> NInv nm n ->
  In b (n_jobs n) -> exists b', In b' (n_jobs n') /\ job_le b b'.
Proof.
  induction ins as [|i r IH]; simpl; intros n n' os b H Hf Hn Hb.
  - inversion H; subst. exists b. split; [exact Hb | apply job_le_refl].
  - destruct (node_step n i) as [[n1 o1]|] eqn:E; [|discriminate].
    destruct (node_run n1 r) as [[n2 o2]|] eqn:E2; [|discriminate]. inversion H; subst.
    inversion Hf as [|? ? [Hi1 Hi2] Hf']; subst. destruct Hn as [HJ HK].
    destruct (step_job_persists nm _ _ _ _ _ E HJ Hb) as (b1 & Hb1 & Hle1).
    assert (Hn1 : NInv nm n1) by (split; [eapply step_JInv; eauto | eapply step_KW; eauto]).
    destruct (IH _ _ _ _ E2 Hf' Hn1 Hb1) as (b2 & Hb2 & Hle2).
    exists b2. split; [exact Hb2 | eapply job_le_trans; eauto].
Qed.

Lemma cnt_app nm j r l1 l2 : cnt nm j r (l1 ++ l2) = (cnt nm j r l1 + cnt nm j r l2)%nat.
Proof. unfold cnt. rewrite filter_app, app_length. reflexivity. Qed.

(* Publication order per publishing thread (local receivers).  A thread publishes sequentially: when
   it starts publication j2 its earlier publication j1 has served all its receivers.  From such a
   state on, whatever happens, the queue only grows at its newer end, j1 adds no further record, and
   j2 had no record before: every record of j1 is older than every record of j2, in every queue. *)
Lemma order_local nm n1 ins n2 os b1 j2 :
  NInv nm n1 -> node_run n1 ins = Some (n2, os) -> Forall (fun i => input_ok nm i /\ input_wf i) ins ->
  In b1 (n_jobs n1) -> j_todo b1 = [] -> n_jobctr n1 <= j2 ->
  exists new, n_log n2 = new ++ n_log n1 /\
    (forall r, cnt nm (j_id b1) r new = 0%nat) /\ (forall r, cnt nm j2 r (n_log n1) = 0%nat).
Proof.
  intros Hn Hr Hf Hb Ht Hj.
  destruct (run_log_grows _ _ _ _ Hr) as [new Enew]. exists new. split; [exact Enew|]. split.
  - intro r. destruct (run_job_persists nm _ _ _ _ _ Hr Hf Hn Hb) as (b2 & Hb2 & Hid & Hsnap & _ & _ & _ & Htodo).
    assert (Hn2 : NInv nm n2) by (eapply run_NInv; eauto).
    destruct Hn as [(_ & _ & _ & H3 & _) _]. destruct Hn2 as [(_ & _ & _ & H3' & _) _].
    destruct (H3 b1 Hb) as (_ & _ & _ & K4 & _). destruct (H3' b2 Hb2) as (_ & _ & _ & K4' & _).
    specialize (K4 r). specialize (K4' r). rewrite Hid, Hsnap, Enew, cnt_app in K4'.
    assert (Et2 : j_todo b2 = []). { destruct (j_todo b2) as [|x l]; [reflexivity|]. exfalso. rewrite Ht in Htodo. apply (Htodo x). left. reflexivity. }
    rewrite Et2 in K4'. rewrite Ht in K4. rewrite K4 in K4'.
    destruct (smem N.eqb r (j_snap b1)); simpl in K4'; lia.
  - intro r. destruct Hn as [(_ & H1 & _ & _ & H4 & _) _].
    unfold cnt. destruct (filter (is_local nm j2 r) (n_log n1)) as [|e l] eqn:Ef; [reflexivity|].
    assert (Hin : In e (filter (is_local nm j2 r) (n_log n1))) by (rewrite Ef; left; reflexivity).
    apply filter_In in Hin as [Hin Hl]. apply is_local_true in Hl as (p0 & s0 & a0 & ->).
    destruct (H4 _ _ _ _ _ _ Hin eq_refl) as (b & Hb' & Hid' & _). specialize (H1 b Hb'). lia.
Qed.

(* ------------------------------------------------------------------ messages to peers *)
Definition is_sig_to (x : name) (j : N) (o : out) : bool :=
  match o with OSend y (MSignal _ _ _ j') => str_eqb x y && N.eqb j j' | _ => false end.
Definition sent (x : name) (j : N) (os : list out) : nat := length (filter (is_sig_to x j) os).

Definition no_signal (os : list out) : Prop := forall y p s a j, ~ In (OSend y (MSignal p s a j)) os.

Lemma send_req_no_signal n id q : no_signal (snd (send_req n id q)).
Proof.
  unfold send_req, no_signal. destruct (can_send n (pq_ctx q)); simpl.
  - intros y p s a j [H|[]]. discriminate.
  - destruct (complete n id false) as [n1 [[id2 q2]|]]; simpl; tauto.
Qed.

Lemma handle_reply_no_signal n id ok : no_signal (snd (handle_reply n id ok)).
Proof.
  unfold handle_reply. destruct (complete n id ok) as [n1 [[id2 q2]|]]; simpl; [apply send_req_no_signal|].
  intros y p s a j [].
Qed.

Lemma no_signal_app a b : no_signal a -> no_signal b -> no_signal (a ++ b).
Proof. unfold no_signal. intros Ha Hb y p s x j H. apply in_app_iff in H as [H|H]; [eapply Ha | eapply Hb]; eauto. Qed.

Lemma no_signal_res r : no_signal [ORes r].
Proof. intros y p s a j [E|[]]. discriminate. Qed.
Lemma no_signal_nil : no_signal [].
Proof. intros y p s a j []. Qed.
Lemma no_signal_send_to n x m : (forall p s a j, m <> MSignal p s a j) -> no_signal (send_to n x m).
Proof.
  intros Hm y p s a j Hin. unfold send_to in Hin. destruct (can_send n x); [|destruct Hin].
  destruct Hin as [E|[]]. inversion E; subst. eapply Hm; reflexivity.
Qed.

Lemma some_snd {A B} (x : A * B) a b : Some x = Some (a, b) -> b = snd x.
Proof. intro H. inversion H. reflexivity. Qed.
Ltac snd_of H := apply some_snd in H; rewrite H; clear H.

Ltac ns := first [apply no_signal_res | apply no_signal_nil | apply handle_reply_no_signal
                  | (apply no_signal_send_to; intros; discriminate)].

Lemma step_no_signal n i n' os : node_step n i = Some (n', os) -> (forall j x, i <> IPubSend j x) -> no_signal os.
Proof.
  intros H Hi. destruct i; simpl in H.
  - destruct (negb (names_ok (resolve_ctx n c) p s)); [snd_of H; ns|].
    destruct (str_eqb (resolve_ctx n c) (n_name n)).
    + snd_of H. unfold sub_local. destruct (smem str_eqb p (n_objs n)); simpl; ns.
    + snd_of H. unfold sub_remote.
      destruct (alookup str_eqb (key3 (resolve_ctx n c) p s) (n_lsubs n)) as [[|x l]|];
      try (simpl; ns);
      (destruct (alookup str_eqb (key3 (resolve_ctx n c) p s) (n_pname n)); [simpl; ns|]);
      unfold new_request;
      match goal with |- context [send_req ?a ?b ?c] => pose proof (send_req_no_signal a b c) as Hs; destruct (send_req a b c) end;
      simpl in *; (apply no_signal_app; [exact Hs | ns]).
  - destruct (alookup N.eqb call (n_done n)); [|discriminate]. snd_of H. ns.
  - destruct (negb (names_ok (resolve_ctx n c) p s)); [snd_of H; ns|].
    destruct (str_eqb (resolve_ctx n c) (n_name n)).
    + snd_of H. ns.
    + snd_of H. unfold unsub_remote. destruct (remove_local n (key3 (resolve_ctx n c) p s) r) as [n1 last].
      destruct last; [|simpl; ns].
      destruct (alookup str_eqb (key3 (resolve_ctx n c) p s) (n_pname n1)); [simpl; ns|].
      unfold new_request.
      match goal with |- context [send_req ?a ?b ?c] => pose proof (send_req_no_signal a b c) as Hs; destruct (send_req a b c) end.
      simpl in *. apply no_signal_app; [exact Hs | ns].
  - destruct (negb (valid_name p && valid_name s)); snd_of H; ns.
  - destruct (find_job j (n_jobs n)); [|discriminate]. destruct (smem N.eqb r (j_todo j0)); [|discriminate]. snd_of H. ns.
  - destruct (find_job j (n_jobs n)); [|discriminate]. destruct (j_todo j0); [|discriminate].
    destruct (j_rsnap j0); [discriminate|]. snd_of H. ns.
  - exfalso. eapply Hi. reflexivity.
  - snd_of H. ns.
  - snd_of H. unfold object_removed. simpl. intros y p0 s0 a0 j1 Hin.
    apply in_flat_map in Hin as [e [_ Hin]]. apply in_flat_map in Hin as [x [_ Hin]].
    unfold send_to in Hin. destruct (can_send _ x); [destruct Hin as [E|[]]; discriminate | destruct Hin].
  - destruct m; snd_of H.
    + simpl; ns.
    + unfold handle_sub_request.
      destruct sub; [destruct (smem str_eqb pub (n_objs n))|]; simpl; ns.
    + ns.
    + ns.
  - snd_of H. ns.
  - snd_of H. ns.
  - snd_of H. ns.
Qed.

Lemma sent_app x j a b : sent x j (a ++ b) = (sent x j a + sent x j b)%nat.
Proof. unfold sent. rewrite filter_app, app_length. reflexivity. Qed.

Lemma no_signal_sent x j os : no_signal os -> sent x j os = 0%nat.
Proof.
  intro H. unfold sent. destruct (filter (is_sig_to x j) os) as [|e l] eqn:Ef; [reflexivity|].
  assert (Hin : In e (filter (is_sig_to x j) os)) by (rewrite Ef; left; reflexivity).
  apply filter_In in Hin as [Hin Hl]. destruct e as [y m|]; [|discriminate]. destruct m; try discriminate.
  exfalso. eapply H. exact Hin.
Qed.

(* every signal message handed to the router belongs to a publication, carries its contents, goes to
   a peer of its remote snapshot that has been served, and there is at most one per publication and
   peer (none when the peer vanished in between) *)
Definition SInv (n : node) (os : list out) : Prop :=
  (forall b, In b (n_jobs n) -> forall x,
      (sent x (j_id b) os <= if smem str_eqb x (opt_list (j_rsnap b)) && negb (smem str_eqb x (j_rtodo b)) then 1 else 0)%nat) /\
  (forall x p s a j, In (OSend x (MSignal p s a j)) os ->
      exists b, In b (n_jobs n) /\ j_id b = j /\ j_pub b = p /\ j_sig b = s /\ j_args b = a /\ In x (opt_list (j_rsnap b))).

Lemma step_SInv nm n i n' os0 os :
  node_step n i = Some (n', os) -> JInv nm n -> SInv n os0 -> SInv n' (os0 ++ os).
Proof.
  intros H HJ [S1 S2].
  destruct (N.eq_dec 0 0) as [_|]; [|contradiction].
  assert (Hcase : (exists j x, i = IPubSend j x) \/ (forall j x, i <> IPubSend j x)).
  { destruct i; try (right; intros; discriminate). left. eauto. }
  destruct Hcase as [(j & x & ->)|Hi].
  - simpl in H. destruct (find_job j (n_jobs n)) as [b|] eqn:Ef; [|discriminate].
    destruct (smem str_eqb x (j_rtodo b)) eqn:Ex; [|discriminate].
    apply find_job_In in Ef as [Hb Hid]. pose proof HJ as (H0 & H1 & H2 & H3 & H4 & H5).
    destruct (H3 b Hb) as (K1 & K2 & K3 & K4 & K5).
    assert (Hx : In x (j_rtodo b)) by (apply smem_S_In; exact Ex).
    destruct (j_rsnap b) as [l|] eqn:Ers; [|rewrite K5 in Hx; destruct Hx].
    destruct K5 as (M1 & M2 & M3 & M4).
    set (b' := mkJob (j_id b) (j_pub b) (j_sig b) (j_args b) (j_snap b) (j_todo b) (Some l) (sdel str_eqb x (j_rtodo b))).
    assert (E' : n' = w_jobs (put_job b' (n_jobs n)) n /\ os = send_to n x (MSignal (j_pub b) (j_sig b) (j_args b) j)) by (inversion H; auto).
    destruct E' as [-> ->]. simpl. split.
    + intros b2 Hb2 y. apply In_put_job in Hb2 as [->|[Hb2 Hne]]; [| |assumption].
      * simpl. rewrite sent_app. specialize (S1 b Hb y). rewrite Ers in S1. simpl in S1.
        destruct (str_eq_dec y x) as [->|Hyx].
        -- rewrite Ex in S1. rewrite andb_false_r in S1.
           assert (E3 : smem str_eqb x (sdel str_eqb x (j_rtodo b)) = false).
           { apply (smem_false str_eqb str_eqb_spec). intro Hx'. apply (In_sdel str_eqb str_eqb_spec) in Hx' as [Hx' _]. congruence. }
           rewrite E3. assert (E4 : smem str_eqb x l = true) by (apply smem_S_In; apply M3; exact Hx). rewrite E4. simpl.
           assert (sent x (j_id b) (send_to n x (MSignal (j_pub b) (j_sig b) (j_args b) j)) <= 1)%nat.
           { unfold send_to. destruct (can_send n x); unfold sent; simpl; [destruct (str_eqb x x && (j_id b =? j)); simpl; lia | lia]. }
           lia.
        -- assert (E5 : sent y (j_id b) (send_to n x (MSignal (j_pub b) (j_sig b) (j_args b) j)) = 0%nat).
           { unfold send_to. destruct (can_send n x); unfold sent; simpl; [|reflexivity].
             replace (str_eqb y x) with false by (symmetry; apply str_eqb_neq; exact Hyx). reflexivity. }
           rewrite E5, Nat.add_0_r.
           assert (E6 : smem str_eqb y (sdel str_eqb x (j_rtodo b)) = smem str_eqb y (j_rtodo b)).
           { destruct (smem str_eqb y (j_rtodo b)) eqn:Eold.
             - apply smem_S_In. apply (In_sdel str_eqb str_eqb_spec). split; [exact Hyx | apply smem_S_In; exact Eold].
             - apply (smem_false str_eqb str_eqb_spec). intro Hx'. apply (In_sdel str_eqb str_eqb_spec) in Hx' as [_ Hx'].
               apply smem_S_In in Hx'. congruence. }
           rewrite E6. exact S1.
      * rewrite sent_app. specialize (S1 b2 Hb2 y).
        assert (E5 : sent y (j_id b2) (send_to n x (MSignal (j_pub b) (j_sig b) (j_args b) j)) = 0%nat).
        { unfold send_to. destruct (can_send n x); unfold sent; simpl; [|reflexivity]. simpl in Hne. subst j.
          replace (j_id b2 =? j_id b) with false by (symmetry; apply N.eqb_neq; exact Hne). rewrite andb_false_r. reflexivity. }
        rewrite E5, Nat.add_0_r. exact S1.
    + intros y p s a j0 Hin. apply in_app_iff in Hin as [Hin|Hin].
      * destruct (S2 _ _ _ _ _ Hin) as (b2 & Hb2 & I1 & I2 & I3 & I4 & I5).
        destruct (N.eq_dec (j_id b2) (j_id b)) as [Eid|Nid].
        -- assert (b2 = b) by (eapply job_unique; eauto). subst b2. exists b'. split; [apply put_job_has; simpl; apply in_map; exact Hb|].
           simpl. rewrite Ers in I5. auto.
        -- exists b2. split; [apply put_job_keeps; [exact Hb2 | exact Nid] | auto].
      * unfold send_to in Hin. destruct (can_send n x); [|destruct Hin]. destruct Hin as [E|[]]. inversion E; subst.
        exists b'. split; [apply put_job_has; simpl; apply in_map; exact Hb|]. simpl. repeat split; try reflexivity. apply M3. exact Hx.
  - pose proof (step_no_signal _ _ _ _ H Hi) as Hns. split.
    + intros b' Hb' x. rewrite sent_app, (no_signal_sent _ _ _ Hns), Nat.add_0_r.
      (* the job list changes only at IPubBegin / IPubDeliver / IPubSnapRemote; rsnap-related fields as stated *)
      destruct (touches_pub i) eqn:Ht.
      2: { pose proof (step_pub _ _ _ _ H Ht) as E. unfold pubpart in E. inversion E as [[E1 E2 E3 E4]]. rewrite E2 in Hb'. apply S1. exact Hb'. }
      pose proof HJ as (H0 & H1 & H2 & H3 & H4 & H5).
      destruct i; simpl in Ht; try discriminate; simpl in H.
      * destruct (negb (valid_name p && valid_name s)); (apply some_fst in H; subst n'); simpl in Hb'; [apply S1; exact Hb'|].
        apply in_app_iff in Hb' as [Hb'|[<-|[]]]; [apply S1; exact Hb'|]. simpl.
        (* a new publication: nothing was sent under its number *)
        unfold sent. destruct (filter (is_sig_to x (n_jobctr n)) os0) as [|e l] eqn:Ef; [simpl; lia|].
        assert (Hin : In e (filter (is_sig_to x (n_jobctr n)) os0)) by (rewrite Ef; left; reflexivity).
        apply filter_In in Hin as [Hin Hl]. destruct e as [y m|]; [|discriminate]. destruct m; try discriminate.
        simpl in Hl. apply andb_true_iff in Hl as [_ Hl]. apply N.eqb_eq in Hl. subst j.
        destruct (S2 _ _ _ _ _ Hin) as (b2 & Hb2 & I1 & _). specialize (H1 b2 Hb2). lia.
      * destruct (find_job j (n_jobs n)) as [b0|] eqn:Ef; [|discriminate].
        destruct (smem N.eqb r (j_todo b0)); [|discriminate]. (apply some_fst in H; subst n'). simpl in Hb'.
        apply find_job_In in Ef as [Hb0 _].
        apply In_put_job in Hb' as [->|[Hb' _]]; [simpl; apply (S1 b0 Hb0 x) | apply S1; exact Hb' | assumption].
      * destruct (find_job j (n_jobs n)) as [b0|] eqn:Ef; [|discriminate].
        destruct (j_todo b0) eqn:Et; [|discriminate]. destruct (j_rsnap b0) eqn:Ers; [discriminate|]. (apply some_fst in H; subst n'). simpl in Hb'.
        apply find_job_In in Ef as [Hb0 _].
        apply In_put_job in Hb' as [->|[Hb' _]]; [| apply S1; exact Hb' | assumption].
        simpl. specialize (S1 b0 Hb0 x). rewrite Ers in S1. simpl in S1. lia.
      * exfalso. eapply Hi. reflexivity.
      * destruct m; try discriminate. (apply some_fst in H; subst n'). unfold deliver_remote in Hb'.
        destruct (alookup str_eqb (key3 from pub sig) (n_lsubs n)); simpl in Hb'; apply S1; exact Hb'.
    + intros x p s a j Hin. apply in_app_iff in Hin as [Hin|Hin]; [|exfalso; eapply Hns; eauto].
      destruct (S2 _ _ _ _ _ Hin) as (b2 & Hb2 & I1 & I2 & I3 & I4 & I5).
      destruct (step_job_persists nm _ _ _ _ b2 H HJ Hb2) as (b3 & Hb3 & Hle).
      (* job_le does not speak about rsnap; redo by cases *)
      destruct (touches_pub i) eqn:Ht.
      2: { pose proof (step_pub _ _ _ _ H Ht) as E. unfold pubpart in E. inversion E as [[E1 E2 E3 E4]]. exists b2. rewrite E2. auto 10. }
      pose proof HJ as (H0 & H1 & H2 & H3 & H4 & H5).
      destruct i; simpl in Ht; try discriminate; simpl in H.
      * destruct (negb (valid_name p0 && valid_name s0)); (apply some_fst in H; subst n'); simpl; exists b2; (split; [try (apply in_app_iff; left); exact Hb2 | auto 10]).
      * destruct (find_job j0 (n_jobs n)) as [b0|] eqn:Ef; [|discriminate].
        destruct (smem N.eqb r (j_todo b0)); [|discriminate]. (apply some_fst in H; subst n'). simpl.
        apply find_job_In in Ef as [Hb0 _].
        destruct (N.eq_dec (j_id b2) (j_id b0)) as [Eid|Nid].
        -- assert (b2 = b0) by (eapply job_unique; eauto). subst b2. eexists. split; [apply put_job_has; simpl; apply in_map; exact Hb0|]. simpl. auto 10.
        -- exists b2. split; [apply put_job_keeps; assumption | auto 10].
      * destruct (find_job j0 (n_jobs n)) as [b0|] eqn:Ef; [|discriminate].
        destruct (j_todo b0) eqn:Et; [|discriminate]. destruct (j_rsnap b0) eqn:Ers; [discriminate|]. (apply some_fst in H; subst n'). simpl.
        apply find_job_In in Ef as [Hb0 _].
        destruct (N.eq_dec (j_id b2) (j_id b0)) as [Eid|Nid].
        -- assert (b2 = b0) by (eapply job_unique; eauto). subst b2. rewrite Ers in I5. destruct I5.
        -- exists b2. split; [apply put_job_keeps; assumption | auto 10].
      * exfalso. eapply Hi. reflexivity.
      * destruct m; try discriminate. (apply some_fst in H; subst n'). unfold deliver_remote.
        destruct (alookup str_eqb (key3 from pub sig) (n_lsubs n)); simpl; exists b2; auto 10.
Qed.

Lemma run_SInv nm ins : forall n n' os0 os,
  node_run n ins = Some (n', os) -> Forall (fun i => input_ok nm i /\ input_wf i) ins -> NInv nm n ->
  SInv n os0 -> SInv n' (os0 ++ os).
Proof.
  induction ins as [|i r IH]; simpl; intros n n' os0 os H Hf Hn HS.
  - inversion H; subst. rewrite app_nil_r. exact HS.
  - destruct (node_step n i) as [[n1 o1]|] eqn:E; [|discriminate].
    destruct (node_run n1 r) as [[n2 o2]|] eqn:E2; [|discriminate]. inversion H; subst.
    inversion Hf as [|? ? [Hi1 Hi2] Hf']; subst. destruct Hn as [HJ HK].
    rewrite app_assoc. eapply IH; [exact E2 | exact Hf' | | eapply step_SInv; eauto].
    split; [eapply step_JInv; eauto | eapply step_KW; eauto].
Qed.

Lemma remote_at_most_once nm objs ins n os b x :
  nodot nm = true -> node_run (init_node nm objs) ins = Some (n, os) ->
  Forall (fun i => input_ok nm i /\ input_wf i) ins -> In b (n_jobs n) ->
  (sent x (j_id b) os <= if smem str_eqb x (opt_list (j_rsnap b)) && negb (smem str_eqb x (j_rtodo b)) then 1 else 0)%nat /\
  (forall p s a, In (OSend x (MSignal p s a (j_id b))) os ->
     p = j_pub b /\ s = j_sig b /\ a = j_args b /\ In x (opt_list (j_rsnap b))).
Proof.
  intros Hd Hr Hf Hb.
  assert (HS0 : SInv (init_node nm objs) []) by (split; [intros b0 [] | intros ? ? ? ? ? []]).
  pose proof (run_SInv nm _ _ _ _ _ Hr Hf (init_NInv nm objs Hd) HS0) as [S1 S2]. simpl in *.
  split; [apply S1; exact Hb|].
  intros p s a Hin. destruct (S2 _ _ _ _ _ Hin) as (b2 & Hb2 & I1 & I2 & I3 & I4 & I5).
  assert (Hn : NInv nm n) by (eapply run_NInv; eauto; apply init_NInv; exact Hd).
  destruct Hn as [(_ & _ & H2 & _) _].
  assert (b2 = b) by (eapply job_unique; eauto). subst b2. auto.
Qed.

(* ------------------------------------------------------------------ FIFO channels (two-node system) *)
Lemma route2_ch sd os : forall s sd', exists app, ch (route2 sd os s) sd' = ch s sd' ++ app.
Proof.
  induction os as [|o os IH]; intros s sd'; simpl; [exists []; rewrite app_nil_r; reflexivity|].
  destruct o as [y m|r]; [|apply IH].
  match goal with |- context [route2 sd os ?s1] => destruct (IH s1 sd') as [app E] end.
  rewrite E. destruct (req_id_of m); destruct sd, sd'; simpl; eexists; try (rewrite <- app_assoc; reflexivity); reflexivity.
Qed.

Local Opaque node_step err_replies.

Lemma channel_fifo s l s' os sd :
  step2 s l = Some (s', os) ->
  (exists app, ch s' sd = ch s sd ++ app) \/
  (exists m rest app, ch s sd = m :: rest /\ ch s' sd = rest ++ app /\ l = L2Deliver sd) \/
  (ch s' sd = [] /\ l = L2Connect).
Proof.
  intro H. destruct l as [sd0 i|sd0| |sd0]; simpl in H.
  - destruct (api_input i); [|discriminate]. destruct (node_step (nd s sd0) i) as [[n' os']|]; [|discriminate].
    inversion H; subst. left. destruct (route2_ch sd0 os (w_nd sd0 n' s) sd) as [app E]. exists app. rewrite E.
    destruct sd0, sd; reflexivity.
  - destruct (ch s sd0) as [|m rest] eqn:Ec; [discriminate|]. destruct (up s (negb sd0)); [|discriminate].
    match type of H with match node_step ?a ?b with _ => _ end = _ => destruct (node_step a b) as [[n' os']|]; [|discriminate] end.
    inversion H; subst.
    match goal with |- context [route2 ?a os ?s1] => destruct (route2_ch a os s1 sd) as [app E] end.
    destruct (Bool.bool_dec sd sd0) as [->|Hne].
    + right. left. exists m, rest, app. split; [exact Ec|]. split; [|reflexivity]. rewrite E.
      destruct (reply_id_of m); destruct sd0; reflexivity.
    + left. exists app. rewrite E. destruct (reply_id_of m); destruct sd0, sd; try reflexivity; contradiction.
  - destruct (negb (up s true) && negb (up s false)); [|discriminate].
    destruct (node_step (sA s) (IPeerAdded (n_name (sB s)))) as [[a' ?]|]; [|discriminate].
    destruct (node_step (sB s) (IPeerAdded (n_name (sA s)))) as [[b' ?]|]; [|discriminate].
    inversion H; subst. right. right. split; [destruct sd; reflexivity | reflexivity].
  - destruct (up s sd0); [|discriminate].
    destruct (node_step (nd s sd0) (IPeerRemoved (n_name (nd s (negb sd0))))) as [[n1 ?]|]; [|discriminate].
    destruct (err_replies n1 (cp s sd0)) as [n2 os2]. inversion H; subst. left.
    match goal with |- context [route2 ?a os ?s1] => destruct (route2_ch a os s1 sd) as [app E] end.
    exists app. rewrite E. destruct sd0, sd; reflexivity.
Qed.
