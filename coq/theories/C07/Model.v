(* C07 / C08 — shared executable model of QMI publish/subscribe (no proofs in this file).

   Transcribes, handler by handler, /repo/qmi/core/pubsub.py class SignalManager:
     subscribe_signal, _subscribe_local, _subscribe_remote, unsubscribe_signal,
     _remove_local_subscriber, _unsubscribe_remote, _add/_remove_remote_subscriber,
     _send_subscription_request, _deliver_local, publish_signal, _handle_subscription_request,
     _handle_subscription_reply, _handle_remote_signal_removed, handle_message,
     handle_object_removed, handle_peer_context_removed,
   the four tables (_local_subscriptions, _remote_subscriptions,
   _pending_subscription_request_by_request_id / _by_signal_name), util.is_valid_object_name,
   context.remove_rpc_object (unregister + handle_object_removed, as one step), and of
   messaging.py: the per-connection pending-request table of _PeerTcpConnection (send_message,
   _receive_data reply bookkeeping, _clear_pending_requests) and the close order of
   _SocketManager.remove_peer_connection/close (handle_peer_context_removed first, then one error
   reply per pending request).

   Object removal: the step IObjRemove models context.remove_rpc_object as ONE step (the object stops
   being known to get_rpc_object_descriptor and handle_object_removed runs).  HYPOTHESIS made by all
   theorems about removal: the clean-up runs while the name is still reserved, i.e. no object with the
   same name is created between the release of the name and handle_object_removed of the previous
   incarnation.  It is checked on every thread-level schedule by Corr.lifecycle_ok.

   Connections: [n_peers] holds the router's local ALIASES (peer name for an outgoing connection, "$client_N"
   for an incoming one); a connection is (context, alias); IPeerRemoved x = handle_peer_context_removed(x) is
   told the alias of the connection that closed and touches nothing that belongs to another connection
   (Corr.peer_notice_ok checks the argument on real schedules).  In sys2 / sysN there is one connection per
   pair of contexts, so alias = peer name.

   Granularity: one step = one handler invocation (one lock region followed by its sends), except
   publish_signal which is split at its lock regions: snapshot of local receivers / one
   _receive_signal per receiver / snapshot of remote subscribers / one send per peer.

   Representation.
   * names and table keys are Python strings = lists of code points; keys are built with '.'
     exactly as the code does ("ctx.pub.sig", "pub.sig"); prefix tests are [startswith].
   * dicts are association lists in insertion order (Python dict order); sets are duplicate-free
     lists (set iteration order is not observable: the labels name the receiver / peer served).
   * a _PendingSubscriptionRequest object is identified, while it is registered, by its full
     signal name (its ctx/pub/sig fields never change): by_name maps the full name to the mutable
     part (subscribe flag, receivers, the calls blocked in wait()), by_id maps a request id to the
     full name of the object it refers to.
   * request ids (random 64-bit strings in QMI, assumed fresh) are a per-node counter.
   * payloads (args tuples) are integers; messages carry, as ghost data, the publisher's
     publication number so that theorems can speak about "the records of one publication".
   * blocking wait(): a subscribe call that has to wait returns RWait; the reply moves the call
     to [n_done]; the guarded step ISubEnd returns the outcome of wait()+raise. *)
From Coq Require Import List NArith ZArith Bool Arith.
Import ListNotations.
Open Scope N_scope.

Definition name := list N.
Definition str := list N.
Definition DOT : N := 46.

Fixpoint str_eqb (a b : str) : bool :=
  match a, b with
  | [], [] => true
  | x :: a', y :: b' => N.eqb x y && str_eqb a' b'
  | _, _ => false
  end.

Fixpoint startswith (p s : str) : bool :=
  match p, s with
  | [], _ => true
  | x :: p', y :: s' => N.eqb x y && startswith p' s'
  | _ :: _, [] => false
  end.

(* util.is_valid_object_name: len <= 63 and re.match(r"^[-_a-zA-Z0-9()]+$") — note that "$"
   also matches before one trailing newline *)
Definition okch (c : N) : bool :=
  (c =? 45) || (c =? 95) || (c =? 40) || (c =? 41) ||
  ((48 <=? c) && (c <=? 57)) || ((65 <=? c) && (c <=? 90)) || ((97 <=? c) && (c <=? 122)).

Fixpoint valid_chars (l : list N) : bool :=
  match l with
  | [] => false
  | c :: r => okch c && match r with [] => true | [10] => true | _ => valid_chars r end
  end.

Definition valid_name (n : name) : bool := (length n <=? 63)%nat && valid_chars n.

Definition nodot (n : name) : bool := forallb (fun c => negb (c =? DOT)) n.

Definition key3 (c p s : name) : str := c ++ DOT :: p ++ DOT :: s.
Definition key2 (p s : name) : str := p ++ DOT :: s.

(* text after the first '.', = full_name.split(".")[1] when there is exactly one '.' *)
Fixpoint after_dot (k : str) : str :=
  match k with
  | [] => []
  | c :: r => if c =? DOT then r else after_dot r
  end.

(* ---------------------------------------------------------------- dict / set helpers *)
Section Assoc.
  Context {K V : Type}.
  Variable eqb : K -> K -> bool.

  Fixpoint alookup (k : K) (t : list (K * V)) : option V :=
    match t with
    | [] => None
    | (k', v) :: r => if eqb k k' then Some v else alookup k r
    end.

  (* d.pop(k): dict keys are unique, so "every entry with key k" is "the entry with key k" *)
  Definition aremove (k : K) (t : list (K * V)) : list (K * V) :=
    filter (fun e => negb (eqb k (fst e))) t.

  (* d[k] = v : in place when the key exists, else appended (dict insertion order) *)
  Fixpoint aset (k : K) (v : V) (t : list (K * V)) : list (K * V) :=
    match t with
    | [] => [(k, v)]
    | (k', v') :: r => if eqb k k' then (k', v) :: r else (k', v') :: aset k v r
    end.
End Assoc.

Section SetOps.
  Context {A : Type}.
  Variable eqb : A -> A -> bool.
  Definition smem (x : A) (l : list A) : bool := existsb (eqb x) l.
  Definition sadd (x : A) (l : list A) : list A := if smem x l then l else l ++ [x].
  Definition sdel (x : A) (l : list A) : list A := filter (fun y => negb (eqb x y)) l.
  Definition sunion (l m : list A) : list A := fold_left (fun acc x => sadd x acc) m l.
End SetOps.

Definition is_nil {A} (l : list A) : bool := match l with [] => true | _ => false end.

(* ---------------------------------------------------------------- messages, state *)
Inductive msg :=
| MSignal (pub sig : name) (a : Z) (j : N)        (* QMI_SignalMessage; j = ghost publication number *)
| MSubReq (id : N) (pub sig : name) (sub : bool)  (* QMI_SignalSubscriptionRequest *)
| MSubReply (id : N) (ok : bool)                  (* QMI_SignalSubscriptionReply *)
| MRemoved (pub sig : name).                      (* QMI_SignalRemovedMessage *)

Record preq := mkPreq {
  pq_ctx : name; pq_pub : name; pq_sig : name;
  pq_sub : bool;            (* .subscribe *)
  pq_recv : list N;         (* .receivers *)
  pq_wait : list N }.       (* calls blocked in .wait() on this object *)

(* a publication in progress (one thread inside publish_signal) *)
Record job := mkJob {
  j_id : N; j_pub : name; j_sig : name; j_args : Z;
  j_snap : list N;                  (* receiver_list copied under the lock *)
  j_todo : list N;                  (* receivers not yet served *)
  j_rsnap : option (list name);     (* rsubs_list copied under the lock (None = not yet) *)
  j_rtodo : list name }.

(* one ReceivedSignal appended to a receiver queue: receiver, (publisher_context,
   publisher_name, signal_name, args), ghost: publication number at the publisher *)
Definition sigrec := (name * name * name * Z)%type.
Definition logent := (N * sigrec * N)%type.

Record node := mkNode {
  n_name : name;
  n_objs : list name;                 (* RPC objects known to get_rpc_object_descriptor *)
  n_peers : list name;                (* peers the router can send to *)
  n_lsubs : list (str * list N);      (* _local_subscriptions *)
  n_rsubs : list (str * list name);   (* _remote_subscriptions *)
  n_pid : list (N * str);             (* _pending_subscription_request_by_request_id *)
  n_pname : list (str * preq);        (* _pending_subscription_request_by_signal_name *)
  n_next : N;                         (* next fresh request id *)
  n_done : list (N * bool);           (* calls whose wait() can return, with .success *)
  n_jobctr : N;
  n_jobs : list job;
  n_log : list logent }.              (* all _receive_signal calls, newest first *)

Definition init_node (nm : name) (objs : list name) : node :=
  mkNode nm objs [] [] [] [] [] 0 [] 0 [] [].

Definition w_objs v n := mkNode (n_name n) v (n_peers n) (n_lsubs n) (n_rsubs n) (n_pid n) (n_pname n) (n_next n) (n_done n) (n_jobctr n) (n_jobs n) (n_log n).
Definition w_peers v n := mkNode (n_name n) (n_objs n) v (n_lsubs n) (n_rsubs n) (n_pid n) (n_pname n) (n_next n) (n_done n) (n_jobctr n) (n_jobs n) (n_log n).
Definition w_lsubs v n := mkNode (n_name n) (n_objs n) (n_peers n) v (n_rsubs n) (n_pid n) (n_pname n) (n_next n) (n_done n) (n_jobctr n) (n_jobs n) (n_log n).
Definition w_rsubs v n := mkNode (n_name n) (n_objs n) (n_peers n) (n_lsubs n) v (n_pid n) (n_pname n) (n_next n) (n_done n) (n_jobctr n) (n_jobs n) (n_log n).
Definition w_pid v n := mkNode (n_name n) (n_objs n) (n_peers n) (n_lsubs n) (n_rsubs n) v (n_pname n) (n_next n) (n_done n) (n_jobctr n) (n_jobs n) (n_log n).
Definition w_pname v n := mkNode (n_name n) (n_objs n) (n_peers n) (n_lsubs n) (n_rsubs n) (n_pid n) v (n_next n) (n_done n) (n_jobctr n) (n_jobs n) (n_log n).
Definition w_next v n := mkNode (n_name n) (n_objs n) (n_peers n) (n_lsubs n) (n_rsubs n) (n_pid n) (n_pname n) v (n_done n) (n_jobctr n) (n_jobs n) (n_log n).
Definition w_done v n := mkNode (n_name n) (n_objs n) (n_peers n) (n_lsubs n) (n_rsubs n) (n_pid n) (n_pname n) (n_next n) v (n_jobctr n) (n_jobs n) (n_log n).
Definition w_jobctr v n := mkNode (n_name n) (n_objs n) (n_peers n) (n_lsubs n) (n_rsubs n) (n_pid n) (n_pname n) (n_next n) (n_done n) v (n_jobs n) (n_log n).
Definition w_jobs v n := mkNode (n_name n) (n_objs n) (n_peers n) (n_lsubs n) (n_rsubs n) (n_pid n) (n_pname n) (n_next n) (n_done n) (n_jobctr n) v (n_log n).
Definition w_log v n := mkNode (n_name n) (n_objs n) (n_peers n) (n_lsubs n) (n_rsubs n) (n_pid n) (n_pname n) (n_next n) (n_done n) (n_jobctr n) (n_jobs n) v.

Inductive res :=
| RNone       (* call returned None *)
| RUsage      (* QMI_UsageException *)
| RSubErr     (* QMI_SignalSubscriptionException *)
| RWait.      (* call is blocked in _PendingSubscriptionRequest.wait() *)

Inductive out :=
| OSend (to : name) (m : msg)    (* context.send_message accepted the message *)
| ORes (r : res).

Inductive input :=
| ISub (call : N) (c p s : name) (r : N)      (* subscribe_signal(c, p, s, receiver r) *)
| ISubEnd (call : N)                          (* wait() of a blocked subscribe returns *)
| IUnsub (c p s : name) (r : N)               (* unsubscribe_signal *)
| IPubBegin (p s : name) (a : Z)              (* publish_signal: checks + receiver snapshot *)
| IPubDeliver (j : N) (r : N)                 (* receiver._receive_signal(msg) of publication j *)
| IPubSnapRemote (j : N)                      (* second lock region: copy of the peer set *)
| IPubSend (j : N) (x : name)                 (* context.send_message(msg to x) *)
| IObjAdd (o : name)
| IObjRemove (o : name)                       (* context.remove_rpc_object *)
| IRecv (from : name) (m : msg)               (* handle_message *)
| IErrReply (id : N)                          (* handle_message(QMI_ErrorReplyMessage) *)
| IPeerAdded (x : name)
| IPeerRemoved (x : name).                    (* handle_peer_context_removed *)

Definition can_send (n : node) (x : name) : bool := smem str_eqb x (n_peers n).

(* ---------------------------------------------------------------- _handle_subscription_reply *)
(* everything under the lock; returns the new request (id) to send, if any *)
Definition complete (n : node) (id : N) (ok : bool) : node * option (N * preq) :=
  match alookup N.eqb id (n_pid n) with
  | None => (n, None)                                     (* KeyError, logged by the caller *)
  | Some key =>
      let n := w_pid (aremove N.eqb id (n_pid n)) n in
      match alookup str_eqb key (n_pname n) with
      | None => (n, None)                                 (* KeyError *)
      | Some q =>
          let n := w_pname (aremove str_eqb key (n_pname n)) n in
          let n := if pq_sub q && ok then
                     match alookup str_eqb key (n_lsubs n) with
                     | Some (x :: l) => w_lsubs (aset str_eqb key (sunion N.eqb (x :: l) (pq_recv q)) (n_lsubs n)) n
                     | _ => w_lsubs (aset str_eqb key (pq_recv q) (n_lsubs n)) n
                     end
                   else n in
          let n := if pq_sub q then w_done (n_done n ++ map (fun c => (c, ok)) (pq_wait q)) n else n in
          if negb (pq_sub q) && negb (is_nil (pq_recv q)) then
            let id2 := n_next n in
            let q' := mkPreq (pq_ctx q) (pq_pub q) (pq_sig q) true (pq_recv q) (pq_wait q) in
            let n := w_next (id2 + 1) n in
            let n := w_pname (aset str_eqb key q' (n_pname n)) n in
            let n := w_pid (aset N.eqb id2 key (n_pid n)) n in
            (n, Some (id2, q'))
          else (n, None)
      end
  end.

(* _send_subscription_request: a failed send is handled as an error reply (the nesting depth
   in the code is unbounded in principle; two levels are modelled, the second never creates a
   request because the request just failed is a subscribe request) *)
Definition send_req (n : node) (id : N) (q : preq) : node * list out :=
  if can_send n (pq_ctx q) then (n, [OSend (pq_ctx q) (MSubReq id (pq_pub q) (pq_sig q) (pq_sub q))])
  else
    let '(n1, r1) := complete n id false in
    match r1 with
    | None => (n1, [])
    | Some (id2, _) => (fst (complete n1 id2 false), [])
    end.

Definition handle_reply (n : node) (id : N) (ok : bool) : node * list out :=
  let '(n1, r1) := complete n id ok in
  match r1 with
  | None => (n1, [])
  | Some (id2, q2) => send_req n1 id2 q2
  end.

(* ---------------------------------------------------------------- subscribe / unsubscribe *)
Definition new_request (n : node) (c p s : name) (sub : bool) (recv wait : list N) : node * N * preq :=
  let key := key3 c p s in
  let id := n_next n in
  let q := mkPreq c p s sub recv wait in
  let n := w_next (id + 1) n in
  let n := w_pname (aset str_eqb key q (n_pname n)) n in
  let n := w_pid (aset N.eqb id key (n_pid n)) n in
  (n, id, q).

Definition add_local (n : node) (key : str) (r : N) : node :=
  match alookup str_eqb key (n_lsubs n) with
  | Some l => w_lsubs (aset str_eqb key (sadd N.eqb r l) (n_lsubs n)) n
  | None => w_lsubs (aset str_eqb key [r] (n_lsubs n)) n
  end.

Definition remove_local (n : node) (key : str) (r : N) : node * bool (* popped *) :=
  match alookup str_eqb key (n_lsubs n) with
  | Some l =>
      let l' := sdel N.eqb r l in
      if is_nil l' then (w_lsubs (aremove str_eqb key (n_lsubs n)) n, true)
      else (w_lsubs (aset str_eqb key l' (n_lsubs n)) n, false)
  | None => (n, false)
  end.

Definition sub_local (n : node) (p s : name) (r : N) : node * list out :=
  if smem str_eqb p (n_objs n) then (add_local n (key3 (n_name n) p s) r, [ORes RNone])
  else (n, [ORes RSubErr]).

Definition sub_remote (n : node) (call : N) (c p s : name) (r : N) : node * list out :=
  let key := key3 c p s in
  match alookup str_eqb key (n_lsubs n) with
  | Some (x :: l) => (w_lsubs (aset str_eqb key (sadd N.eqb r (x :: l)) (n_lsubs n)) n, [ORes RNone])
  | _ =>
      match alookup str_eqb key (n_pname n) with
      | Some q =>
          let q' := mkPreq (pq_ctx q) (pq_pub q) (pq_sig q) (pq_sub q) (sadd N.eqb r (pq_recv q)) (pq_wait q ++ [call]) in
          (w_pname (aset str_eqb key q' (n_pname n)) n, [ORes RWait])
      | None =>
          let '(n1, id, q) := new_request n c p s true [r] [call] in
          let '(n2, o) := send_req n1 id q in
          (n2, o ++ [ORes RWait])
      end
  end.

Definition unsub_remote (n : node) (c p s : name) (r : N) : node * list out :=
  let key := key3 c p s in
  let '(n1, last) := remove_local n key r in
  if last then
    match alookup str_eqb key (n_pname n1) with
    | Some _ => (n1, [ORes RNone])
    | None =>
        let '(n2, id, q) := new_request n1 c p s false [] [] in
        let '(n3, o) := send_req n2 id q in
        (n3, o ++ [ORes RNone])
    end
  else (n1, [ORes RNone]).

Definition resolve_ctx (n : node) (c : name) : name := if is_nil c then n_name n else c.

Definition names_ok (c p s : name) : bool := valid_name c && valid_name p && valid_name s.

(* ---------------------------------------------------------------- requests from peers *)
Definition add_remote (n : node) (key : str) (x : name) : node :=
  match alookup str_eqb key (n_rsubs n) with
  | Some l => w_rsubs (aset str_eqb key (sadd str_eqb x l) (n_rsubs n)) n
  | None => w_rsubs (aset str_eqb key [x] (n_rsubs n)) n
  end.

Definition remove_remote (n : node) (key : str) (x : name) : node :=
  match alookup str_eqb key (n_rsubs n) with
  | Some l =>
      let l' := sdel str_eqb x l in
      if is_nil l' then w_rsubs (aremove str_eqb key (n_rsubs n)) n
      else w_rsubs (aset str_eqb key l' (n_rsubs n)) n
  | None => n
  end.

Definition send_to (n : node) (x : name) (m : msg) : list out :=
  if can_send n x then [OSend x m] else [].

Definition handle_sub_request (n : node) (from : name) (id : N) (p s : name) (sub : bool) : node * list out :=
  if sub then
    if smem str_eqb p (n_objs n) then
      (add_remote n (key2 p s) from, send_to n from (MSubReply id true))
    else (n, send_to n from (MSubReply id false))
  else (remove_remote n (key2 p s) from, send_to n from (MSubReply id true)).

Definition mk_entries (c p s : name) (a : Z) (j : N) (rs : list N) : list logent :=
  map (fun r => (r, (c, p, s, a), j)) rs.

Definition deliver_remote (n : node) (from : name) (p s : name) (a : Z) (j : N) : node :=
  match alookup str_eqb (key3 from p s) (n_lsubs n) with
  | Some rs => w_log (rev (mk_entries from p s a j rs) ++ n_log n) n
  | None => n
  end.

(* ---------------------------------------------------------------- removal *)
Definition object_removed (n : node) (o : name) : node * list out :=
  let pat1 := n_name n ++ DOT :: o ++ [DOT] in
  let n1 := w_lsubs (filter (fun e => negb (startswith pat1 (fst e))) (n_lsubs n)) n in
  let pat2 := o ++ [DOT] in
  let gone := filter (fun e => startswith pat2 (fst e)) (n_rsubs n1) in
  let n2 := w_rsubs (filter (fun e => negb (startswith pat2 (fst e))) (n_rsubs n1)) n1 in
  (n2, flat_map (fun e => flat_map (fun x => send_to n2 x (MRemoved o (after_dot (fst e)))) (snd e)) gone).

(* The notice loop of handle_object_removed with some peers unreachable.  While a peer is half-way through
   disconnecting (its connection is already out of the router's peer map, handle_peer_context_removed has not
   run yet) the manager still lists it as remote subscriber but send_message to it raises
   QMI_MessageDeliveryException.  [u] = the peers whose sends fail; the table changes are those of
   [object_removed]; every (signal, subscriber) notice is attempted on its own. *)
Definition send_to_u (u : list name) (n : node) (x : name) (m : msg) : list out :=
  if can_send n x && negb (smem str_eqb x u) then [OSend x m] else [].

Definition object_removed_u (u : list name) (n : node) (o : name) : node * list out :=
  let pat1 := n_name n ++ DOT :: o ++ [DOT] in
  let n1 := w_lsubs (filter (fun e => negb (startswith pat1 (fst e))) (n_lsubs n)) n in
  let pat2 := o ++ [DOT] in
  let gone := filter (fun e => startswith pat2 (fst e)) (n_rsubs n1) in
  let n2 := w_rsubs (filter (fun e => negb (startswith pat2 (fst e))) (n_rsubs n1)) n1 in
  (n2, flat_map (fun e => flat_map (fun x => send_to_u u n2 x (MRemoved o (after_dot (fst e)))) (snd e)) gone).

Definition peer_removed (n : node) (x : name) : node :=
  let rs := flat_map (fun e =>
                        if smem str_eqb x (snd e) then
                          let l' := sdel str_eqb x (snd e) in
                          if is_nil l' then [] else [(fst e, l')]
                        else [e]) (n_rsubs n) in
  let n1 := w_rsubs rs n in
  w_lsubs (filter (fun e => negb (startswith (x ++ [DOT]) (fst e))) (n_lsubs n1)) n1.

(* ---------------------------------------------------------------- publish *)
Fixpoint find_job (j : N) (l : list job) : option job :=
  match l with
  | [] => None
  | b :: r => if j_id b =? j then Some b else find_job j r
  end.

Fixpoint put_job (b : job) (l : list job) : list job :=
  match l with
  | [] => []
  | c :: r => if j_id c =? j_id b then b :: r else c :: put_job b r
  end.

Definition opt_list {A} (o : option (list A)) : list A := match o with Some l => l | None => [] end.

(* ---------------------------------------------------------------- the node step *)
Definition node_step (n : node) (i : input) : option (node * list out) :=
  match i with
  | ISub call c p s r =>
      let c := resolve_ctx n c in
      if negb (names_ok c p s) then Some (n, [ORes RUsage])
      else if str_eqb c (n_name n) then Some (sub_local n p s r)
      else Some (sub_remote n call c p s r)
  | ISubEnd call =>
      match alookup N.eqb call (n_done n) with
      | Some ok => Some (w_done (aremove N.eqb call (n_done n)) n, [ORes (if ok then RNone else RSubErr)])
      | None => None
      end
  | IUnsub c p s r =>
      let c := resolve_ctx n c in
      if negb (names_ok c p s) then Some (n, [ORes RUsage])
      else if str_eqb c (n_name n) then Some (fst (remove_local n (key3 c p s) r), [ORes RNone])
      else Some (unsub_remote n c p s r)
  | IPubBegin p s a =>
      let j := n_jobctr n in
      let n := w_jobctr (j + 1) n in
      if negb (valid_name p && valid_name s) then Some (n, [ORes RUsage])
      else
        let snap := opt_list (alookup str_eqb (key3 (n_name n) p s) (n_lsubs n)) in
        Some (w_jobs (n_jobs n ++ [mkJob j p s a snap snap None []]) n, [])
  | IPubDeliver j r =>
      match find_job j (n_jobs n) with
      | Some b =>
          if smem N.eqb r (j_todo b) then
            let b' := mkJob (j_id b) (j_pub b) (j_sig b) (j_args b) (j_snap b) (sdel N.eqb r (j_todo b)) (j_rsnap b) (j_rtodo b) in
            Some (w_log ((r, (n_name n, j_pub b, j_sig b, j_args b), j) :: n_log n) (w_jobs (put_job b' (n_jobs n)) n), [])
          else None
      | None => None
      end
  | IPubSnapRemote j =>
      match find_job j (n_jobs n) with
      | Some b =>
          match j_todo b, j_rsnap b with
          | [], None =>
              let snap := opt_list (alookup str_eqb (key2 (j_pub b) (j_sig b)) (n_rsubs n)) in
              let b' := mkJob (j_id b) (j_pub b) (j_sig b) (j_args b) (j_snap b) [] (Some snap) snap in
              Some (w_jobs (put_job b' (n_jobs n)) n, [])
          | _, _ => None
          end
      | None => None
      end
  | IPubSend j x =>
      match find_job j (n_jobs n) with
      | Some b =>
          if smem str_eqb x (j_rtodo b) then
            let b' := mkJob (j_id b) (j_pub b) (j_sig b) (j_args b) (j_snap b) (j_todo b) (j_rsnap b) (sdel str_eqb x (j_rtodo b)) in
            Some (w_jobs (put_job b' (n_jobs n)) n, send_to n x (MSignal (j_pub b) (j_sig b) (j_args b) j))
          else None
      | None => None
      end
  | IObjAdd o => Some (w_objs (sadd str_eqb o (n_objs n)) n, [])
  | IObjRemove o => Some (object_removed (w_objs (sdel str_eqb o (n_objs n)) n) o)
  | IRecv from m =>
      match m with
      | MSignal p s a j => Some (deliver_remote n from p s a j, [])
      | MSubReq id p s sub => Some (handle_sub_request n from id p s sub)
      | MSubReply id ok => Some (handle_reply n id ok)
      | MRemoved p s => Some (w_lsubs (aremove str_eqb (key3 from p s) (n_lsubs n)) n, [])
      end
  | IErrReply id => Some (handle_reply n id false)
  | IPeerAdded x => Some (w_peers (sadd str_eqb x (n_peers n)) n, [])
  | IPeerRemoved x => Some (peer_removed (w_peers (sdel str_eqb x (n_peers n)) n) x, [])
  end.

Fixpoint node_run (n : node) (l : list input) : option (node * list out) :=
  match l with
  | [] => Some (n, [])
  | i :: r =>
      match node_step n i with
      | Some (n1, o1) =>
          match node_run n1 r with
          | Some (n2, o2) => Some (n2, o1 ++ o2)
          | None => None
          end
      | None => None
      end
  end.

(* inputs a thread of the application can issue (the others come from the network layer) *)
Definition api_input (i : input) : bool :=
  match i with
  | IRecv _ _ | IErrReply _ | IPeerAdded _ | IPeerRemoved _ => false
  | _ => true
  end.

Definition req_id_of (m : msg) : option N := match m with MSubReq id _ _ _ => Some id | _ => None end.
Definition reply_id_of (m : msg) : option N := match m with MSubReply id _ => Some id | _ => None end.

(* apply the error replies of _clear_pending_requests, in table order *)
Fixpoint err_replies (n : node) (ids : list N) : node * list out :=
  match ids with
  | [] => (n, [])
  | id :: r =>
      let '(n1, o1) := handle_reply n id false in
      let '(n2, o2) := err_replies n1 r in
      (n2, o1 ++ o2)
  end.

(* ================================================================ two-node system (theorems) *)
(* Two contexts A (side true) and B (side false), one TCP connection at a time, one FIFO channel
   per direction, the connection-level pending-request table of each end.  An end that has
   closed never reads again: what is (or gets) queued towards it is never delivered and is
   discarded when a new connection is made; what was sent before the close can still be read by
   the other end until it closes too (orderly TCP shutdown).  A new connection is made only when
   both ends have closed the previous one. *)
Record sys2 := mkSys2 {
  sA : node; sB : node;
  cAB : list msg; cBA : list msg;      (* in flight A->B, B->A (head = oldest) *)
  pA : list N; pB : list N }.          (* _PeerTcpConnection._pending_requests at A, at B *)

Definition nd (s : sys2) (sd : bool) : node := if sd then sA s else sB s.
Definition ch (s : sys2) (sd : bool) : list msg := if sd then cAB s else cBA s.   (* from sd *)
Definition cp (s : sys2) (sd : bool) : list N := if sd then pA s else pB s.
Definition w_nd (sd : bool) (v : node) (s : sys2) : sys2 :=
  if sd then mkSys2 v (sB s) (cAB s) (cBA s) (pA s) (pB s) else mkSys2 (sA s) v (cAB s) (cBA s) (pA s) (pB s).
Definition w_ch (sd : bool) (v : list msg) (s : sys2) : sys2 :=
  if sd then mkSys2 (sA s) (sB s) v (cBA s) (pA s) (pB s) else mkSys2 (sA s) (sB s) (cAB s) v (pA s) (pB s).
Definition w_cp (sd : bool) (v : list N) (s : sys2) : sys2 :=
  if sd then mkSys2 (sA s) (sB s) (cAB s) (cBA s) v (pB s) else mkSys2 (sA s) (sB s) (cAB s) (cBA s) (pA s) v.

Definition up (s : sys2) (sd : bool) : bool := can_send (nd s sd) (n_name (nd s (negb sd))).

(* the router/socket layer of side sd takes the messages a handler produced *)
Fixpoint route2 (sd : bool) (os : list out) (s : sys2) : sys2 :=
  match os with
  | [] => s
  | OSend _ m :: r =>
      let s := w_ch sd (ch s sd ++ [m]) s in
      let s := match req_id_of m with Some id => w_cp sd (cp s sd ++ [id]) s | None => s end in
      route2 sd r s
  | ORes _ :: r => route2 sd r s
  end.

Inductive label2 :=
| L2Node (sd : bool) (i : input)     (* an application thread of side sd calls the API *)
| L2Deliver (sd : bool)              (* oldest message sent by sd is handled by the other side *)
| L2Connect
| L2Close (sd : bool).               (* side sd closes / notices the loss of the connection *)

Definition step2 (s : sys2) (l : label2) : option (sys2 * list out) :=
  match l with
  | L2Node sd i =>
      if api_input i then
        match node_step (nd s sd) i with
        | Some (n', os) => Some (route2 sd os (w_nd sd n' s), os)
        | None => None
        end
      else None
  | L2Deliver sd =>
      match ch s sd with
      | m :: rest =>
          if up s (negb sd) then
            let rc := negb sd in
            let s := w_ch sd rest s in
            let s := match reply_id_of m with Some id => w_cp rc (sdel N.eqb id (cp s rc)) s | None => s end in
            match node_step (nd s rc) (IRecv (n_name (nd s sd)) m) with
            | Some (n', os) => Some (route2 rc os (w_nd rc n' s), os)
            | None => None
            end
          else None
      | [] => None
      end
  | L2Connect =>
      if negb (up s true) && negb (up s false) then
        match node_step (sA s) (IPeerAdded (n_name (sB s))), node_step (sB s) (IPeerAdded (n_name (sA s))) with
        | Some (a', _), Some (b', _) => Some (w_ch true [] (w_ch false [] (w_nd false b' (w_nd true a' s))), [])
        | _, _ => None
        end
      else None
  | L2Close sd =>
      if up s sd then
        match node_step (nd s sd) (IPeerRemoved (n_name (nd s (negb sd)))) with
        | Some (n1, _) =>
            let '(n2, os) := err_replies n1 (cp s sd) in
            Some (route2 sd os (w_cp sd [] (w_nd sd n2 s)), os)
        | None => None
        end
      else None
  end.

Fixpoint run2 (s : sys2) (ls : list label2) : option sys2 :=
  match ls with
  | [] => Some s
  | l :: r => match step2 s l with Some (s', _) => run2 s' r | None => None end
  end.

Definition init2 (a b : name) (oa ob : list name) : sys2 :=
  mkSys2 (init_node a oa) (init_node b ob) [] [] [] [].

(* ================================================================ N-node system (correspondence) *)
(* Same wiring (and the same network semantics as [sys2]) for any number of contexts, nodes found
   by name; used by the correspondence runs (1-3 contexts) and by the star-topology theorem of C08;
   built from the same [node_step]. *)
Definition pair_eqb (a b : name * name) : bool := str_eqb (fst a) (fst b) && str_eqb (snd a) (snd b).

Record sysN := mkSysN {
  sn_nodes : list (name * node);
  sn_chan : list ((name * name) * list msg);       (* (from, to) -> in flight *)
  sn_cpend : list ((name * name) * list N) }.      (* (at, peer) -> pending request ids *)

Definition getn (s : sysN) (x : name) : option node := alookup str_eqb x (sn_nodes s).
Definition putn (x : name) (n : node) (s : sysN) : sysN := mkSysN (aset str_eqb x n (sn_nodes s)) (sn_chan s) (sn_cpend s).
Definition getc (s : sysN) (x y : name) : list msg := opt_list (alookup pair_eqb (x, y) (sn_chan s)).
Definition putc (x y : name) (v : list msg) (s : sysN) : sysN := mkSysN (sn_nodes s) (aset pair_eqb (x, y) v (sn_chan s)) (sn_cpend s).
Definition getp (s : sysN) (x y : name) : list N := opt_list (alookup pair_eqb (x, y) (sn_cpend s)).
Definition putp (x y : name) (v : list N) (s : sysN) : sysN := mkSysN (sn_nodes s) (sn_chan s) (aset pair_eqb (x, y) v (sn_cpend s)).

Definition upN (s : sysN) (x y : name) : bool :=
  match getn s x with Some n => can_send n y | None => false end.

Fixpoint routeN (x : name) (os : list out) (s : sysN) : sysN :=
  match os with
  | [] => s
  | OSend y m :: r =>
      let s := putc x y (getc s x y ++ [m]) s in
      let s := match req_id_of m with Some id => putp x y (getp s x y ++ [id]) s | None => s end in
      routeN x r s
  | ORes _ :: r => routeN x r s
  end.

Inductive labelN :=
| LNode (x : name) (i : input)
| LDeliver (x y : name)            (* oldest message x -> y handled at y *)
| LConnect (x y : name)
| LClose (x y : name).             (* x closes its connection to y *)

Definition stepN (s : sysN) (l : labelN) : option (sysN * list out) :=
  match l with
  | LNode x i =>
      if api_input i then
        match getn s x with
        | Some n =>
            match node_step n i with
            | Some (n', os) => Some (routeN x os (putn x n' s), os)
            | None => None
            end
        | None => None
        end
      else None
  | LDeliver x y =>
      match getc s x y, getn s y with
      | m :: rest, Some n =>
          if can_send n x then
            let s := putc x y rest s in
            let s := match reply_id_of m with Some id => putp y x (sdel N.eqb id (getp s y x)) s | None => s end in
            match node_step n (IRecv x m) with
            | Some (n', os) => Some (routeN y os (putn y n' s), os)
            | None => None
            end
          else None
      | _, _ => None
      end
  | LConnect x y =>
      match getn s x, getn s y with
      | Some nx, Some ny =>
          if negb (can_send nx y) && negb (can_send ny x) && negb (str_eqb x y) then
            match node_step nx (IPeerAdded y), node_step ny (IPeerAdded x) with
            | Some (nx', _), Some (ny', _) => Some (putc x y [] (putc y x [] (putn y ny' (putn x nx' s))), [])
            | _, _ => None
            end
          else None
      | _, _ => None
      end
  | LClose x y =>
      match getn s x with
      | Some n =>
          if can_send n y then
            match node_step n (IPeerRemoved y) with
            | Some (n1, _) =>
                let '(n2, os) := err_replies n1 (getp s x y) in
                Some (routeN x os (putp x y [] (putn x n2 s)), os)
            | None => None
            end
          else None
      | None => None
      end
  end.

Definition initN (l : list (name * list name)) : sysN :=
  mkSysN (map (fun e => (fst e, init_node (fst e) (snd e))) l) [] [].
