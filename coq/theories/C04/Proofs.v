(* C04 — lemmas about the lock machine, the method gate, proxy bookkeeping and the token source. *)
Require Import QV.C04.Model.
From Coq Require Import Lia.

(* ---------------------------------------------------------------------------------------------- *)
(* token equality                                                                                 *)
(* ---------------------------------------------------------------------------------------------- *)
Lemma tstr_eqb_eq a b : tstr_eqb a b = true <-> a = b.
Proof.
  destruct a as [i n|s], b as [j m|u]; simpl; split; intro H; try discriminate; try congruence.
  - apply andb_true_iff in H as [H1 H2]. apply N.eqb_eq in H1. apply N.eqb_eq in H2. congruence.
  - inversion H; subst. rewrite !N.eqb_refl. reflexivity.
  - apply N.eqb_eq in H. congruence.
  - inversion H. apply N.eqb_refl.
Qed.

Lemma token_eqb_eq a b : token_eqb a b = true <-> a = b.
Proof.
  destruct a as [a1 a2], b as [b1 b2]; unfold token_eqb; simpl; split; intro H.
  - apply andb_true_iff in H as [H1 H2]. apply N.eqb_eq in H1. apply tstr_eqb_eq in H2. congruence.
  - inversion H; subst. rewrite N.eqb_refl. simpl. apply tstr_eqb_eq. reflexivity.
Qed.

Lemma token_eqb_refl a : token_eqb a a = true.
Proof. apply token_eqb_eq. reflexivity. Qed.

Lemma token_eqb_neq a b : token_eqb a b = false <-> a <> b.
Proof.
  split; intro H.
  - intro E. apply token_eqb_eq in E. congruence.
  - destruct (token_eqb a b) eqn:E; [apply token_eqb_eq in E; contradiction | reflexivity].
Qed.

Lemma otoken_eqb_eq a b : otoken_eqb a b = true <-> a = b.
Proof.
  destruct a as [x|], b as [y|]; simpl; split; intro H; try discriminate; try reflexivity.
  - apply token_eqb_eq in H. congruence.
  - inversion H. apply token_eqb_refl.
Qed.

Lemma otoken_eqb_neq a b : otoken_eqb a b = false <-> a <> b.
Proof.
  split; intro H.
  - intro E. apply otoken_eqb_eq in E. congruence.
  - destruct (otoken_eqb a b) eqn:E; [apply otoken_eqb_eq in E; contradiction | reflexivity].
Qed.

Arguments token_eqb : simpl never.
Arguments otoken_eqb : simpl never.

(* ---------------------------------------------------------------------------------------------- *)
(* lock machine: one step, every state                                                            *)
(* ---------------------------------------------------------------------------------------------- *)
Definition reply_ok (a : action) (t : option token) (r : reply) : Prop :=
  match a with
  | Acquire => (exists u, t = Some u /\ r = RTok u) \/ r = RDenied
  | Release => r = RNone \/ r = RDenied
  | ForceRelease => r = RNone
  | Query => r = RNone \/ r = RLocked
  end.

Lemma lock_total o a t : exists o' r, lock_step o a t = (o', r) /\ reply_ok a t r.
Proof.
  destruct a; simpl.
  - destruct t as [u|]; [|do 2 eexists; split; [reflexivity|right; reflexivity]].
    destruct o as [w|].
    + destruct (token_eqb w u) eqn:E.
      * apply token_eqb_eq in E; subst. do 2 eexists; split; [reflexivity|left; eauto].
      * do 2 eexists; split; [reflexivity|right; reflexivity].
    + do 2 eexists; split; [reflexivity|left; eauto].
  - destruct o as [w|]; [destruct (otoken_eqb (Some w) t)|];
      do 2 eexists; (split; [reflexivity|]); auto.
  - do 2 eexists; split; reflexivity.
  - destruct o; do 2 eexists; (split; [reflexivity|]); auto.
Qed.

Lemma lock_impl_agrees o a t x : lock_step_impl o a t = Some x -> x = lock_step o a t.
Proof. destruct a, t, o; simpl; intro H; inversion H; reflexivity. Qed.

Lemma lock_impl_crashes o a t :
  lock_step_impl o a t = None <-> (a = Acquire /\ t = None) \/ (a = ForceRelease /\ o = None).
Proof.
  destruct a, t, o; simpl; split; intro H; try discriminate; auto;
    destruct H as [[H1 H2]|[H1 H2]]; discriminate.
Qed.

Lemma lock_total_refuted : exists o a t, lock_step_impl o a t = None.
Proof. exists None, ForceRelease, None. reflexivity. Qed.

(* the owner changes only in three ways *)
Lemma lock_owner_change o a t o' r :
  lock_step o a t = (o', r) ->
  (o' = o /\ (a = Acquire \/ a = Query \/ (a = Release /\ r = RDenied) \/ o = None))
  \/ (o = None /\ a = Acquire /\ (exists u, t = Some u /\ o' = Some u /\ r = RTok u))
  \/ (o' = None /\ a = Release /\ (exists w, o = Some w /\ t = Some w) /\ r = RNone)
  \/ (o' = None /\ a = ForceRelease /\ r = RNone).
Proof.
  destruct a; simpl; intro H.
  - destruct t as [u|].
    + destruct o as [w|].
      * destruct (token_eqb w u); inversion H; subst; left; auto.
      * inversion H; subst. right; left. split; [reflexivity|]. split; [reflexivity|].
        exists u. auto.
    + inversion H; subst; left; auto.
  - destruct o as [w|].
    + destruct (otoken_eqb (Some w) t) eqn:E; inversion H; subst.
      * apply otoken_eqb_eq in E. subst t. right; right; left.
        split; [reflexivity|]. split; [reflexivity|]. split; [|reflexivity]. exists w. auto.
      * left. split; [reflexivity|]. right; right; left. auto.
    + inversion H; subst. left. auto.
  - inversion H; subst. right; right; right. auto.
  - destruct o; inversion H; subst; left; auto.
Qed.

Lemma acquire_free u : lock_step None Acquire (Some u) = (Some u, RTok u).
Proof. reflexivity. Qed.

Lemma acquire_same u : lock_step (Some u) Acquire (Some u) = (Some u, RTok u).
Proof. simpl. rewrite token_eqb_refl. reflexivity. Qed.

Lemma acquire_other_denied w u : w <> u -> lock_step (Some w) Acquire (Some u) = (Some w, RDenied).
Proof. intro H. simpl. apply token_eqb_neq in H. rewrite H. reflexivity. Qed.

Lemma acquire_notoken_denied o : lock_step o Acquire None = (o, RDenied).
Proof. reflexivity. Qed.

Lemma release_owner w : lock_step (Some w) Release (Some w) = (None, RNone).
Proof.
  simpl. assert (E : otoken_eqb (Some w) (Some w) = true) by (apply otoken_eqb_eq; reflexivity).
  rewrite E. reflexivity.
Qed.

Lemma release_other_denied w t : t <> Some w -> lock_step (Some w) Release t = (Some w, RDenied).
Proof.
  intro H. simpl. assert (E : otoken_eqb (Some w) t = false) by (apply otoken_eqb_neq; congruence).
  rewrite E. reflexivity.
Qed.

Lemma release_free t : lock_step None Release t = (None, RNone).
Proof. reflexivity. Qed.

Lemma force_release o t : lock_step o ForceRelease t = (None, RNone).
Proof. reflexivity. Qed.

Lemma query_truth o t :
  lock_step o Query t = (o, match o with None => RNone | Some _ => RLocked end).
Proof. destruct o; reflexivity. Qed.

(* the reply tells the truth about the state after the request *)
Lemma granted_iff o u :
  snd (lock_step o Acquire (Some u)) = RTok u <-> fst (lock_step o Acquire (Some u)) = Some u.
Proof.
  simpl. destruct o as [w|]; simpl; [|tauto].
  destruct (token_eqb w u) eqn:E; simpl.
  - apply token_eqb_eq in E; subst. tauto.
  - apply token_eqb_neq in E. split; intro H; [discriminate | congruence].
Qed.

Lemma reply_tok_is_request o a t u : snd (lock_step o a t) = RTok u -> a = Acquire /\ t = Some u.
Proof.
  destruct a; simpl.
  - destruct t as [v|]; [|discriminate]. destruct o as [w|]; simpl.
    + destruct (token_eqb w v) eqn:E; simpl; [|discriminate].
      apply token_eqb_eq in E; subst. intro H; inversion H; auto.
    + intro H; inversion H; auto.
  - destruct o as [w|]; [destruct (otoken_eqb (Some w) t)|]; discriminate.
  - discriminate.
  - destruct o; discriminate.
Qed.

Lemma reply_none_iff o a t : a <> Acquire ->
  (snd (lock_step o a t) = RNone <-> fst (lock_step o a t) = None).
Proof.
  intro Ha. destruct a; [contradiction| | |]; simpl.
  - destruct o as [w|]; simpl; [|tauto]. destruct (otoken_eqb (Some w) t); simpl; [tauto|].
    split; discriminate.
  - tauto.
  - destruct o; simpl; [split; discriminate | tauto].
Qed.

Lemma acquire_never_none o t : snd (lock_step o Acquire t) <> RNone.
Proof.
  simpl. destruct t as [u|]; [|discriminate]. destruct o as [w|]; [|discriminate].
  destruct (token_eqb w u); discriminate.
Qed.

Lemma gate_iff o t : method_gate o t = true <-> o = None \/ (exists w, o = Some w /\ t = Some w).
Proof.
  destruct o as [w|]; simpl.
  - rewrite otoken_eqb_eq. split.
    + intro H. right. exists w. auto.
    + intros [H|[w' [H1 H2]]]; [discriminate | congruence].
  - split; auto.
Qed.

(* ---------------------------------------------------------------------------------------------- *)
(* system: object + proxies                                                                       *)
(* ---------------------------------------------------------------------------------------------- *)
Lemma req_call_excl s o : (exists at', req_of s o = Some at' /\ call_of s o = None)
                       \/ (exists tx, req_of s o = None /\ call_of s o = Some tx).
Proof. destruct o as [p t|p [c|]|p|p|p x|a t|t x]; simpl; eauto. Qed.

Lemma sys_step_lock s o a t :
  req_of s o = Some (a, t) ->
  sys_step s o = (mkSys (fst (lock_step (owner s) a t))
                        (fst (proxy_after s o (snd (lock_step (owner s) a t)))) (log s),
                  snd (proxy_after s o (snd (lock_step (owner s) a t)))).
Proof.
  intro H. unfold sys_step. rewrite H. destruct (lock_step (owner s) a t) as [o' r]. simpl.
  destruct (proxy_after s o r). reflexivity.
Qed.

Lemma sys_step_call s o t x :
  call_of s o = Some (t, x) ->
  sys_step s o = if method_gate (owner s) t
                 then (mkSys (owner s) (ptok s) (log s ++ [x]), OutExec true)
                 else (s, OutExec false).
Proof.
  intro H. unfold sys_step.
  destruct (req_call_excl s o) as [[at' [H1 H2]]|[tx [H1 H2]]]; [congruence|].
  rewrite H1, H. reflexivity.
Qed.

(* a refused call changes nothing at all; an executed one only appends to the log *)
Lemma call_refused s o t x :
  call_of s o = Some (t, x) -> method_gate (owner s) t = false -> sys_step s o = (s, OutExec false).
Proof. intros H G. rewrite (sys_step_call _ _ _ _ H), G. reflexivity. Qed.

Lemma call_executed s o t x :
  call_of s o = Some (t, x) -> method_gate (owner s) t = true ->
  sys_step s o = (mkSys (owner s) (ptok s) (log s ++ [x]), OutExec true).
Proof. intros H G. rewrite (sys_step_call _ _ _ _ H), G. reflexivity. Qed.

Lemma lock_req_keeps_log s o a t :
  req_of s o = Some (a, t) -> log (fst (sys_step s o)) = log s.
Proof. intro H. rewrite (sys_step_lock _ _ _ _ H). reflexivity. Qed.

Lemma sys_owner_after s o :
  owner (fst (sys_step s o)) =
  match req_of s o with
  | Some (a, t) => fst (lock_step (owner s) a t)
  | None => owner s
  end.
Proof.
  destruct (req_call_excl s o) as [[[a t] [H1 H2]]|[[t x] [H1 H2]]]; rewrite H1.
  - rewrite (sys_step_lock _ _ _ _ H1). reflexivity.
  - rewrite (sys_step_call _ _ _ _ H2). destruct (method_gate (owner s) t); reflexivity.
Qed.

(* is_locked is truthful and changes nothing *)
Lemma is_locked_truth s p :
  sys_step s (OIsLocked p) =
  (s, OutBool (match owner s with None => false | Some _ => true end)).
Proof.
  destruct s as [o pt lg]. unfold sys_step. simpl. destruct o; reflexivity.
Qed.

(* proxy view *)
Lemma lock_view s p t :
  let s' := fst (sys_step s (OLock p t)) in
  exists b, snd (sys_step s (OLock p t)) = OutBool b /\
    (b = true <-> owner s' = Some t) /\
    (b = true -> ptok s' p = Some t) /\
    (b = false -> ptok s' p = ptok s p /\ owner s' = owner s) /\
    (forall q, q <> p -> ptok s' q = ptok s q) /\ log s' = log s.
Proof.
  cbv zeta. rewrite (sys_step_lock s (OLock p t) Acquire (Some t) eq_refl).
  pose proof (granted_iff (owner s) t) as G.
  pose proof (lock_owner_change (owner s) Acquire (Some t)) as C.
  destruct (lock_step (owner s) Acquire (Some t)) as [o' r] eqn:E. simpl in G. simpl.
  specialize (C o' r eq_refl).
  destruct (reply_is_tok r t) eqn:R; simpl.
  - exists true. destruct r; simpl in R; try discriminate. apply token_eqb_eq in R; subst t0.
    repeat split; auto.
    + intros _. apply G. reflexivity.
    + intros _. unfold upd. rewrite Nat.eqb_refl. reflexivity.
    + discriminate.
    + discriminate.
    + intros q Hq. unfold upd. apply Nat.eqb_neq in Hq. rewrite Hq. reflexivity.
  - exists false. repeat split; auto; try discriminate.
    + intro H. apply G in H. subst r. simpl in R. rewrite token_eqb_refl in R. discriminate.
    + destruct C as [[C _]|[C|[C|C]]]; auto.
      * destruct C as [_ [_ [u [Hu [_ Hr]]]]]. inversion Hu; subst. simpl in R.
        rewrite token_eqb_refl in R. discriminate.
      * destruct C as [_ [C _]]. discriminate.
      * destruct C as [_ [C _]]. discriminate.
Qed.

Lemma unlock_view s p c :
  let s' := fst (sys_step s (OUnlock p c)) in
  exists b, snd (sys_step s (OUnlock p c)) = OutBool b /\
    (b = true <-> owner s' = None) /\
    (b = true -> ptok s' p = None) /\
    (b = false -> ptok s' p = ptok s p /\ owner s' = owner s) /\
    (forall q, q <> p -> ptok s' q = ptok s q) /\ log s' = log s.
Proof.
  cbv zeta.
  set (t := match c with Some x => Some x | None => ptok s p end).
  assert (Hreq : req_of s (OUnlock p c) = Some (Release, t)) by (destruct c; reflexivity).
  rewrite (sys_step_lock _ _ _ _ Hreq).
  assert (Hrel : Release <> Acquire) by discriminate.
  pose proof (reply_none_iff (owner s) Release t Hrel) as G.
  pose proof (lock_owner_change (owner s) Release t) as C.
  destruct (lock_step (owner s) Release t) as [o' r] eqn:E. simpl in G.
  specialize (C o' r eq_refl). cbn [fst snd proxy_after owner ptok log].
  destruct (reply_is_none r) eqn:R; cbn [fst snd owner ptok log].
  - exists true. destruct r; simpl in R; try discriminate.
    repeat split; auto; try discriminate.
    + intros _. apply G. reflexivity.
    + intros _. unfold upd. rewrite Nat.eqb_refl. reflexivity.
    + intros q Hq. unfold upd. apply Nat.eqb_neq in Hq. rewrite Hq. reflexivity.
  - exists false. repeat split; auto; try discriminate.
    + intro H. apply G in H. subst r. discriminate.
    + destruct C as [[C _]|[C|[C|C]]]; auto.
      * destruct C as [_ [C _]]. discriminate.
      * destruct C as [_ [_ [_ C]]]. subst r. discriminate.
      * destruct C as [_ [C _]]. discriminate.
Qed.

Lemma force_view s p :
  let s' := fst (sys_step s (OForce p)) in
  snd (sys_step s (OForce p)) = OutUnit /\ owner s' = None /\ ptok s' p = None /\
  (forall q, q <> p -> ptok s' q = ptok s q) /\ log s' = log s.
Proof.
  cbv zeta. rewrite (sys_step_lock s (OForce p) ForceRelease (ptok s p) eq_refl).
  rewrite force_release. simpl. repeat split; auto.
  - unfold upd. rewrite Nat.eqb_refl. reflexivity.
  - intros q Hq. unfold upd. apply Nat.eqb_neq in Hq. rewrite Hq. reflexivity.
Qed.

(* how a proxy's remembered token can change in one step *)
Lemma ptok_after s o q :
  ptok (fst (sys_step s o)) q = ptok s q \/ ptok (fst (sys_step s o)) q = None
  \/ (exists t, o = OLock q t /\ ptok (fst (sys_step s o)) q = Some t).
Proof.
  destruct (req_call_excl s o) as [[[a t] [H1 H2]]|[[t x] [H1 H2]]].
  - rewrite (sys_step_lock _ _ _ _ H1). cbn [fst ptok].
    destruct (lock_step (owner s) a t) as [o' r]. cbn [snd].
    destruct o as [p u|p c|p|p|p y|a' t'|t' y]; cbn [proxy_after]; auto.
    + destruct (reply_is_tok r u); cbn [fst]; auto. unfold upd.
      destruct (Nat.eqb q p) eqn:E; auto. apply Nat.eqb_eq in E; subst. right; right. eauto.
    + destruct (reply_is_none r); cbn [fst]; auto. unfold upd. destruct (Nat.eqb q p); auto.
    + destruct (reply_is_none r); cbn [fst]; auto. unfold upd. destruct (Nat.eqb q p); auto.
  - rewrite (sys_step_call _ _ _ _ H2). destruct (method_gate (owner s) t); auto.
Qed.

(* ---------------------------------------------------------------------------------------------- *)
(* histories                                                                                      *)
(* ---------------------------------------------------------------------------------------------- *)
Lemma sys_run_cons s o r :
  sys_run s (o :: r) = (fst (sys_run (fst (sys_step s o)) r),
                        snd (sys_step s o) :: snd (sys_run (fst (sys_step s o)) r)).
Proof. simpl. destruct (sys_step s o) as [s1 x]. simpl. destruct (sys_run s1 r). reflexivity. Qed.

(* every request of every history gets exactly one answer *)
Lemma run_answers ops : forall s, length (snd (sys_run s ops)) = length ops.
Proof.
  induction ops as [|o r IH]; intro s; [reflexivity|].
  rewrite sys_run_cons. simpl. rewrite IH. reflexivity.
Qed.

(* the request [o], sent in state [s], is allowed to take the lock away from [t] *)
Definition releases (s : sys) (o : op) (t : token) : Prop :=
  match req_of s o with
  | Some (Release, Some u) => u = t
  | Some (ForceRelease, _) => True
  | _ => False
  end.

Fixpoint no_release (s : sys) (ops : list op) (t : token) : Prop :=
  match ops with
  | [] => True
  | o :: r => ~ releases s o t /\ no_release (fst (sys_step s o)) r t
  end.

Lemma owner_stable s o t :
  owner s = Some t -> ~ releases s o t -> owner (fst (sys_step s o)) = Some t.
Proof.
  intros Ho Hn. rewrite sys_owner_after. unfold releases in Hn.
  destruct (req_of s o) as [[a u]|]; [|assumption].
  rewrite Ho. destruct a; simpl.
  - destruct u as [u|]; [|reflexivity]. destruct (token_eqb t u); reflexivity.
  - destruct (otoken_eqb (Some t) u) eqn:E; [|reflexivity].
    apply otoken_eqb_eq in E. subst u. exfalso. apply Hn. reflexivity.
  - exfalso. apply Hn. exact I.
  - reflexivity.
Qed.

Lemma held_until_released ops : forall s t,
  owner s = Some t -> no_release s ops t ->
  owner (fst (sys_run s ops)) = Some t /\ Forall (fun e => fst e = Some t) (executed s ops).
Proof.
  induction ops as [|o r IH]; intros s t Ho Hn.
  - simpl. auto.
  - destruct Hn as [Hn1 Hn2]. rewrite sys_run_cons. cbn [fst].
    pose proof (owner_stable s o t Ho Hn1) as Ho1.
    destruct (IH _ _ Ho1 Hn2) as [IH1 IH2]. split; [exact IH1|].
    cbn [executed]. destruct (call_of s o) as [[u x]|]; [|exact IH2].
    destruct (method_gate (owner s) u) eqn:G; [|exact IH2].
    constructor; [|exact IH2]. simpl. rewrite Ho in G. simpl in G.
    apply otoken_eqb_eq in G. congruence.
Qed.

(* the log holds exactly the calls that passed the gate: refused requests execute nothing *)
Lemma log_is_executed ops : forall s,
  log (fst (sys_run s ops)) = log s ++ map snd (executed s ops).
Proof.
  induction ops as [|o r IH]; intro s.
  - simpl. rewrite app_nil_r. reflexivity.
  - rewrite sys_run_cons. cbn [fst]. rewrite IH. cbn [executed].
    destruct (req_call_excl s o) as [[[a t] [H1 H2]]|[[t x] [H1 H2]]]; rewrite H2.
    + rewrite (lock_req_keeps_log _ _ _ _ H1). reflexivity.
    + rewrite (sys_step_call _ _ _ _ H2). destruct (method_gate (owner s) t); cbn [fst log map snd].
      * rewrite <- app_assoc. reflexivity.
      * reflexivity.
Qed.

(* tokens carried by the ACQUIRE requests of a history *)
Fixpoint acquired (s : sys) (ops : list op) : list token :=
  match ops with
  | [] => []
  | o :: r =>
      match req_of s o with
      | Some (Acquire, Some u) => u :: acquired (fst (sys_step s o)) r
      | _ => acquired (fst (sys_step s o)) r
      end
  end.

(* the owner is never invented: it is the initial one or a token some lock request carried *)
Lemma owner_from_request ops : forall s t,
  owner (fst (sys_run s ops)) = Some t -> owner s = Some t \/ In t (acquired s ops).
Proof.
  induction ops as [|o r IH]; intros s t H.
  - simpl in H. auto.
  - rewrite sys_run_cons in H. cbn [fst] in H. apply IH in H. cbn [acquired].
    destruct H as [H|H].
    + rewrite sys_owner_after in H.
      destruct (req_of s o) as [[a u]|] eqn:R; [|auto].
      pose proof (lock_owner_change (owner s) a u) as C.
      destruct (lock_step (owner s) a u) as [o' r'] eqn:E. simpl in H. subst o'.
      specialize (C _ _ eq_refl).
      destruct C as [[C _]|[C|[C|C]]].
      * left. congruence.
      * destruct C as [_ [Ha [v [Hv [Hv' _]]]]]. subst a u. inversion Hv'; subst. right. left. reflexivity.
      * destruct C as [C _]. discriminate.
      * destruct C as [C _]. discriminate.
    + right. destruct (req_of s o) as [[[| | |] [u|]]|]; simpl; auto.
Qed.

Lemma owner_from_request_init ops t :
  owner (fst (sys_run init_sys ops)) = Some t -> In t (acquired init_sys ops).
Proof.
  intro H. destruct (owner_from_request ops init_sys t H) as [E|E]; [discriminate E | exact E].
Qed.

(* ---------------------------------------------------------------------------------------------- *)
(* token source                                                                                   *)
(* ---------------------------------------------------------------------------------------------- *)
Lemma gen_token_injective c1 n1 c2 n2 :
  gen_token c1 n1 = gen_token c2 n2 <-> cname c1 = cname c2 /\ nonce c1 = nonce c2 /\ n1 = n2.
Proof.
  unfold gen_token. split.
  - intro H. inversion H. auto.
  - intros [H1 [H2 H3]]. rewrite H1, H2, H3. reflexivity.
Qed.

Lemma gen_token_distinct c1 n1 c2 n2 :
  (cname c1 <> cname c2 \/ nonce c1 <> nonce c2 \/ n1 <> n2) -> gen_token c1 n1 <> gen_token c2 n2.
Proof.
  intros H E. apply gen_token_injective in E. destruct E as [E1 [E2 E3]].
  destruct H as [H|[H|H]]; contradiction.
Qed.

(* same-named instances: a token can only differ through the nonce or the counter value; in particular
   their FIRST tokens (both counters at 1) are equal exactly when the nonces are *)
Lemma gen_token_same_name c1 c2 n1 n2 :
  cname c1 = cname c2 -> (gen_token c1 n1 = gen_token c2 n2 <-> nonce c1 = nonce c2 /\ n1 = n2).
Proof. intro Hn. rewrite gen_token_injective. tauto. Qed.

Lemma gen_token_impl_collides :
  exists c1 c2 n, iid c1 <> iid c2 /\ gen_token_impl c1 n = gen_token_impl c2 n.
Proof. exists (mkCtx 1 1 7), (mkCtx 2 2 7), 1%N. split; [discriminate | reflexivity]. Qed.

(* the hypothesis about the constructor's nonces: among the instances the proxies live in, two with the
   same name and the same nonce are the same instance (i.e. same-named distinct instances have
   distinct nonces) *)
Definition nonces_ok (cfg : nat -> ctxinst) : Prop :=
  forall p q, cname (cfg p) = cname (cfg q) -> nonce (cfg p) = nonce (cfg q) -> iid (cfg p) = iid (cfg q).

(* ---------------------------------------------------------------------------------------------- *)
(* client programs with automatic tokens                                                          *)
(* ---------------------------------------------------------------------------------------------- *)
Definition sop_of (gen : ctxinst -> N -> token) (cfg : nat -> ctxinst) (s : pst) (o : pop) : op :=
  match o with
  | PLock p None => OLock p (gen (cfg p) (N.succ (ctr s (iid (cfg p)))))
  | PLock p (Some u) => OLock p (cname (cfg p), TCustom u)
  | PUnlock p None => OUnlock p None
  | PUnlock p (Some u) => OUnlock p (Some (cname (cfg p), TCustom u))
  | PForce p => OForce p
  | PIsLocked p => OIsLocked p
  | PCall p y => OCall p y
  end.

Definition ctr_after (cfg : nat -> ctxinst) (s : pst) (o : pop) : N -> N :=
  match o with
  | PLock p None => updN (ctr s) (iid (cfg p)) (N.succ (ctr s (iid (cfg p))))
  | _ => ctr s
  end.

Lemma pstep_eq gen cfg s o :
  pstep gen cfg s o = (mkP (fst (sys_step (psys s) (sop_of gen cfg s o))) (ctr_after cfg s o),
                       snd (sys_step (psys s) (sop_of gen cfg s o))).
Proof.
  destruct o as [p [u|]|p [u|]|p|p|p y]; cbn [pstep sop_of ctr_after];
    match goal with |- context [sys_step ?a ?b] => destruct (sys_step a b) end; reflexivity.
Qed.

Lemma prun_cons gen cfg s o r :
  prun gen cfg s (o :: r) = (fst (prun gen cfg (fst (pstep gen cfg s o)) r),
                             snd (pstep gen cfg s o) :: snd (prun gen cfg (fst (pstep gen cfg s o)) r)).
Proof. simpl. destruct (pstep gen cfg s o) as [s1 x]. simpl. destruct (prun gen cfg s1 r). reflexivity. Qed.

Lemma ctr_after_mono cfg s o i : (ctr s i <= ctr_after cfg s o i)%N.
Proof.
  destruct o as [p [u|]|p c|p|p|p y]; simpl; try lia.
  unfold updN. destruct (N.eqb i (iid (cfg p))) eqn:E; [apply N.eqb_eq in E; subst|]; lia.
Qed.

(* invariant: every remembered automatic token was generated by an instance of cfg and lies below that
   instance's counter; no two proxies remember the same automatic token *)
Record PInv (cfg : nat -> ctxinst) (s : pst) : Prop := {
  pi_below : forall p t, ptok (psys s) p = Some t -> is_auto t = true ->
               exists r n, t = gen_token (cfg r) n /\ (n <= ctr s (iid (cfg r)))%N;
  pi_uniq  : forall p q t, p <> q -> ptok (psys s) p = Some t -> is_auto t = true ->
                           ptok (psys s) q <> Some t
}.

Lemma init_pinv cfg : PInv cfg init_pst.
Proof. constructor; simpl; intros; discriminate. Qed.

Lemma sop_lock_shape cfg s o q t :
  sop_of gen_token cfg s o = OLock q t ->
  (t = gen_token (cfg q) (N.succ (ctr s (iid (cfg q)))) /\ o = PLock q None)
  \/ (is_auto t = false /\ ctr_after cfg s o = ctr s).
Proof.
  destruct o as [p [u|]|p [u|]|p|p|p y]; simpl; intro H; inversion H; subst; auto.
Qed.

(* a remembered automatic token can never be the one instance c generates next *)
Lemma fresh_not_remembered cfg s p q :
  nonces_ok cfg -> PInv cfg s ->
  ptok (psys s) p <> Some (gen_token (cfg q) (N.succ (ctr s (iid (cfg q))))).
Proof.
  intros Hn [Hb _] H. destruct (Hb p _ H eq_refl) as [r [n [E L]]].
  apply gen_token_injective in E. destruct E as [E1 [E2 E3]].
  assert (Hi : iid (cfg q) = iid (cfg r)) by (apply Hn; assumption).
  rewrite <- Hi in L. lia.
Qed.

Lemma pstep_pinv cfg s o : nonces_ok cfg -> PInv cfg s -> PInv cfg (fst (pstep gen_token cfg s o)).
Proof.
  intros Hn Hinv. pose proof Hinv as [Hb Hu]. rewrite pstep_eq. cbn [fst].
  set (so := sop_of gen_token cfg s o).
  assert (Hb' : forall p t, ptok (fst (sys_step (psys s) so)) p = Some t -> is_auto t = true ->
             exists r n, t = gen_token (cfg r) n /\ (n <= ctr_after cfg s o (iid (cfg r)))%N).
  { intros p t H Ha.
    destruct (ptok_after (psys s) so p) as [E|[E|[t' [E1 E2]]]].
    - rewrite E in H. destruct (Hb p t H Ha) as [r [n [Et L]]]. exists r, n. split; [exact Et|].
      pose proof (ctr_after_mono cfg s o (iid (cfg r))). lia.
    - rewrite E in H. discriminate.
    - rewrite E2 in H. inversion H; subst t'. unfold so in E1.
      apply sop_lock_shape in E1. destruct E1 as [[E1 E3]|[E1 _]]; [|congruence].
      subst o t. exists p, (N.succ (ctr s (iid (cfg p)))). split; [reflexivity|].
      cbn [ctr_after]. unfold updN. rewrite N.eqb_refl. lia. }
  constructor; cbn [psys ctr]; [exact Hb'|].
  intros p q t Hpq Hp Ha Hq.
  destruct (ptok_after (psys s) so p) as [Ep|[Ep|[tp [Ep1 Ep2]]]];
    destruct (ptok_after (psys s) so q) as [Eq|[Eq|[tq [Eq1 Eq2]]]];
    try (rewrite Ep in Hp; discriminate); try (rewrite Eq in Hq; discriminate).
  - rewrite Ep in Hp. rewrite Eq in Hq. exact (Hu p q t Hpq Hp Ha Hq).
  - (* q just locked with a fresh token that p already remembers: impossible *)
    rewrite Ep in Hp. rewrite Eq2 in Hq. inversion Hq; subst tq. unfold so in Eq1.
    apply sop_lock_shape in Eq1. destruct Eq1 as [[E1 _]|[E1 _]]; [|congruence].
    subst t. exact (fresh_not_remembered cfg s p q Hn Hinv Hp).
  - rewrite Ep2 in Hp. inversion Hp; subst tp. rewrite Eq in Hq. unfold so in Ep1.
    apply sop_lock_shape in Ep1. destruct Ep1 as [[E1 _]|[E1 _]]; [|congruence].
    subst t. exact (fresh_not_remembered cfg s q p Hn Hinv Hq).
  - rewrite Ep1 in Eq1. inversion Eq1. contradiction.
Qed.

Lemma prun_pinv cfg ops : nonces_ok cfg ->
  forall s, PInv cfg s -> PInv cfg (fst (prun gen_token cfg s ops)).
Proof.
  intro Hn. induction ops as [|o r IH]; intros s H; [exact H|].
  rewrite prun_cons. cbn [fst]. apply IH. apply pstep_pinv; assumption.
Qed.

Lemma auto_tokens_unique cfg ops p q t :
  nonces_ok cfg ->
  let s := fst (prun gen_token cfg init_pst ops) in
  p <> q -> ptok (psys s) p = Some t -> is_auto t = true -> ptok (psys s) q <> Some t.
Proof.
  intro Hn. cbv zeta. exact (pi_uniq _ _ (prun_pinv cfg ops Hn init_pst (init_pinv cfg)) p q t).
Qed.

(* while an automatic token owns the object, calls through every OTHER proxy are refused *)
Lemma auto_lock_exclusive cfg ops p q t x :
  nonces_ok cfg ->
  let s := fst (prun gen_token cfg init_pst ops) in
  owner (psys s) = Some t -> is_auto t = true -> ptok (psys s) p = Some t -> q <> p ->
  pstep gen_token cfg s (PCall q x) = (s, OutExec false).
Proof.
  intro Hn. cbv zeta. intros Ho Ha Hp Hq.
  pose proof (prun_pinv cfg ops Hn init_pst (init_pinv cfg)) as [_ Hu].
  set (s := fst (prun gen_token cfg init_pst ops)) in *.
  assert (Hne : ptok (psys s) q <> Some t) by (apply (Hu p q t); auto).
  rewrite pstep_eq. cbn [sop_of].
  assert (G : method_gate (owner (psys s)) (ptok (psys s) q) = false).
  { rewrite Ho. simpl. apply otoken_eqb_neq. congruence. }
  rewrite (call_refused (psys s) (OCall q x) (ptok (psys s) q) x eq_refl G). simpl.
  destruct s; reflexivity.
Qed.

(* all tokens generated during a history are pairwise different *)
Fixpoint generated (gen : ctxinst -> N -> token) (cfg : nat -> ctxinst) (s : pst) (ops : list pop)
  : list token :=
  match ops with
  | [] => []
  | o :: r =>
      let s1 := fst (pstep gen cfg s o) in
      match o with
      | PLock p None => gen (cfg p) (N.succ (ctr s (iid (cfg p)))) :: generated gen cfg s1 r
      | _ => generated gen cfg s1 r
      end
  end.

Lemma generated_above cfg ops : forall s t,
  In t (generated gen_token cfg s ops) ->
  exists r n, t = gen_token (cfg r) n /\ (ctr s (iid (cfg r)) < n)%N.
Proof.
  induction ops as [|o r IH]; intros s t H; [contradiction|].
  cbn [generated] in H.
  assert (Hrest : In t (generated gen_token cfg (fst (pstep gen_token cfg s o)) r) ->
                  exists r' n, t = gen_token (cfg r') n /\ (ctr s (iid (cfg r')) < n)%N).
  { intro H'. apply IH in H'. destruct H' as [r' [n [E L]]]. exists r', n. split; [exact E|].
    rewrite pstep_eq in L. cbn [fst ctr] in L. pose proof (ctr_after_mono cfg s o (iid (cfg r'))). lia. }
  destruct o as [p [u|]|p c|p|p|p y]; auto.
  destruct H as [H|H]; auto.
  subst t. exists p, (N.succ (ctr s (iid (cfg p)))). split; [reflexivity|]. lia.
Qed.

Lemma generated_nodup cfg ops : nonces_ok cfg -> forall s, NoDup (generated gen_token cfg s ops).
Proof.
  intro Hn. induction ops as [|o r IH]; intro s; [constructor|].
  cbn [generated]. destruct o as [p [u|]|p c|p|p|p y]; auto.
  constructor; [|apply IH].
  intro H. apply generated_above in H. destruct H as [r' [n [E L]]].
  apply gen_token_injective in E. destruct E as [E1 [E2 E3]].
  assert (Hi : iid (cfg p) = iid (cfg r')) by (apply Hn; assumption).
  rewrite pstep_eq in L. cbn [fst ctr ctr_after] in L. unfold updN in L.
  rewrite <- Hi in L. rewrite N.eqb_refl in L. lia.
Qed.

(* token source of the tree BEFORE the repair: two same-named client contexts both obtain the lock *)
Lemma auto_lock_exclusive_refuted :
  exists cfg ops p q t,
    let s := fst (prun gen_token_impl cfg init_pst ops) in
    iid (cfg p) <> iid (cfg q) /\ p <> q /\
    owner (psys s) = Some t /\ is_auto t = true /\ ptok (psys s) p = Some t /\ ptok (psys s) q = Some t /\
    snd (prun gen_token_impl cfg init_pst ops) = [OutBool true; OutBool true] /\
    snd (pstep gen_token_impl cfg s (PCall p 1)) = OutExec true /\
    snd (pstep gen_token_impl cfg s (PCall q 2)) = OutExec true.
Proof.
  exists (cfg_of [mkCtx 1 1 7; mkCtx 2 2 7]), [PLock 0 None; PLock 1 None], 0, 1, (7%N, TAuto 0 1).
  vm_compute. repeat split; discriminate.
Qed.

(* the nonce hypothesis is NECESSARY, also for the repaired generator: two distinct same-named instances
   that drew the same nonce (e.g. from an equally seeded PRNG) both obtain the lock *)
Lemma equal_nonces_break_exclusion :
  exists cfg ops p q t,
    let s := fst (prun gen_token cfg init_pst ops) in
    iid (cfg p) <> iid (cfg q) /\ cname (cfg p) = cname (cfg q) /\ nonce (cfg p) = nonce (cfg q) /\ p <> q /\
    owner (psys s) = Some t /\ is_auto t = true /\ ptok (psys s) p = Some t /\ ptok (psys s) q = Some t /\
    snd (prun gen_token cfg init_pst ops) = [OutBool true; OutBool true] /\
    snd (pstep gen_token cfg s (PCall p 1)) = OutExec true /\
    snd (pstep gen_token cfg s (PCall q 2)) = OutExec true.
Proof.
  exists (cfg_of [mkCtx 1 5 7; mkCtx 2 5 7]), [PLock 0 None; PLock 1 None], 0, 1, (7%N, TAuto 5 1).
  vm_compute. repeat split; discriminate.
Qed.

(* the hypothesis is satisfiable: two same-named instances with different nonces *)
Lemma nonces_ok_example : nonces_ok (cfg_of [mkCtx 1 11 7; mkCtx 2 12 7]).
Proof.
  intros p q. unfold cfg_of.
  destruct p as [|[|[|p]]], q as [|[|[|q]]]; simpl; intros H1 H2; try reflexivity; discriminate.
Qed.

(* ---------------------------------------------------------------------------------------------- *)
(* reply delivery as an input of the worker loop                                                  *)
(* ---------------------------------------------------------------------------------------------- *)
Lemma worker_step_loss s rq d1 d2 :
  fst (worker_step s rq d1) = fst (worker_step s rq d2) /\
  fst (snd (worker_step s rq d1)) = fst (snd (worker_step s rq d2)).
Proof.
  destruct rq as [a t|t x]; simpl.
  - destruct (lock_step (w_owner s) a t); simpl. auto.
  - destruct (method_gate (w_owner s) t); simpl; auto.
Qed.

Lemma worker_run_cons s rq d r :
  worker_run s ((rq, d) :: r) =
  (fst (worker_run (fst (worker_step s rq d)) r),
   snd (worker_step s rq d) :: snd (worker_run (fst (worker_step s rq d)) r)).
Proof.
  simpl. destruct (worker_step s rq d) as [s1 x]. simpl. destruct (worker_run s1 r). reflexivity.
Qed.

(* two histories with the same requests and ANY delivery outcomes: same lock state, same log, same replies *)
Lemma worker_run_loss l1 : forall l2 s,
  map fst l1 = map fst l2 ->
  fst (worker_run s l1) = fst (worker_run s l2) /\
  map fst (snd (worker_run s l1)) = map fst (snd (worker_run s l2)).
Proof.
  induction l1 as [|[rq d1] r1 IH]; intros [|[rq2 d2] r2] s H; simpl in H; try discriminate.
  - simpl. auto.
  - inversion H; subst rq2. rewrite !worker_run_cons. cbn [fst snd map].
    destruct (worker_step_loss s rq d1 d2) as [E1 E2]. rewrite E1.
    destruct (IH r2 (fst (worker_step s rq d2)) H2) as [I1 I2].
    split; [exact I1|]. rewrite E2, I2. reflexivity.
Qed.

(* the worker loop is the lock machine and the gate, nothing else *)
Lemma worker_step_spec s rq d :
  worker_step s rq d =
  match rq with
  | RqLock a t => (mkW (fst (lock_step (w_owner s) a t)) (w_log s), (WLock (snd (lock_step (w_owner s) a t)), d))
  | RqCall t x => if method_gate (w_owner s) t
                  then (mkW (w_owner s) (w_log s ++ [x]), (WExec true, d)) else (s, (WExec false, d))
  end.
Proof. destruct rq as [a t|t x]; simpl; [destruct (lock_step (w_owner s) a t)|]; reflexivity. Qed.

(* proxies: a lost reply changes neither owner nor log; the proxy remembers what it remembered *)
Lemma sys_step_d_loss s o d :
  owner (fst (sys_step_d s o d)) = owner (fst (sys_step s o)) /\
  log (fst (sys_step_d s o d)) = log (fst (sys_step s o)) /\
  (d = true -> sys_step_d s o d = (fst (sys_step s o), Some (snd (sys_step s o)))) /\
  (d = false -> ptok (fst (sys_step_d s o d)) = ptok s /\ snd (sys_step_d s o d) = None).
Proof.
  unfold sys_step_d. destruct (sys_step s o) as [s1 x]. destruct d; simpl; repeat split; auto; discriminate.
Qed.

Lemma sys_run_d_cons s o d r :
  sys_run_d s ((o, d) :: r) =
  (fst (sys_run_d (fst (sys_step_d s o d)) r),
   snd (sys_step_d s o d) :: snd (sys_run_d (fst (sys_step_d s o d)) r)).
Proof.
  simpl. destruct (sys_step_d s o d) as [s1 x]. simpl. destruct (sys_run_d s1 r). reflexivity.
Qed.

Fixpoint no_release_d (s : sys) (l : list (op * bool)) (t : token) : Prop :=
  match l with
  | [] => True
  | (o, d) :: r => ~ releases s o t /\ no_release_d (fst (sys_step_d s o d)) r t
  end.

Fixpoint executed_d (s : sys) (l : list (op * bool)) : list (option token * N) :=
  match l with
  | [] => []
  | (o, d) :: r =>
      let s1 := fst (sys_step_d s o d) in
      match call_of s o with
      | Some (t, x) => if method_gate (owner s) t then (t, x) :: executed_d s1 r else executed_d s1 r
      | None => executed_d s1 r
      end
  end.

(* held until released, whatever replies get lost on the way *)
Lemma held_until_released_d l : forall s t,
  owner s = Some t -> no_release_d s l t ->
  owner (fst (sys_run_d s l)) = Some t /\ Forall (fun e => fst e = Some t) (executed_d s l).
Proof.
  induction l as [|[o d] r IH]; intros s t Ho Hn.
  - simpl. auto.
  - destruct Hn as [Hn1 Hn2]. rewrite sys_run_d_cons. cbn [fst].
    assert (Ho1 : owner (fst (sys_step_d s o d)) = Some t).
    { destruct (sys_step_d_loss s o d) as [E _]. rewrite E. apply owner_stable; assumption. }
    destruct (IH _ _ Ho1 Hn2) as [IH1 IH2]. split; [exact IH1|].
    cbn [executed_d]. destruct (call_of s o) as [[u x]|]; [|exact IH2].
    destruct (method_gate (owner s) u) eqn:G; [|exact IH2].
    constructor; [|exact IH2]. simpl. rewrite Ho in G. simpl in G.
    apply otoken_eqb_eq in G. congruence.
Qed.

(* lock(timeout): what it reports is the truth at the moment it returns *)
Lemma lock_retry_truth gaps : forall s p t,
  (snd (lock_retry s p t gaps) = true <-> owner (fst (lock_retry s p t gaps)) = Some t) /\
  (snd (lock_retry s p t gaps) = true -> ptok (fst (lock_retry s p t gaps)) p = Some t).
Proof.
  induction gaps as [|g r IH]; intros s p t; cbn [lock_retry];
    destruct (lock_view s p t) as [b [Hb [Hiff [Hp _]]]]; rewrite Hb; destruct b; cbn [fst snd].
  - split; [split; intro; [apply Hiff; reflexivity | reflexivity] | intro; apply Hp; reflexivity].
  - split; [split; intro H; [discriminate | apply Hiff in H; discriminate] | discriminate].
  - split; [split; intro; [apply Hiff; reflexivity | reflexivity] | intro; apply Hp; reflexivity].
  - apply IH.
Qed.
