(* C04 correspondence: compare the model with what was observed on the real code
   (_RpcThread._handle_lock_rpc_request / _handle_method_rpc_request driven directly, real QMI_RpcProxy
   objects over a synchronous stub context or over real QMI_Context instances, QMI_Context.make_unique_token). *)
Require Export QV.Lib.Corr QV.C04.Model.

Definition reply_eqb (a b : reply) : bool :=
  match a, b with
  | RTok x, RTok y => token_eqb x y
  | RNone, RNone => true
  | RDenied, RDenied => true
  | RLocked, RLocked => true
  | _, _ => false
  end.

Definition out_eqb (a b : out) : bool :=
  match a, b with
  | OutBool x, OutBool y => Bool.eqb x y
  | OutUnit, OutUnit => true
  | OutExec x, OutExec y => Bool.eqb x y
  | OutReply x, OutReply y => reply_eqb x y
  | _, _ => false
  end.

Definition wreply_eqb (a b : wreply) : bool :=
  match a, b with
  | WLock x, WLock y => reply_eqb x y
  | WExec x, WExec y => Bool.eqb x y
  | _, _ => false
  end.

Inductive case :=
| CStep (o : option token) (a : action) (t : option token) (obs : option (option token * reply))
    (* one lock request handled in lock state o; obs = None: no reply was produced (the handler raised) *)
| CGate (o : option token) (t : option token) (ran : bool) (o_after : option token)
    (* one method request in lock state o carrying token t *)
| CHist (ops : list op) (outs : list out) (final_owner : option token) (final_log : list N)
        (final_ptok : list (option token))
    (* a history of proxy operations / raw requests with the tokens actually used; final_ptok = the token
       remembered by proxy 0, 1, ... at the end *)
| CProg (cfg : list ctxinst) (ops : list pop) (outs : list out)
    (* a client-program history with automatic tokens; cfg = context instance of every proxy *)
| CTok (calls : list ctxinst) (obs : list N)
    (* make_unique_token called once per entry (on that instance); obs = canonical ids of the results:
       equal ids <-> equal descriptors.  The equality pattern must be the model's. *)
| CWork (l : list (request * bool)) (obs : list wreply) (final_owner : option token) (final_log : list N).
    (* requests pushed through the real _RpcThread.run loop; the bool says whether the stub context delivered
       the reply (false: send_message raised QMI_MessageDeliveryException); obs = replies handed to the context *)

(* tokens the model generates for a sequence of make_unique_token calls *)
Fixpoint gen_seq (ctr : N -> N) (calls : list ctxinst) : list token :=
  match calls with
  | [] => []
  | c :: r => let n := N.succ (ctr (iid c)) in gen_token c n :: gen_seq (updN ctr (iid c) n) r
  end.

Fixpoint pattern_eqb (mt : list token) (obs : list N) : bool :=
  match mt, obs with
  | [], [] => true
  | t :: mt', x :: obs' =>
      list_eqb Bool.eqb (map (token_eqb t) mt') (map (N.eqb x) obs') && pattern_eqb mt' obs'
  | _, _ => false
  end.

Inductive mres :=
| MStep (x : option token * reply)
| MGate (ran : bool)
| MHist (outs : list out) (o : option token) (lg : list N) (pt : list (option token))
| MProg (outs : list out)
| MTok (l : list token)
| MWork (replies : list wreply) (o : option token) (lg : list N).

Definition model_out (c : case) : mres :=
  match c with
  | CStep o a t _ => MStep (lock_step o a t)
  | CGate o t _ _ => MGate (method_gate o t)
  | CHist ops _ _ _ fp => let r := sys_run init_sys ops in
      MHist (snd r) (owner (fst r)) (log (fst r)) (map (ptok (fst r)) (seq 0 (length fp)))
  | CProg cfg ops _ => MProg (snd (prun gen_token (cfg_of cfg) init_pst ops))
  | CTok calls _ => MTok (gen_seq (fun _ => 0%N) calls)
  | CWork l _ _ _ => let r := worker_run init_wst l in
      MWork (map fst (snd r)) (w_owner (fst r)) (w_log (fst r))
  end.

Definition check_case (c : case) : bool :=
  match c with
  | CStep o a t obs =>
      match obs with
      | None => false      (* the model always replies *)
      | Some (o', r) => otoken_eqb (fst (lock_step o a t)) o' && reply_eqb (snd (lock_step o a t)) r
      end
  | CGate o t ran o' => Bool.eqb (method_gate o t) ran && otoken_eqb o o'
  | CHist ops outs fo fl fp =>
      let r := sys_run init_sys ops in
      list_eqb out_eqb (snd r) outs && otoken_eqb (owner (fst r)) fo && list_eqb N.eqb (log (fst r)) fl
      && list_eqb otoken_eqb (map (ptok (fst r)) (seq 0 (length fp))) fp
  | CProg cfg ops outs => list_eqb out_eqb (snd (prun gen_token (cfg_of cfg) init_pst ops)) outs
  | CTok calls obs => pattern_eqb (gen_seq (fun _ => 0%N) calls) obs
  | CWork l obs fo fl =>
      let r := worker_run init_wst l in
      list_eqb wreply_eqb (map fst (snd r)) obs && otoken_eqb (w_owner (fst r)) fo
      && list_eqb N.eqb (w_log (fst r)) fl
  end.

(* same checks against the faithful transcription of the CURRENT tree (used only to explain a
   disagreement in the replay output; never to accept one) *)
Definition check_case_impl (c : case) : bool :=
  match c with
  | CStep o a t obs =>
      match lock_step_impl o a t, obs with
      | None, None => true
      | Some (o1, r1), Some (o', r) => otoken_eqb o1 o' && reply_eqb r1 r
      | _, _ => false
      end
  | CProg cfg ops outs => list_eqb out_eqb (snd (prun gen_token_impl (cfg_of cfg) init_pst ops)) outs
  | _ => check_case c
  end.
