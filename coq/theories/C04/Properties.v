(* C04 — property theorems only.  Each is closed by [exact] of a lemma of Proofs.v and followed by
   Print Assumptions.  [lock_step] / [method_gate] / [sys_step] / [pstep] are the very functions the
   correspondence check evaluates against qmi.core.rpc._RpcThread and QMI_RpcProxy.  Statements about
   one step hold in EVERY state (so along every history); statements about histories are by induction
   over unbounded operation lists, any number of proxies, any tokens.

   [reply_ok], [releases], [no_release], [acquired], [generated], [PInv] are defined in Proofs.v:
     reply_ok a t r   : r is a legal answer to action a carrying token t
     releases s o t   : operation o, issued in state s, sends RELEASE with token t or FORCE_RELEASE
     no_release s l t : no operation of history l (run from s) does so
     acquired s l     : tokens carried by the ACQUIRE requests of history l
     generated g c s l: tokens produced by the automatic lock() calls of client history l *)
Require Import QV.C04.Model QV.C04.Proofs.

(* ---- cannot hang or disable the object ------------------------------------------------------ *)
(* every lock request, in every lock state, with every token (or none), gets a well-formed reply *)
Theorem C04_total : forall o a t, exists o' r, lock_step o a t = (o', r) /\ reply_ok a t r.
Proof. exact lock_total. Qed.
Print Assumptions C04_total.

(* ... and every request of every history is answered (one output per request) *)
Theorem C04_total_history : forall ops s, length (snd (sys_run s ops)) = length ops.
Proof. exact (fun ops s => run_answers ops s). Qed.
Print Assumptions C04_total_history.

(* FALSE of the faithful transcription of the current tree: FORCE_RELEASE on an unlocked object (and
   ACQUIRE without a token) has no reply path — the worker thread dies (DESIGN.md section 8, defect 1) *)
Theorem C04_total_refuted : exists o a t, lock_step_impl o a t = None.
Proof. exact lock_total_refuted. Qed.
Print Assumptions C04_total_refuted.

(* the faithful transcription differs from the model in exactly those requests *)
Theorem C04_impl_differs_only_by_crash : forall o a t,
  (lock_step_impl o a t = None <-> (a = Acquire /\ t = None) \/ (a = ForceRelease /\ o = None)) /\
  (forall x, lock_step_impl o a t = Some x -> x = lock_step o a t).
Proof. exact (fun o a t => conj (lock_impl_crashes o a t) (lock_impl_agrees o a t)). Qed.
Print Assumptions C04_impl_differs_only_by_crash.

(* ---- one owner at a time -------------------------------------------------------------------- *)
(* the owner changes only by acquire-when-free, release-by-owner, force-release *)
Theorem C04_mutex : forall o a t o' r,
  lock_step o a t = (o', r) ->
  (o' = o /\ (a = Acquire \/ a = Query \/ (a = Release /\ r = RDenied) \/ o = None))
  \/ (o = None /\ a = Acquire /\ (exists u, t = Some u /\ o' = Some u /\ r = RTok u))
  \/ (o' = None /\ a = Release /\ (exists w, o = Some w /\ t = Some w) /\ r = RNone)
  \/ (o' = None /\ a = ForceRelease /\ r = RNone).
Proof. exact lock_owner_change. Qed.
Print Assumptions C04_mutex.

(* a lock request with a different token is denied and changes nothing; so is a foreign unlock *)
Theorem C04_denied : forall w u t,
  (w <> u -> lock_step (Some w) Acquire (Some u) = (Some w, RDenied)) /\
  (t <> Some w -> lock_step (Some w) Release t = (Some w, RDenied)) /\
  lock_step (Some w) Acquire None = (Some w, RDenied).
Proof.
  exact (fun w u t => conj (acquire_other_denied w u)
                           (conj (release_other_denied w t) (acquire_notoken_denied (Some w)))).
Qed.
Print Assumptions C04_denied.

Theorem C04_granted : forall u t,
  lock_step None Acquire (Some u) = (Some u, RTok u) /\
  lock_step (Some u) Acquire (Some u) = (Some u, RTok u) /\
  lock_step (Some u) Release (Some u) = (None, RNone) /\
  lock_step None Release t = (None, RNone) /\
  (forall o, lock_step o ForceRelease t = (None, RNone)).
Proof.
  exact (fun u t => conj (acquire_free u) (conj (acquire_same u) (conj (release_owner u)
                    (conj (release_free t) (fun o => force_release o t))))).
Qed.
Print Assumptions C04_granted.

(* over every history: once t owns the object, and as long as nobody sends RELEASE-with-t or
   FORCE_RELEASE, t stays the owner and every method body that runs was called with t *)
Theorem C04_held_until_released : forall ops s t,
  owner s = Some t -> no_release s ops t ->
  owner (fst (sys_run s ops)) = Some t /\ Forall (fun e => fst e = Some t) (executed s ops).
Proof. exact held_until_released. Qed.
Print Assumptions C04_held_until_released.

(* the owner is never invented: it is a token carried by some earlier lock request *)
Theorem C04_owner_from_request : forall ops t,
  owner (fst (sys_run init_sys ops)) = Some t -> In t (acquired init_sys ops).
Proof. exact owner_from_request_init. Qed.
Print Assumptions C04_owner_from_request.

(* ---- an undeliverable reply changes nothing ----------------------------------------------------- *)
(* Reply delivery is an INPUT of the worker loop ([worker_step s rq deliverable], transcribing _RpcThread.run
   with its send-failure path).  Whatever the delivery outcomes of a history, the lock state, the execution
   log and the replies produced are the same: the owner changes only by the three events of C04_mutex, never
   because a requester vanished — not even a fresh grant to a vanished client is taken back (the property
   says "released only by an unlock carrying the owner's token or by force-unlock"). *)
Theorem C04_reply_loss_changes_nothing : forall l1 l2 s,
  map fst l1 = map fst l2 ->
  fst (worker_run s l1) = fst (worker_run s l2) /\
  map fst (snd (worker_run s l1)) = map fst (snd (worker_run s l2)).
Proof. exact worker_run_loss. Qed.
Print Assumptions C04_reply_loss_changes_nothing.

(* the worker loop is exactly the lock machine plus the gate; the delivery flag only says whether the
   requester receives the reply *)
Theorem C04_worker_is_lock_machine : forall s rq d,
  worker_step s rq d =
  match rq with
  | RqLock a t => (mkW (fst (lock_step (w_owner s) a t)) (w_log s), (WLock (snd (lock_step (w_owner s) a t)), d))
  | RqCall t x => if method_gate (w_owner s) t
                  then (mkW (w_owner s) (w_log s ++ [x]), (WExec true, d)) else (s, (WExec false, d))
  end.
Proof. exact worker_step_spec. Qed.
Print Assumptions C04_worker_is_lock_machine.

(* proxies: a lost reply leaves owner and log as if it had been delivered; only the proxy's own memory stays *)
Theorem C04_reply_loss_proxy : forall s o d,
  owner (fst (sys_step_d s o d)) = owner (fst (sys_step s o)) /\
  log (fst (sys_step_d s o d)) = log (fst (sys_step s o)) /\
  (d = true -> sys_step_d s o d = (fst (sys_step s o), Some (snd (sys_step s o)))) /\
  (d = false -> ptok (fst (sys_step_d s o d)) = ptok s /\ snd (sys_step_d s o d) = None).
Proof. exact sys_step_d_loss. Qed.
Print Assumptions C04_reply_loss_proxy.

(* C04_held_until_released with lost replies anywhere in the history *)
Theorem C04_held_until_released_lossy : forall l s t,
  owner s = Some t -> no_release_d s l t ->
  owner (fst (sys_run_d s l)) = Some t /\ Forall (fun e => fst e = Some t) (executed_d s l).
Proof. exact held_until_released_d. Qed.
Print Assumptions C04_held_until_released_lossy.

(* ---- lock(timeout) reports the truth -------------------------------------------------------------- *)
(* [lock_retry s p t gaps]: lock(timeout>0) as a bounded retry of ACQUIRE with other proxies acting in
   between; every ACQUIRE it sends is answered before it returns, the result is the last answer.  Whatever
   happens in between: it reports True exactly when the object is owned by its token at that moment (and
   then the proxy remembers the token); after False the object is NOT owned by the token it asked with. *)
Theorem C04_lock_timeout_reports_truth : forall gaps s p t,
  (snd (lock_retry s p t gaps) = true <-> owner (fst (lock_retry s p t gaps)) = Some t) /\
  (snd (lock_retry s p t gaps) = true -> ptok (fst (lock_retry s p t gaps)) p = Some t).
Proof. exact lock_retry_truth. Qed.
Print Assumptions C04_lock_timeout_reports_truth.

(* ---- only the owner gets through ------------------------------------------------------------ *)
Theorem C04_gate : forall o t,
  method_gate o t = true <-> o = None \/ (exists w, o = Some w /\ t = Some w).
Proof. exact gate_iff. Qed.
Print Assumptions C04_gate.

(* a refused request executes nothing: the whole state, log included, is unchanged;
   an accepted one appends its payload and touches neither owner nor proxies *)
Theorem C04_gate_effect : forall s o t x,
  call_of s o = Some (t, x) ->
  (method_gate (owner s) t = false -> sys_step s o = (s, OutExec false)) /\
  (method_gate (owner s) t = true ->
     sys_step s o = (mkSys (owner s) (ptok s) (log s ++ [x]), OutExec true)).
Proof. exact (fun s o t x H => conj (call_refused s o t x H) (call_executed s o t x H)). Qed.
Print Assumptions C04_gate_effect.

(* over every history the execution log is exactly the calls that passed the gate *)
Theorem C04_log_is_executed : forall ops s,
  log (fst (sys_run s ops)) = log s ++ map snd (executed s ops).
Proof. exact log_is_executed. Qed.
Print Assumptions C04_log_is_executed.

(* ---- is_locked tells the truth -------------------------------------------------------------- *)
Theorem C04_query_truthful : forall s p,
  sys_step s (OIsLocked p) = (s, OutBool (match owner s with None => false | Some _ => true end)).
Proof. exact is_locked_truth. Qed.
Print Assumptions C04_query_truthful.

(* ---- what a proxy returns and remembers agrees with the object ------------------------------- *)
Theorem C04_proxy_view_lock : forall s p t,
  let s' := fst (sys_step s (OLock p t)) in
  exists b, snd (sys_step s (OLock p t)) = OutBool b /\
    (b = true <-> owner s' = Some t) /\
    (b = true -> ptok s' p = Some t) /\
    (b = false -> ptok s' p = ptok s p /\ owner s' = owner s) /\
    (forall q, q <> p -> ptok s' q = ptok s q) /\ log s' = log s.
Proof. exact lock_view. Qed.
Print Assumptions C04_proxy_view_lock.

Theorem C04_proxy_view_unlock : forall s p c,
  let s' := fst (sys_step s (OUnlock p c)) in
  exists b, snd (sys_step s (OUnlock p c)) = OutBool b /\
    (b = true <-> owner s' = None) /\
    (b = true -> ptok s' p = None) /\
    (b = false -> ptok s' p = ptok s p /\ owner s' = owner s) /\
    (forall q, q <> p -> ptok s' q = ptok s q) /\ log s' = log s.
Proof. exact unlock_view. Qed.
Print Assumptions C04_proxy_view_unlock.

Theorem C04_proxy_view_force : forall s p,
  let s' := fst (sys_step s (OForce p)) in
  snd (sys_step s (OForce p)) = OutUnit /\ owner s' = None /\ ptok s' p = None /\
  (forall q, q <> p -> ptok s' q = ptok s q) /\ log s' = log s.
Proof. exact force_view. Qed.
Print Assumptions C04_proxy_view_force.

(* ---- automatically generated tokens of different proxies differ ------------------------------ *)
(* A context instance is (iid, nonce, cname): iid = which QMI_Context object (it owns the counter and is
   invisible in tokens), nonce = the per-instance value drawn by the constructor (an INPUT of the
   generator), cname = the context name (client contexts may share it).
   [nonces_ok cfg] (Proofs.v) is the hypothesis about the constructor:
       forall p q, cname (cfg p) = cname (cfg q) -> nonce (cfg p) = nonce (cfg q) -> iid (cfg p) = iid (cfg q)
   i.e. two DISTINCT same-named instances never carry the same nonce.  It is not provable (the nonce is
   drawn outside the model, from the operating system's entropy source); the tie checks it against the
   real constructor, in particular with every other ambient source equalised (same PRNG seed, clock, pid,
   thread) for the instances compared. *)
Theorem C04_tokens_distinct : forall c1 n1 c2 n2,
  (cname c1 <> cname c2 \/ nonce c1 <> nonce c2 \/ n1 <> n2) -> gen_token c1 n1 <> gen_token c2 n2.
Proof. exact gen_token_distinct. Qed.
Print Assumptions C04_tokens_distinct.

(* same-named instances: tokens coincide exactly when nonce AND counter value coincide — so the first
   tokens of two same-named contexts (both counters at 1) differ iff their nonces differ *)
Theorem C04_tokens_same_name : forall c1 c2 n1 n2,
  cname c1 = cname c2 -> (gen_token c1 n1 = gen_token c2 n2 <-> nonce c1 = nonce c2 /\ n1 = n2).
Proof. exact gen_token_same_name. Qed.
Print Assumptions C04_tokens_same_name.

(* over every client history, any placement of proxies in context instances whose nonces are ok:
   all generated tokens are pairwise different *)
Theorem C04_generated_nodup : forall cfg ops s,
  nonces_ok cfg -> NoDup (generated gen_token cfg s ops).
Proof. exact (fun cfg ops s H => generated_nodup cfg ops H s). Qed.
Print Assumptions C04_generated_nodup.

(* ... no two proxies ever remember the same automatic token ... *)
Theorem C04_auto_tokens_unique : forall cfg ops p q t,
  nonces_ok cfg ->
  let s := fst (prun gen_token cfg init_pst ops) in
  p <> q -> ptok (psys s) p = Some t -> is_auto t = true -> ptok (psys s) q <> Some t.
Proof. exact auto_tokens_unique. Qed.
Print Assumptions C04_auto_tokens_unique.

(* ... hence while an automatic token owns the object, calls through every other proxy — same
   context, other context, other context with the same name — are refused and change nothing *)
Theorem C04_auto_lock_exclusive : forall cfg ops p q t x,
  nonces_ok cfg ->
  let s := fst (prun gen_token cfg init_pst ops) in
  owner (psys s) = Some t -> is_auto t = true -> ptok (psys s) p = Some t -> q <> p ->
  pstep gen_token cfg s (PCall q x) = (s, OutExec false).
Proof. exact auto_lock_exclusive. Qed.
Print Assumptions C04_auto_lock_exclusive.

(* the hypothesis is NECESSARY: two distinct same-named instances that drew the SAME nonce (e.g. from an
   equally seeded pseudo-random generator) both obtain the lock and both get their calls executed *)
Theorem C04_equal_nonces_refuted :
  exists cfg ops p q t,
    let s := fst (prun gen_token cfg init_pst ops) in
    iid (cfg p) <> iid (cfg q) /\ cname (cfg p) = cname (cfg q) /\ nonce (cfg p) = nonce (cfg q) /\ p <> q /\
    owner (psys s) = Some t /\ is_auto t = true /\ ptok (psys s) p = Some t /\ ptok (psys s) q = Some t /\
    snd (prun gen_token cfg init_pst ops) = [OutBool true; OutBool true] /\
    snd (pstep gen_token cfg s (PCall p 1)) = OutExec true /\
    snd (pstep gen_token cfg s (PCall q 2)) = OutExec true.
Proof. exact equal_nonces_break_exclusion. Qed.
Print Assumptions C04_equal_nonces_refuted.

(* FALSE of the faithful transcription of the tree BEFORE the repair (token = context NAME + counter,
   no nonce at all): DESIGN.md section 8, defect 2 *)
Theorem C04_tokens_distinct_refuted :
  exists c1 c2 n, iid c1 <> iid c2 /\ gen_token_impl c1 n = gen_token_impl c2 n.
Proof. exact gen_token_impl_collides. Qed.
Print Assumptions C04_tokens_distinct_refuted.

(* witness: two client contexts named 7, each proxy's first lock(): both granted, both get through *)
Theorem C04_auto_lock_exclusive_refuted :
  exists cfg ops p q t,
    let s := fst (prun gen_token_impl cfg init_pst ops) in
    iid (cfg p) <> iid (cfg q) /\ p <> q /\
    owner (psys s) = Some t /\ is_auto t = true /\ ptok (psys s) p = Some t /\ ptok (psys s) q = Some t /\
    snd (prun gen_token_impl cfg init_pst ops) = [OutBool true; OutBool true] /\
    snd (pstep gen_token_impl cfg s (PCall p 1)) = OutExec true /\
    snd (pstep gen_token_impl cfg s (PCall q 2)) = OutExec true.
Proof. exact auto_lock_exclusive_refuted. Qed.
Print Assumptions C04_auto_lock_exclusive_refuted.

(* ---- Non-vacuity: concrete histories ------------------------------------------------------------ *)
Definition tA : token := (1%N, TCustom 10).
Definition tB : token := (2%N, TCustom 11).

(* proxy 0 locks with A; proxy 1 is denied, its call refused, its unlock denied; proxy 0 gets through;
   proxy 1 force-unlocks; then everybody gets through *)
Example C04_example_outputs :
  snd (sys_run init_sys [OLock 0 tA; OLock 1 tB; OCall 1 5; OCall 0 6; OIsLocked 1; OUnlock 1 None;
                         OUnlock 1 (Some tB); OForce 1; OIsLocked 0; OCall 1 7; OUnlock 0 None]) =
  [OutBool true; OutBool false; OutExec false; OutExec true; OutBool true; OutBool false;
   OutBool false; OutUnit; OutBool false; OutExec true; OutBool true]
  /\ log (fst (sys_run init_sys [OLock 0 tA; OLock 1 tB; OCall 1 5; OCall 0 6; OForce 1; OCall 1 7])) = [6; 7]%N.
Proof. vm_compute. split; reflexivity. Qed.

(* hypotheses of C04_held_until_released are satisfiable with executed calls in the history *)
Example C04_example_held :
  let s := fst (sys_run init_sys [OLock 0 tA]) in
  owner s = Some tA /\
  no_release s [OLock 1 tB; OCall 1 5; OCall 0 6; OUnlock 1 None; OUnlock 1 (Some tB); OIsLocked 1] tA /\
  executed s [OLock 1 tB; OCall 1 5; OCall 0 6; OUnlock 1 None; OUnlock 1 (Some tB); OIsLocked 1]
    = [(Some tA, 6%N)].
Proof.
  vm_compute. repeat split; try (intro H; inversion H; fail); try (intro H; exact H).
Qed.

(* the nonce hypothesis is satisfiable by two same-named instances *)
Example C04_example_nonces_ok : nonces_ok (cfg_of [mkCtx 1 11 7; mkCtx 2 12 7]).
Proof. exact nonces_ok_example. Qed.

(* same-named client contexts (cname 7), distinct instances and nonces: the second automatic lock is denied *)
Example C04_example_same_name_clients :
  snd (prun gen_token (cfg_of [mkCtx 1 11 7; mkCtx 2 12 7]) init_pst
         [PLock 0 None; PLock 1 None; PCall 0 1; PCall 1 2; PUnlock 1 None; PUnlock 0 None; PLock 1 None; PCall 1 3])
  = [OutBool true; OutBool false; OutExec true; OutExec false; OutBool false; OutBool true; OutBool true; OutExec true].
Proof. vm_compute. reflexivity. Qed.

(* proxies 0 and 2 live in the same instance (shared counter), proxy 1 in a same-named other instance *)
Example C04_example_generated :
  generated gen_token (cfg_of [mkCtx 1 11 7; mkCtx 2 12 7; mkCtx 1 11 7]) init_pst [PLock 0 None; PLock 1 None; PLock 2 None]
  = [(7, TAuto 11 1); (7, TAuto 12 1); (7, TAuto 11 2)]%N.
Proof. vm_compute. reflexivity. Qed.

(* proxy 0 holds the lock with custom token A; proxy 1 (sharing A on purpose) re-acquires it but its reply is
   lost; proxy 2 still cannot get in, proxy 0 still can; nothing released the lock *)
Example C04_example_lost_idempotent_grant :
  let l := [(OLock 0 tA, true); (OLock 1 tA, false); (OIsLocked 2, true); (OLock 2 tB, true);
            (OCall 2 8, true); (OCall 0 9, true)] in
  snd (sys_run_d init_sys l) = [Some (OutBool true); None; Some (OutBool true); Some (OutBool false);
                                Some (OutExec false); Some (OutExec true)]
  /\ owner (fst (sys_run_d init_sys l)) = Some tA
  /\ no_release_d (fst (sys_run_d init_sys [(OLock 0 tA, true)]))
                  [(OLock 1 tA, false); (OIsLocked 2, true); (OLock 2 tB, true); (OCall 2 8, true)] tA.
Proof. vm_compute. repeat split; try (intro H; exact H). Qed.

(* lock(timeout) by proxy 1 while proxy 0 holds the lock and releases it during the second gap *)
Example C04_example_lock_retry :
  lock_retry (fst (sys_run init_sys [OLock 0 tA])) 1 tB [[OCall 0 1]; [OUnlock 0 None]; [OCall 0 2]] =
  (fst (sys_run init_sys [OLock 0 tA; OLock 1 tB; OCall 0 1; OLock 1 tB; OUnlock 0 None; OLock 1 tB]), true)
  /\ snd (lock_retry (fst (sys_run init_sys [OLock 0 tA])) 1 tB [[OCall 0 1]; [OCall 0 2]]) = false.
Proof. vm_compute. split; reflexivity. Qed.
