(* C04 — object lock of an RPC object: executable model, no proofs here.

   Transcribes, from /repo/qmi/core/rpc.py:
     _RpcThread._handle_lock_rpc_request      -> lock_step   (property-conforming: always replies)
                                                 lock_step_impl (faithful transcription of the current
                                                 tree: two request shapes have NO reply path — the worker
                                                 raises UnboundLocalError / ValueError and dies)
     _RpcThread._handle_method_rpc_request    -> method_gate (the token comparison before dispatch)
     _RpcThread.run (request loop, reply send and its failure path)
                                              -> worker_step / worker_run (reply delivery is an input)
     QMI_RpcProxy.lock / unlock / force_unlock / is_locked and the forwarding stubs
                                              -> req_of / sys_step (the request a proxy sends, and what it
                                                 remembers / returns given the reply)
   and from /repo/qmi/core/context.py:
     QMI_Context.make_unique_token            -> gen_token (name + per-instance nonce + counter; the nonce is
                                                 an input), gen_token_impl (tree before the repair: name + counter)

   A token is QMI_LockTokenDescriptor(context_id, token): a pair (context name, token string).  The code
   only ever compares tokens with == / is None, so names and custom strings are abstract numbers here. *)
From Coq Require Export List NArith Bool Arith.
Export ListNotations.

(* token string: automatically generated "$lock_..." (by instance [inst], counter value [n]) or a custom one *)
Inductive tstr := TAuto (inst n : N) | TCustom (s : N).
Definition token := (N * tstr)%type.

Definition tstr_eqb (a b : tstr) : bool :=
  match a, b with
  | TAuto i n, TAuto j m => N.eqb i j && N.eqb n m
  | TCustom s, TCustom t => N.eqb s t
  | _, _ => false
  end.
Definition token_eqb (a b : token) : bool := N.eqb (fst a) (fst b) && tstr_eqb (snd a) (snd b).
Definition otoken_eqb (a b : option token) : bool :=
  match a, b with
  | None, None => true
  | Some x, Some y => token_eqb x y
  | _, _ => false
  end.

(* ---------------------------------------------------------------------------------------------- *)
(* The lock machine run by the object's worker thread                                             *)
(* ---------------------------------------------------------------------------------------------- *)
Inductive action := Acquire | Release | ForceRelease | Query.

(* what the reply message carries in its lock_token field *)
Inductive reply :=
| RTok (t : token)   (* the owner's real token (== the requester's): lock granted / already held by it *)
| RNone              (* None: the object is unlocked after this request *)
| RDenied            (* (object's context, "__ACCESS_DENIED__") *)
| RLocked.           (* (object's context, "__OBJECT_LOCKED__") *)

(* lock_step owner action request_token = (owner afterwards, reply).  Always replies. *)
Definition lock_step (owner : option token) (a : action) (t : option token) : option token * reply :=
  match a with
  | Acquire =>
      match t with
      | None => (owner, RDenied)                     (* a lock request without a token is refused *)
      | Some rt =>
          match owner with
          | None => (Some rt, RTok rt)
          | Some o => if token_eqb o rt then (owner, RTok o) else (owner, RDenied)
          end
      end
  | Release =>
      match owner with
      | None => (None, RNone)
      | Some o => if otoken_eqb (Some o) t then (None, RNone) else (owner, RDenied)
      end
  | ForceRelease => (None, RNone)
  | Query =>
      match owner with
      | None => (owner, RNone)
      | Some _ => (owner, RLocked)
      end
  end.

(* Faithful transcription of the current tree: [None] = no reply is ever produced
   (FORCE_RELEASE on an unlocked object leaves return_token unbound -> UnboundLocalError;
    ACQUIRE with lock_token None falls through every branch -> ValueError; in both cases the
    exception leaves _RpcThread.run and the object is dead). *)
Definition lock_step_impl (owner : option token) (a : action) (t : option token)
  : option (option token * reply) :=
  match a, t, owner with
  | Acquire, None, _ => None
  | ForceRelease, _, None => None
  | _, _, _ => Some (lock_step owner a t)
  end.

(* _handle_method_rpc_request: the method body runs iff this is true *)
Definition method_gate (owner : option token) (t : option token) : bool :=
  match owner with
  | None => true
  | Some o => otoken_eqb (Some o) t
  end.

(* ---------------------------------------------------------------------------------------------- *)
(* Object + any number of proxies                                                                 *)
(* ---------------------------------------------------------------------------------------------- *)
Definition upd {A} (f : nat -> A) (p : nat) (v : A) : nat -> A :=
  fun q => if Nat.eqb q p then v else f q.

Record sys := mkSys {
  owner : option token;             (* _RpcThread._locking_token *)
  ptok  : nat -> option token;      (* QMI_RpcProxy._lock_token of proxy number p *)
  log   : list N                    (* payloads of the method bodies that ran, in order *)
}.

Definition init_sys : sys := mkSys None (fun _ => None) [].

Inductive op :=
| OLock (p : nat) (t : token)           (* proxy p: lock(...) with the descriptor t it built *)
| OUnlock (p : nat) (c : option token)  (* proxy p: unlock(lock_token=c); None = its remembered token *)
| OForce (p : nat)                      (* proxy p: force_unlock() *)
| OIsLocked (p : nat)                   (* proxy p: is_locked() *)
| OCall (p : nat) (x : N)               (* proxy p: an RPC method call with payload x *)
| ORawLock (a : action) (t : option token)   (* a lock request message not sent through a proxy *)
| ORawCall (t : option token) (x : N).       (* a method request message not sent through a proxy *)

Inductive out :=
| OutBool (b : bool)    (* lock / unlock / is_locked result *)
| OutUnit               (* force_unlock returns nothing *)
| OutExec (ran : bool)  (* method call: true = body ran and its value came back, false = "object is locked" error *)
| OutReply (r : reply). (* raw lock request: the reply token *)

(* the lock request message an operation sends (None: it is a method call) *)
Definition req_of (s : sys) (o : op) : option (action * option token) :=
  match o with
  | OLock _ t => Some (Acquire, Some t)
  | OUnlock p (Some c) => Some (Release, Some c)
  | OUnlock p None => Some (Release, ptok s p)
  | OForce p => Some (ForceRelease, ptok s p)
  | OIsLocked p => Some (Query, ptok s p)
  | ORawLock a t => Some (a, t)
  | OCall _ _ | ORawCall _ _ => None
  end.

(* the method request message an operation sends: (token carried, payload) *)
Definition call_of (s : sys) (o : op) : option (option token * N) :=
  match o with
  | OCall p x => Some (ptok s p, x)
  | ORawCall t x => Some (t, x)
  | _ => None
  end.

Definition reply_is_none (r : reply) : bool := match r with RNone => true | _ => false end.
Definition reply_is_tok (r : reply) (t : token) : bool :=
  match r with RTok u => token_eqb u t | _ => false end.

(* proxy-side bookkeeping: new remembered-token table and the value returned to the caller *)
Definition proxy_after (s : sys) (o : op) (r : reply) : (nat -> option token) * out :=
  match o with
  | OLock p t =>
      if reply_is_tok r t then (upd (ptok s) p (Some t), OutBool true) else (ptok s, OutBool false)
  | OUnlock p _ =>
      if reply_is_none r then (upd (ptok s) p None, OutBool true) else (ptok s, OutBool false)
  | OForce p =>
      if reply_is_none r then (upd (ptok s) p None, OutUnit) else (ptok s, OutUnit)
  | OIsLocked p => (ptok s, OutBool (negb (reply_is_none r)))
  | _ => (ptok s, OutReply r)
  end.

Definition sys_step (s : sys) (o : op) : sys * out :=
  match req_of s o with
  | Some (a, t) =>
      let '(o', r) := lock_step (owner s) a t in
      let '(pt, x) := proxy_after s o r in
      (mkSys o' pt (log s), x)
  | None =>
      match call_of s o with
      | Some (t, x) =>
          if method_gate (owner s) t
          then (mkSys (owner s) (ptok s) (log s ++ [x]), OutExec true)
          else (s, OutExec false)
      | None => (s, OutUnit)   (* unreachable: every op is a lock request or a call *)
      end
  end.

Fixpoint sys_run (s : sys) (ops : list op) : sys * list out :=
  match ops with
  | [] => (s, [])
  | o :: r => let '(s1, x) := sys_step s o in let '(s2, xs) := sys_run s1 r in (s2, x :: xs)
  end.

(* ghost: the method calls that ran during a history, with the token they carried *)
Fixpoint executed (s : sys) (ops : list op) : list (option token * N) :=
  match ops with
  | [] => []
  | o :: r =>
      let s1 := fst (sys_step s o) in
      match call_of s o with
      | Some (t, x) => if method_gate (owner s) t then (t, x) :: executed s1 r else executed s1 r
      | None => executed s1 r
      end
  end.

(* ---------------------------------------------------------------------------------------------- *)
(* The worker loop with reply delivery as an input                                                *)
(* ---------------------------------------------------------------------------------------------- *)
(* One iteration of _RpcThread.run: take a request, run the handler, hand the reply to the context.
   [deliverable] says whether send_message succeeded (false: QMI_MessageDeliveryException — the requester's
   context stopped or disconnected while its request was queued).  The loop only logs that failure: the
   reply is produced either way and the lock state, the log and every later request are unaffected; the
   third component of the result is whether the requester RECEIVES the reply. *)
Inductive request := RqLock (a : action) (t : option token) | RqCall (t : option token) (x : N).
Inductive wreply := WLock (r : reply) | WExec (ran : bool).
Record wst := mkW { w_owner : option token; w_log : list N }.
Definition init_wst : wst := mkW None [].

Definition worker_step (s : wst) (rq : request) (deliverable : bool) : wst * (wreply * bool) :=
  match rq with
  | RqLock a t =>
      let '(o', r) := lock_step (w_owner s) a t in (mkW o' (w_log s), (WLock r, deliverable))
  | RqCall t x =>
      if method_gate (w_owner s) t
      then (mkW (w_owner s) (w_log s ++ [x]), (WExec true, deliverable))
      else (s, (WExec false, deliverable))
  end.

Fixpoint worker_run (s : wst) (l : list (request * bool)) : wst * list (wreply * bool) :=
  match l with
  | [] => (s, [])
  | (rq, d) :: r =>
      let '(s1, x) := worker_step s rq d in
      let '(s2, xs) := worker_run s1 r in (s2, x :: xs)
  end.

(* the same input at the level of proxies: when the reply is lost the proxy does no bookkeeping (its call
   ends with a delivery error), the object has handled the request all the same *)
Definition sys_step_d (s : sys) (o : op) (deliverable : bool) : sys * option out :=
  let '(s1, x) := sys_step s o in
  if deliverable then (s1, Some x) else (mkSys (owner s1) (ptok s) (log s1), None).

Fixpoint sys_run_d (s : sys) (l : list (op * bool)) : sys * list (option out) :=
  match l with
  | [] => (s, [])
  | (o, d) :: r =>
      let '(s1, x) := sys_step_d s o d in
      let '(s2, xs) := sys_run_d s1 r in (s2, x :: xs)
  end.

(* QMI_RpcProxy.lock(timeout > 0): a bounded retry of the same ACQUIRE.  Every attempt is a complete
   request/reply exchange (the proxy waits for the reply to EVERY ACQUIRE it sent, however long the object is
   busy, before it looks at the clock again); between two attempts other proxies act ([gaps]); the result is
   the outcome of the LAST attempt.  No ACQUIRE of the call is still queued when lock() returns. *)
Fixpoint lock_retry (s : sys) (p : nat) (t : token) (gaps : list (list op)) {struct gaps} : sys * bool :=
  let s1 := fst (sys_step s (OLock p t)) in
  match snd (sys_step s (OLock p t)) with
  | OutBool true => (s1, true)
  | _ => match gaps with
         | [] => (s1, false)
         | g :: r => lock_retry (fst (sys_run s1 g)) p t r
         end
  end.

(* ---------------------------------------------------------------------------------------------- *)
(* Token source and client programs (automatic tokens)                                            *)
(* ---------------------------------------------------------------------------------------------- *)
(* a context INSTANCE (one QMI_Context object, in this or in another process):
     [iid]   which object it is — every instance has its own _unique_counters, so the counter is keyed by iid;
             iid is not visible in any token;
     [nonce] the per-instance value the constructor draws (QMI_Context._token_nonce) — an INPUT of the token
             generator: whatever the constructor draws it from is outside the model;
     [cname] the context name, which client contexts may share.
   Tokens of two same-named instances can only differ through the nonce (their counters both start at 1), so
   every distinctness theorem carries the hypothesis "same-named distinct instances have distinct nonces"
   ([nonces_ok] in Proofs.v); the tie checks that hypothesis against the real constructor. *)
Record ctxinst := mkCtx { iid : N; nonce : N; cname : N }.

Definition gen_token (c : ctxinst) (n : N) : token := (cname c, TAuto (nonce c) n).
(* faithful transcription of the tree BEFORE the repair: QMI_LockTokenDescriptor(self.name, "$lock_" + str(nr)) *)
Definition gen_token_impl (c : ctxinst) (n : N) : token := (cname c, TAuto 0 n).

Definition updN (f : N -> N) (k v : N) : N -> N := fun j => if N.eqb j k then v else f j.

Record pst := mkP { psys : sys; ctr : N -> N }.   (* ctr (iid c) = _unique_counters["$lock_"] of instance c *)
Definition init_pst : pst := mkP init_sys (fun _ => 0%N).

Inductive pop :=
| PLock (p : nat) (custom : option N)     (* lock() / lock(lock_token=s) *)
| PUnlock (p : nat) (custom : option N)   (* unlock() / unlock(lock_token=s) *)
| PForce (p : nat)
| PIsLocked (p : nat)
| PCall (p : nat) (x : N).

(* cfg p = the context instance proxy p lives in *)
Definition pstep (gen : ctxinst -> N -> token) (cfg : nat -> ctxinst) (s : pst) (o : pop) : pst * out :=
  match o with
  | PLock p None =>
      let c := cfg p in
      let n := N.succ (ctr s (iid c)) in
      let '(s1, x) := sys_step (psys s) (OLock p (gen c n)) in
      (mkP s1 (updN (ctr s) (iid c) n), x)
  | PLock p (Some u) =>
      let '(s1, x) := sys_step (psys s) (OLock p (cname (cfg p), TCustom u)) in (mkP s1 (ctr s), x)
  | PUnlock p None => let '(s1, x) := sys_step (psys s) (OUnlock p None) in (mkP s1 (ctr s), x)
  | PUnlock p (Some u) =>
      let '(s1, x) := sys_step (psys s) (OUnlock p (Some (cname (cfg p), TCustom u))) in (mkP s1 (ctr s), x)
  | PForce p => let '(s1, x) := sys_step (psys s) (OForce p) in (mkP s1 (ctr s), x)
  | PIsLocked p => let '(s1, x) := sys_step (psys s) (OIsLocked p) in (mkP s1 (ctr s), x)
  | PCall p y => let '(s1, x) := sys_step (psys s) (OCall p y) in (mkP s1 (ctr s), x)
  end.

Fixpoint prun (gen : ctxinst -> N -> token) (cfg : nat -> ctxinst) (s : pst) (ops : list pop)
  : pst * list out :=
  match ops with
  | [] => (s, [])
  | o :: r =>
      let '(s1, x) := pstep gen cfg s o in
      let '(s2, xs) := prun gen cfg s1 r in (s2, x :: xs)
  end.

Definition is_auto (t : token) : bool := match snd t with TAuto _ _ => true | TCustom _ => false end.

Definition cfg_of (l : list ctxinst) (p : nat) : ctxinst := nth p l (mkCtx 0 0 0).
