(* C05 — property theorems only.  Each is closed by [exact] of a lemma of Proofs.v and followed by
   Print Assumptions.  All statements are about the executable definitions of Model.v that the
   correspondence evaluates against the real qmi.core.rpc code, for EVERY class table [c] (the per-class
   side condition [class_ok c = true] is discharged by vm_compute for each class shipped with QMI in the
   generated file gen/C05Classes.v), every name, every instance dictionary, every request history. *)
From Coq Require Import List String Bool.
Import ListNotations.
Require Import QV.C05.Model QV.C05.Proofs.
Open Scope string_scope.
Open Scope list_scope.

(* A request naming anything that is not dispatchable leaves the worker state (lock, instance
   attributes, call log) untouched; if the lock admits the caller the reply is the unknown-RPC error
   (with the reason _check_and_get_method gives), otherwise it is the object-is-locked reply. *)
Theorem C05_reject : forall (A R T : Type) (teqb : T -> T -> bool) (c : cls)
    (behave : name -> A -> list name -> list name * R) (st : wstate A T) (rq : request A T),
  dispatchable c (w_inst st) (rq_name rq) = false ->
  fst (handle A R T teqb c behave st rq) = st /\
  (admits A T teqb st rq = true ->
     exists v, v <> Accept /\ v = check_and_get c (w_inst st) (rq_name rq) /\
               snd (handle A R T teqb c behave st rq) = RUnknownRpc v) /\
  (admits A T teqb st rq = false -> snd (handle A R T teqb c behave st rq) = RLocked).
Proof. exact reject. Qed.
Print Assumptions C05_reject.

(* ... and a dispatchable name, when admitted, is executed exactly once and logged *)
Theorem C05_accept : forall (A R T : Type) (teqb : T -> T -> bool) (c : cls)
    (behave : name -> A -> list name -> list name * R) (st : wstate A T) (rq : request A T),
  dispatchable c (w_inst st) (rq_name rq) = true -> admits A T teqb st rq = true ->
  w_log (fst (handle A R T teqb c behave st rq)) = w_log st ++ [(rq_name rq, rq_args rq)] /\
  snd (handle A R T teqb c behave st rq) = RResult (snd (behave (rq_name rq) (rq_args rq) (w_inst st))).
Proof. exact accept. Qed.
Print Assumptions C05_accept.

(* For EVERY class (no side condition), every history of requests and lock changes, whatever the accepted
   methods do: each call that was ever executed named a member whose resolved definition carries the
   rpc_method marker. *)
Theorem C05_only_marked_executes : forall (A R T : Type) (teqb : T -> T -> bool) (c : cls)
    (behave : name -> A -> list name -> list name * R) (ops : list (op A T)) (l0 : option T) (i0 : list name),
  Forall (fun e => exists k, resolve c (fst e) = Some k /\
                   (k = KFunc true \/ k = KStatic true \/ k = KClassM true \/ k = KData true))
         (w_log (fst (run A R T teqb c behave (mkW l0 i0 []) ops))).
Proof. exact log_marked. Qed.
Print Assumptions C05_only_marked_executes.

(* The advertised method list is exactly the set of invocable names: for every class table satisfying
   class_ok and every instance dictionary within the scanned names. *)
Theorem C05_advertised_eq_dispatchable : forall c inst,
  class_ok c = true -> incl inst (scanned c) ->
  forall n, In n (advertised c) <-> dispatchable c inst n = true.
Proof. exact advertised_eq_dispatchable. Qed.
Print Assumptions C05_advertised_eq_dispatchable.

(* ... hence, along every history in which accepted methods only rebind scanned instance attributes,
   every executed call named an advertised method. *)
Theorem C05_only_advertised_executes : forall (A R T : Type) (teqb : T -> T -> bool) (c : cls)
    (behave : name -> A -> list name -> list name * R) (ops : list (op A T)) (l0 : option T) (i0 : list name),
  class_ok c = true -> incl i0 (scanned c) ->
  (forall n a i, incl i (scanned c) -> incl (fst (behave n a i)) (scanned c)) ->
  Forall (fun e => In (fst e) (advertised c)) (w_log (fst (run A R T teqb c behave (mkW l0 i0 []) ops))).
Proof. exact log_advertised. Qed.
Print Assumptions C05_only_advertised_executes.

(* Protected names.  (1) a class in which lock / unlock / force_unlock / is_locked resolves to a marked
   function has no interface descriptor (QMI_RpcObject.__init__ raises, no instance exists);
   (2) a descriptor that could be built never lists a protected name; (3) under class_ok such a name is
   not dispatchable either; (4) a proxy built from the descriptor keeps its own four lock-control
   methods (nothing is bound over them in the instance), and (5) — without side condition — never binds a
   forwarding method over them. *)
Theorem C05_protected : forall c p, In p protected ->
  (In p (advertised c) -> make_descriptor c = DErrProtected) /\
  (forall d, make_descriptor c = DOk d -> ~ In p (d_methods d)) /\
  (forall d inst, class_ok c = true -> incl inst (scanned c) -> make_descriptor c = DOk d ->
                  dispatchable c inst p = false) /\
  (forall d px, class_ok c = true -> make_descriptor c = DOk d -> make_proxy d = Some px ->
                proxy_binding px p = None) /\
  (forall d px, make_descriptor c = DOk d -> make_proxy d = Some px -> proxy_binding px p <> Some PMethod).
Proof.
  intros c p Hp. repeat split.
  - intro Ha. exact (protected_fails c p Hp Ha).
  - intros d Hd. exact (protected_never_advertised c d p Hd Hp).
  - intros d inst Hok Hi Hd. exact (protected_not_dispatchable c d inst p Hok Hi Hd Hp).
  - intros d px Hok Hd Hpx. exact (proxy_lock_control_intact c d px p Hok Hd Hpx Hp).
  - intros d px Hd Hpx. exact (proxy_no_protected_method c d px p Hd Hpx Hp).
Qed.
Print Assumptions C05_protected.

(* The forwarding methods of a proxy built from the descriptor are exactly the advertised names. *)
Theorem C05_proxy_methods : forall c d p n,
  class_ok c = true -> make_descriptor c = DOk d -> make_proxy d = Some p ->
  (In n (proxy_methods p) <-> In n (advertised c)).
Proof. exact proxy_methods_eq_advertised. Qed.
Print Assumptions C05_proxy_methods.

(* History independence.  (1) The verdict on a request is a function of the target object's class table and
   its current instance dictionary only: two worker states of objects of class c — reached by whatever
   histories, with whatever lock owners and call logs, whatever the accepted methods do — that hold the same
   instance dictionary give the same verdict on the same name (when the lock admits the caller), namely
   check_and_get c dict name. *)
Theorem C05_verdict_depends_on_table_and_dict_only :
  forall (A R T : Type) (teqb : T -> T -> bool) c
         (bh1 bh2 : name -> A -> list name -> list name * R) (st1 st2 : wstate A T) (rq1 rq2 : request A T),
  w_inst st1 = w_inst st2 -> rq_name rq1 = rq_name rq2 ->
  admits A T teqb st1 rq1 = true -> admits A T teqb st2 rq2 = true ->
  reply_verdict R (snd (handle A R T teqb c bh1 st1 rq1)) =
  reply_verdict R (snd (handle A R T teqb c bh2 st2 rq2)) /\
  reply_verdict R (snd (handle A R T teqb c bh1 st1 rq1)) = Some (check_and_get c (w_inst st1) (rq_name rq1)).
Proof. exact verdict_function_of_table_and_dict. Qed.
Print Assumptions C05_verdict_depends_on_table_and_dict_only.

(* (2) Several objects of arbitrary classes in one process, any history l of requests and lock changes
   addressed to any of them (accepted, refused, repeated, to other objects first or afterwards): if accepted
   methods do not rebind instance attributes, the object at position j is still of its class, holds its
   initial instance dictionary, and the verdict on ANY request to it is the one its class table and initial
   dictionary give — earlier requests, to it or to other objects, play no role. *)
Theorem C05_history_independent :
  forall (A R T : Type) (teqb : T -> T -> bool)
         (behave : cls -> name -> A -> list name -> list name * R),
  (forall c n a i, fst (behave c n a i) = i) ->
  forall (l : list (nat * op A T)) (s : list (object A T)) j c st (rq : request A T),
  nth_error s j = Some (c, st) ->
  exists st', nth_error (fst (sys_run A R T teqb behave s l)) j = Some (c, st') /\
    w_inst st' = w_inst st /\
    reply_verdict R (snd (handle A R T teqb c (behave c) st' rq)) =
    if admits A T teqb st' rq then Some (check_and_get c (w_inst st) (rq_name rq)) else None.
Proof. exact history_independent. Qed.
Print Assumptions C05_history_independent.

(* Proxy acquisition.  A context's name table after ANY history of make_rpc_object / remove_rpc_object /
   requests (to this or other names; lookups are not even state-changing operations of the model): a lookup of
   n that yields a proxy yields the proxy of the object bound to n NOW, and (under class_ok for that object's
   class) its forwarding methods are exactly the names that object accepts. *)
Theorem C05_lookup_advertises_current :
  forall (A R T : Type) (teqb : T -> T -> bool) (behave : cls -> name -> A -> list name -> list name * R)
         (l : list (rop A T)) (g : registry A T) n ms,
  rlookup A T (rrun A R T teqb behave g l) n = Some ms ->
  exists c st, bound A T (rrun A R T teqb behave g l) n = Some (c, st) /\
    (class_ok c = true -> incl (w_inst st) (scanned c) ->
     forall m, In m ms <-> dispatchable c (w_inst st) m = true).
Proof. exact lookup_advertises_current. Qed.
Print Assumptions C05_lookup_advertises_current.

(* ... in particular after the object was removed and a new one, of another class, created under the same
   name: the next lookup is built from the new class, whatever the earlier history (earlier lookups included). *)
Theorem C05_lookup_after_recreate :
  forall (A R T : Type) (teqb : T -> T -> bool) (behave : cls -> name -> A -> list name -> list name * R)
         (l : list (rop A T)) (g : registry A T) n c2 i2 d p,
  make_descriptor c2 = DOk d -> make_proxy d = Some p ->
  rlookup A T (rrun A R T teqb behave g (l ++ [RRemove n; RCreate n c2 i2])) n = Some (proxy_methods p) /\
  bound A T (rrun A R T teqb behave g (l ++ [RRemove n; RCreate n c2 i2])) n = Some (c2, mkW None i2 []).
Proof. exact lookup_after_recreate. Qed.
Print Assumptions C05_lookup_after_recreate.

(* operations on other names leave the binding (hence the lookup) of a name alone *)
Theorem C05_lookup_other_names :
  forall (A R T : Type) (teqb : T -> T -> bool) (behave : cls -> name -> A -> list name -> list name * R)
         (g : registry A T) (o : rop A T) k,
  rop_name A T o <> k -> bound A T (rstep A R T teqb behave g o) k = bound A T g k.
Proof. exact rstep_other. Qed.
Print Assumptions C05_lookup_other_names.

(* ---- Non-vacuity: a concrete class in the shape of a QMI instrument driver ------------------------- *)
Definition ex_object : layer :=
  mkLayer [("__init__", KBuiltin); ("__getattribute__", KBuiltin); ("__class__", KProperty)] [] [].
Definition ex_rpcobject : layer :=
  mkLayer [("__init__", KFunc false); ("lock", KFunc false); ("unlock", KFunc false);
           ("force_unlock", KFunc false); ("is_locked", KFunc false); ("get_name", KFunc true);
           ("get_category", KClassM false); ("release_rpc_object", KFunc false)]
          ["_context"; "_name"; "rpc_object_descriptor"] [].
Definition ex_driver : layer :=
  mkLayer [("__init__", KFunc false); ("get_power", KFunc true); ("_ask", KFunc false);
           ("release_rpc_object", KFunc false); ("RANGE", KData false); ("helper", KStatic false);
           ("model", KProperty)]
          ["_transport"; "_scpi"] ["RANGE"].
Definition ex_cls : cls := mkCls [ex_driver; ex_rpcobject; ex_object] ["__name__"; "__dict__"] ["sig_x"].
(* a subclass that (wrongly) marks `lock` *)
Definition ex_bad : cls :=
  mkCls [mkLayer [("lock", KFunc true)] [] []; ex_driver; ex_rpcobject; ex_object] ["__name__"] [].
(* a class violating the side condition: marked classmethod, instance attribute shadowing a marked name *)
Definition ex_mismatch : cls :=
  mkCls [mkLayer [("cm", KClassM true); ("get_power", KFunc true)] ["get_power"] []; ex_rpcobject; ex_object] [] [].

Example C05_example_ok : class_ok ex_cls = true /\ advertised ex_cls = ["get_power"; "get_name"].
Proof. vm_compute. split; reflexivity. Qed.
Example C05_example_inst : incl ["_transport"; "_name"; "sig_x"] (scanned ex_cls).
Proof. intros x H. vm_compute. simpl in H. tauto. Qed.
Example C05_example_verdicts :
  map (check_and_get ex_cls ["_transport"; "_name"; "sig_x"])
      ["get_power"; "get_name"; "_ask"; "lock"; "RANGE"; "_transport"; "model"; "nonexistent"; ""; "__init__";
       "get_category"; "helper"]
  = [Accept; Accept; RejNotMarked; RejNotMarked; RejNotMarked; RejNotMarked; RejNotMarked; RejNoAttr; RejNoAttr;
     RejNotMarked; RejNotMarked; RejNotMarked].
Proof. vm_compute. reflexivity. Qed.
Example C05_example_descriptor :
  make_descriptor ex_cls = DOk (mkDesc ["RANGE"] ["get_power"; "get_name"] ["sig_x"]) /\
  make_descriptor ex_bad = DErrProtected.
Proof. vm_compute. split; reflexivity. Qed.
Example C05_example_proxy :
  exists p, make_proxy (mkDesc ["RANGE"] ["get_power"; "get_name"] ["sig_x"]) = Some p /\
            proxy_methods p = ["get_power"; "get_name"] /\ proxy_binding p "lock" = None /\
            proxy_binding p "RANGE" = Some PConst.
Proof. eexists. vm_compute. repeat split; reflexivity. Qed.
(* the side condition is needed: without it advertised and dispatchable differ *)
Example C05_example_side_condition_needed :
  class_ok ex_mismatch = false /\ advertised ex_mismatch = ["get_power"; "get_name"] /\
  dispatchable ex_mismatch ["get_power"] "get_power" = false /\ dispatchable ex_mismatch [] "cm" = true.
Proof. vm_compute. repeat split; reflexivity. Qed.
(* a history on the example: rejected requests leave the log alone *)
Example C05_example_history :
  let behave := fun (n : name) (a : nat) (i : list name) => (i, a + 1) in
  let ops := [OMethod (mkReq "_ask" 1 None); OMethod (mkReq "get_power" 2 None); OSetLock (Some 7);
              OMethod (mkReq "get_name" 3 None); OMethod (mkReq "get_name" 4 (Some 7));
              OMethod (mkReq "nonexistent" 5 (Some 7))] in
  let r := run nat nat nat Nat.eqb ex_cls behave (mkW None ["_name"] []) ops in
  w_log (fst r) = [("get_power", 2); ("get_name", 4)] /\
  snd r = [Some (RUnknownRpc RejNotMarked); Some (RResult 3); None; Some RLocked; Some (RResult 5);
           Some (RUnknownRpc RejNoAttr)].
Proof. vm_compute. split; reflexivity. Qed.

(* two objects of different classes in one process: `cm` is accepted on the second, refused on the first,
   in both orders and when repeated *)
Example C05_example_two_objects :
  let behave := fun (c : cls) (n : name) (a : nat) (i : list name) => (i, a) in
  let s := [(ex_cls, mkW (T:=nat) None ["_name"] []); (ex_mismatch, mkW None [] [])] in
  let rq := fun n => OMethod (mkReq n 0 None) in
  snd (sys_run nat nat nat Nat.eqb behave s
         [(0, rq "cm"); (1, rq "cm"); (0, rq "cm"); (1, rq "get_power"); (0, rq "get_power"); (1, rq "cm");
          (2, rq "cm")])
  = [Some (Some (RUnknownRpc RejNoAttr)); Some (Some (RResult 0)); Some (Some (RUnknownRpc RejNoAttr));
     Some (Some (RResult 0)); Some (Some (RResult 0)); Some (Some (RResult 0)); None].
Proof. vm_compute. reflexivity. Qed.

(* a name re-bound to another class: the second lookup advertises the second class *)
Definition ex_v2 : cls :=
  mkCls [mkLayer [("calibrate", KFunc true); ("get_power", KFunc false)] [] []; ex_rpcobject; ex_object] [] [].
Example C05_example_rebind :
  let behave := fun (c : cls) (n : name) (a : nat) (i : list name) => (i, a) in
  let g := rrun nat nat nat Nat.eqb behave []
             [RCreate "dev" ex_cls ["_name"]; RRequest "dev" (OMethod (mkReq "get_power" 0 None));
              RCreate "dev" ex_v2 []; RCreate "other" ex_bad []; RRemove "dev"; RCreate "dev" ex_v2 []] in
  rlookup nat nat g "dev" = Some ["calibrate"; "get_name"] /\ rlookup nat nat g "other" = None /\
  rlookup nat nat (rrun nat nat nat Nat.eqb behave [] [RCreate "dev" ex_cls ["_name"]; RCreate "dev" ex_v2 []]) "dev"
    = Some ["get_power"; "get_name"].
Proof. vm_compute. repeat split; reflexivity. Qed.
