(* C05 — only methods declared RPC-callable can be invoked through messages.

   Executable model (definitions only) of, in /repo/qmi/core/rpc.py:
     rpc_method / is_rpc_method            -> the [marked] flag carried by kinds, [cls_marked_function]
     make_interface_descriptor             -> [advertised], [make_descriptor]
                                              (inspect.getmembers(cls, is_rpc_method) + protected names
                                               + the two assertions on _rpc_constants)
     _RpcThread._check_and_get_method      -> [inst_lookup], [check_and_get], [dispatchable]
     _RpcThread._handle_method_rpc_request -> [handle] (section Worker)
     QMI_RpcProxy.__init__                 -> [proxy_sets], [make_proxy], [proxy_binding]
   and of the part of Python's attribute lookup they rely on:
     type.__getattribute__(cls, n)   : data descriptor of the metaclass, else first hit along cls.__mro__
     object.__getattribute__(obj, n) : data descriptor of the class, else instance __dict__, else the class
                                       attribute (bound if it is a function / staticmethod / classmethod).

   A class is what harness/translators/t_c05_classes.py extracts from the live class object: its MRO as
   a list of layers (one per class of the MRO: the member table name -> kind read from vars(K), the
   instance-attribute names assigned as `self.<name> = ...` in K's method bodies, K's own
   `_rpc_constants`), the names that are data descriptors on the metaclass, the declared signal names.

   Assumptions of the model (stated in the evidence; validated dynamically on every instantiable class):
     A1  the value produced by a property / slot / getset descriptor on the instance carries no truthy
         `_rpc_method` attribute (needs: no attribute called `_rpc_method` anywhere: part of [class_ok]);
     A2  a value stored in the instance __dict__ carries no truthy `_rpc_method` attribute;
     A3  instance __dict__ names are among the scanned names ([scanned]) — hypothesis of the theorems. *)
From Coq Require Import List String Bool Ascii NArith.
Import ListNotations.
Open Scope string_scope.

Definition name := string.

(* names that are not plain printable ASCII are emitted by the translator as UTF-8 byte lists *)
Fixpoint of_codes (l : list N) : string :=
  match l with [] => EmptyString | c :: r => String (ascii_of_N c) (of_codes r) end.

Definition mem (n : name) (l : list name) : bool := existsb (String.eqb n) l.

(* kind of the raw object found in vars(K)[name]; the flag is bool(getattr(f, "_rpc_method", False)) of
   the underlying plain function (KFunc/KStatic/KClassM) or of the value itself (KData). *)
Inductive kind :=
| KFunc (marked : bool)      (* types.FunctionType *)
| KStatic (marked : bool)    (* staticmethod around a plain function *)
| KClassM (marked : bool)    (* classmethod around a plain function *)
| KProperty                  (* data descriptor: property, getset_descriptor, member_descriptor *)
| KData (marked : bool)      (* not a descriptor and not a plain function *)
| KBuiltin                   (* wrapper_descriptor, method_descriptor, classmethod_descriptor, builtin *)
| KOther.                    (* anything else (unknown descriptor): class_ok fails closed *)

Record layer := mkLayer {
  l_members : list (name * kind);
  l_inst : list name;
  l_consts : list name }.

Record cls := mkCls {
  c_mro : list layer;
  c_meta : list name;       (* data descriptors of type(cls): __name__, __dict__, __doc__, ... *)
  c_signals : list name }.

Fixpoint assoc {A} (n : name) (l : list (name * A)) : option A :=
  match l with
  | [] => None
  | (m, a) :: r => if String.eqb n m then Some a else assoc n r
  end.

Fixpoint resolve_mro (mro : list layer) (n : name) : option kind :=
  match mro with
  | [] => None
  | L :: r => match assoc n (l_members L) with Some k => Some k | None => resolve_mro r n end
  end.

Definition resolve (c : cls) (n : name) : option kind := resolve_mro (c_mro c) n.

(* dir(cls): every name defined along the MRO (with repetitions) *)
Definition all_names (c : cls) : list name := flat_map (fun L => map fst (l_members L)) (c_mro c).

(* names that may appear in the instance __dict__: assigned in some method body of some class of the
   MRO, or installed by QMI_RpcObject.__init__ for each declared signal *)
Definition scanned (c : cls) : list name := flat_map l_inst (c_mro c) ++ c_signals c.

Definition consts (c : cls) : list name := flat_map l_consts (c_mro c).

(* ---- class-level view: is_rpc_method(getattr(cls, n)) -------------------------------------------- *)
Definition cls_marked_function (c : cls) (n : name) : bool :=
  if mem n (c_meta c) then false
  else match resolve c n with
       | Some (KFunc m) => m
       | Some (KStatic m) => m
       | _ => false
       end.

(* isfunction(getattr(cls, n)), used by the assertion on constants *)
Definition cls_is_function (c : cls) (n : name) : bool :=
  if mem n (c_meta c) then false
  else match resolve c n with
       | Some (KFunc _) => true
       | Some (KStatic _) => true
       | _ => false
       end.

Fixpoint dedup (l : list name) : list name :=
  match l with
  | [] => []
  | x :: r => if mem x r then dedup r else x :: dedup r
  end.

(* names of inspect.getmembers(cls, is_rpc_method) (as a set) *)
Definition advertised (c : cls) : list name := dedup (filter (cls_marked_function c) (all_names c)).

(* ---- instance-level view: getattr(obj, n) --------------------------------------------------------- *)
Inductive lookup := LNone | LVal (marked : bool).

Definition inst_lookup (c : cls) (inst : list name) (n : name) : lookup :=
  match resolve c n with
  | Some KProperty => LVal false
  | r => if mem n inst then LVal false
         else match r with
              | Some (KFunc m) => LVal m
              | Some (KStatic m) => LVal m
              | Some (KClassM m) => LVal m
              | Some (KData m) => LVal m
              | Some _ => LVal false
              | None => LNone
              end
  end.

Inductive verdict := Accept | RejNoAttr | RejNotMarked.

(* _check_and_get_method: hasattr, then the marker of the attribute *)
Definition check_and_get (c : cls) (inst : list name) (n : name) : verdict :=
  match inst_lookup c inst n with
  | LNone => RejNoAttr
  | LVal false => RejNotMarked
  | LVal true => Accept
  end.

Definition dispatchable (c : cls) (inst : list name) (n : name) : bool :=
  match check_and_get c inst n with Accept => true | _ => false end.

(* ---- make_interface_descriptor -------------------------------------------------------------------- *)
Definition protected : list name := ["lock"; "unlock"; "force_unlock"; "is_locked"].

Record descriptor := mkDesc { d_consts : list name; d_methods : list name; d_signals : list name }.

Inductive dresult := DErrProtected | DErrAssert | DOk (d : descriptor).

Definition const_ok (c : cls) (n : name) : bool :=
  (match resolve c n with Some _ => true | None => mem n (c_meta c) end) && negb (cls_is_function c n).

Definition make_descriptor (c : cls) : dresult :=
  if existsb (fun n => mem n protected) (advertised c) then DErrProtected
  else if forallb (const_ok c) (consts c)
       then DOk (mkDesc (dedup (consts c)) (advertised c) (c_signals c))
       else DErrAssert.

(* ---- QMI_RpcProxy.__init__ ------------------------------------------------------------------------- *)
Inductive psrc := PInternal | PConst | PMethod | PSignal | PNonblocking.

Definition proxy_internal : list name :=
  ["_context"; "_rpc_object_address"; "_rpc_class_fqn"; "_lock_token"; "__doc__"].

(* the sequence of setattr(self, name, ...) performed by the constructor, in order *)
Definition proxy_sets (d : descriptor) : list (name * psrc) :=
  map (fun n => (n, PInternal)) proxy_internal ++ map (fun n => (n, PConst)) (d_consts d)
  ++ map (fun n => (n, PMethod)) (d_methods d) ++ map (fun n => (n, PSignal)) (d_signals d)
  ++ [("rpc_nonblocking", PNonblocking)].

(* `address` is a property without setter on QMI_RpcProxy: setattr raises, no proxy is built *)
Definition make_proxy (d : descriptor) : option (list (name * psrc)) :=
  let s := proxy_sets d in
  if existsb (fun x => String.eqb (fst x) "address") s then None else Some s.

(* what the instance __dict__ of the proxy holds for n after construction (last write wins); None: the
   name is not in the instance __dict__, i.e. the proxy class's own attribute is what callers get *)
Definition proxy_binding (p : list (name * psrc)) (n : name) : option psrc := assoc n (rev p).

Definition proxy_methods (p : list (name * psrc)) : list name :=
  dedup (filter (fun n => match proxy_binding p n with Some PMethod => true | _ => false end) (map fst p)).

(* ---- the boolean side condition discharged per class by vm_compute --------------------------------- *)
Definition proxy_reserved : list name :=
  proxy_internal ++ ["rpc_nonblocking"; "address"].

Definition name_ok (c : cls) (n : name) : bool :=
  match resolve c n with
  | Some KOther => false
  | Some (KClassM true) => false
  | Some (KData true) => false
  | Some (KFunc true) => negb (mem n (scanned c)) && negb (mem n (c_meta c))
  | Some (KStatic true) => negb (mem n (scanned c)) && negb (mem n (c_meta c))
  | _ => true
  end.

Definition no_getattr (c : cls) : bool :=
  match resolve c "__getattr__" with None => true | _ => false end &&
  match resolve c "__getattribute__" with None => true | Some KBuiltin => true | _ => false end.

Definition no_marker_attr (c : cls) : bool :=
  match resolve c "_rpc_method" with None => true | _ => false end && negb (mem "_rpc_method" (scanned c)).

Definition proxy_side_ok (c : cls) : bool :=
  forallb (fun n => negb (mem n protected)) (consts c ++ c_signals c) &&
  forallb (fun n => negb (mem n proxy_reserved) && negb (mem n (c_signals c))) (advertised c).

Definition class_ok (c : cls) : bool :=
  no_getattr c && no_marker_attr c && forallb (name_ok c) (all_names c) && proxy_side_ok c.

(* ---- worker step: _handle_method_rpc_request -------------------------------------------------------- *)
Section Worker.
  Variables (A R T : Type).                 (* call arguments, method outcomes, lock tokens *)
  Variable teqb : T -> T -> bool.
  Variable c : cls.
  (* what an accepted method does is outside C05: it returns some outcome and may rebind instance
     attributes (new instance __dict__ names) *)
  Variable behave : name -> A -> list name -> list name * R.

  Record request := mkReq { rq_name : name; rq_args : A; rq_token : option T }.
  Record wstate := mkW { w_lock : option T; w_inst : list name; w_log : list (name * A) }.
  Inductive reply := RResult (r : R) | RUnknownRpc (v : verdict) | RLocked.

  Definition admits (st : wstate) (rq : request) : bool :=
    match w_lock st with
    | None => true
    | Some t => match rq_token rq with Some t' => teqb t t' | None => false end
    end.

  Definition handle (st : wstate) (rq : request) : wstate * reply :=
    if admits st rq then
      match check_and_get c (w_inst st) (rq_name rq) with
      | Accept =>
          let '(i', r) := behave (rq_name rq) (rq_args rq) (w_inst st) in
          (mkW (w_lock st) i' (w_log st ++ [(rq_name rq, rq_args rq)]), RResult r)
      | v => (st, RUnknownRpc v)
      end
    else (st, RLocked).

  (* histories: method requests interleaved with arbitrary changes of the lock state (C04's business) *)
  Inductive op := OMethod (rq : request) | OSetLock (t : option T).

  Definition step (st : wstate) (o : op) : wstate * option reply :=
    match o with
    | OMethod rq => let '(st', r) := handle st rq in (st', Some r)
    | OSetLock t => (mkW t (w_inst st) (w_log st), None)
    end.

  Fixpoint run (st : wstate) (ops : list op) : wstate * list (option reply) :=
    match ops with
    | [] => (st, [])
    | o :: r => let '(st1, x) := step st o in let '(st2, xs) := run st1 r in (st2, x :: xs)
    end.
End Worker.

Arguments mkReq {A T}.
Arguments rq_name {A T}.
Arguments rq_args {A T}.
Arguments rq_token {A T}.
Arguments mkW {A T}.
Arguments w_lock {A T}.
Arguments w_inst {A T}.
Arguments w_log {A T}.
Arguments RResult {R}.
Arguments RUnknownRpc {R}.
Arguments RLocked {R}.
Arguments OMethod {A T}.
Arguments OSetLock {A T}.

(* ---- several objects in one process ------------------------------------------------------------------
   Each RPC object has its own worker (_RpcThread) and therefore its own state; a request is delivered to
   the worker of the object it is addressed to (index in the list).  Nothing is shared between workers. *)
Section System.
  Variables (A R T : Type).
  Variable teqb : T -> T -> bool.
  Variable behave : cls -> name -> A -> list name -> list name * R.   (* per class *)

  Definition object := (cls * wstate A T)%type.

  Fixpoint sys_step (s : list object) (i : nat) (o : op A T) : list object * option (option (reply R)) :=
    match s with
    | [] => ([], None)                         (* no such object: nothing is delivered *)
    | (c, st) :: r =>
        match i with
        | O => let '(st', x) := step A R T teqb c (behave c) st o in ((c, st') :: r, Some x)
        | S i' => let '(r', y) := sys_step r i' o in ((c, st) :: r', y)
        end
    end.

  Fixpoint sys_run (s : list object) (l : list (nat * op A T)) : list object * list (option (option (reply R))) :=
    match l with
    | [] => (s, [])
    | (i, o) :: r => let '(s1, x) := sys_step s i o in let '(s2, xs) := sys_run s1 r in (s2, x :: xs)
    end.

  (* the verdict on a method request, as seen in the reply *)
  Definition reply_verdict (r : reply R) : option verdict :=
    match r with RResult _ => Some Accept | RUnknownRpc v => Some v | RLocked => None end.
End System.

(* ---- how a proxy reaches a client: the name table of a context ------------------------------------------
   QMI_Context keeps the RPC objects it hosts in a table object name -> object (_rpc_object_map).
   make_rpc_object binds a free name to a new object of the given class (QMI_RpcObject.__init__ builds the
   interface descriptor of type(self): if that fails no object exists) and returns a proxy built from the new
   object's descriptor; remove_rpc_object frees the name.  Every acquisition route — the proxy returned by
   make_rpc_object, get_rpc_object_by_name / get_instrument / get_task for a local name or from a peer
   context, and the descriptors served by the `$context` object (get_rpc_object_descriptor(s), used by
   list_rpc_objects) — reads the descriptor of the object bound to the name NOW: the model has no other state
   a proxy could be built from (no remembered descriptors, on either side of a connection). *)
Section Registry.
  Variables (A R T : Type).
  Variable teqb : T -> T -> bool.
  Variable behave : cls -> name -> A -> list name -> list name * R.

  Definition registry := list (name * object A T).

  Inductive rop :=
  | RCreate (n : name) (c : cls) (inst : list name)     (* make_rpc_object(n, class); inst = the new object's __dict__ *)
  | RRemove (n : name)                                  (* remove_rpc_object *)
  | RRequest (n : name) (o : op A T).                   (* a request / lock change delivered to the object named n *)

  Definition bound (g : registry) (n : name) : option (object A T) := assoc n g.

  Fixpoint rremove (n : name) (g : registry) : registry :=
    match g with
    | [] => []
    | (m, x) :: r => if String.eqb n m then rremove n r else (m, x) :: rremove n r
    end.

  Definition rstep (g : registry) (o : rop) : registry :=
    match o with
    | RCreate n c i =>
        match bound g n with
        | Some _ => g                                    (* duplicate name: refused, nothing changes *)
        | None => match make_descriptor c with
                  | DOk _ => (n, (c, mkW None i [])) :: g
                  | _ => g                               (* the constructor raises: no object *)
                  end
        end
    | RRemove n => rremove n g
    | RRequest n o =>
        match bound g n with
        | Some (c, st) => (n, (c, fst (step A R T teqb c (behave c) st o))) :: rremove n g
        | None => g
        end
    end.

  Fixpoint rrun (g : registry) (l : list rop) : registry :=
    match l with [] => g | o :: r => rrun (rstep g o) r end.

  (* the forwarding methods of the proxy a lookup of n yields (None: unknown name / no proxy can be built) *)
  Definition rlookup (g : registry) (n : name) : option (list name) :=
    match bound g n with
    | Some (c, _) =>
        match make_descriptor c with
        | DOk d => match make_proxy d with Some p => Some (proxy_methods p) | None => None end
        | _ => None
        end
    | None => None
    end.
End Registry.

Arguments RCreate {A T}.
Arguments RRemove {A T}.
Arguments RRequest {A T}.
