(* C05 correspondence: compare the model's verdicts / descriptor / proxy with what the real
   qmi.core.rpc code did on the same class (table produced by t_c05_classes.py) and the same names. *)
Require Export QV.Lib.Corr QV.C05.Model.
From Coq Require Import List String Bool NArith.
Import ListNotations.
Open Scope string_scope.

Definition set_eqb (a b : list name) : bool :=
  forallb (fun x => mem x b) a && forallb (fun x => mem x a) b.

(* observation codes for _check_and_get_method: 0 accepted, 1 "does not have method", 2 "is not
   RPC-callable", 4 rejected (either reason; used for names that resolve to a property, whose getter
   decides between the two), anything else: never matches *)
Definition verdict_matches (v : verdict) (o : N) : bool :=
  match v, o with
  | Accept, 0%N => true
  | RejNoAttr, 1%N => true
  | RejNotMarked, 2%N => true
  | RejNoAttr, 4%N => true
  | RejNotMarked, 4%N => true
  | _, _ => false
  end.

Record case := mkCase {
  k_cls : cls;
  k_inst : list name;                 (* vars(obj) of the real instance ([] when not instantiated) *)
  k_probes : list (name * N);         (* name in the request, observed code *)
  k_desc : N;                         (* make_interface_descriptor: 0 ok, 1 QMI_UsageException, 2 AssertionError *)
  k_methods : list name;
  k_consts : list name;
  k_signals : list name;
  k_proxy : option (list name * bool) (* forwarding methods of the real proxy; own lock control intact *)
}.

Definition desc_code (r : dresult) : N :=
  match r with DOk _ => 0%N | DErrProtected => 1%N | DErrAssert => 2%N end.

Definition model_verdicts (k : case) : list verdict :=
  map (fun p => check_and_get (k_cls k) (k_inst k) (fst p)) (k_probes k).

Definition model_proxy (k : case) : option (list name * bool) :=
  match make_descriptor (k_cls k) with
  | DOk d => match make_proxy d with
             | Some p => Some (proxy_methods p,
                               forallb (fun n => match proxy_binding p n with None => true | _ => false end) protected)
             | None => None
             end
  | _ => None
  end.

Definition model_out (k : case) :=
  (model_verdicts k, make_descriptor (k_cls k), model_proxy k, class_ok (k_cls k)).

Definition check_probes (k : case) : bool :=
  forallb (fun p => verdict_matches (check_and_get (k_cls k) (k_inst k) (fst p)) (snd p)) (k_probes k).

Definition check_desc (k : case) : bool :=
  match make_descriptor (k_cls k) with
  | DOk d => N.eqb (k_desc k) 0 && set_eqb (d_methods d) (k_methods k) && set_eqb (d_consts d) (k_consts k)
             && set_eqb (d_signals d) (k_signals k)
  | r => N.eqb (k_desc k) (desc_code r)
  end.

Definition check_proxy (k : case) : bool :=
  match model_proxy k, k_proxy k with
  | Some (ms, intact), Some (ms', intact') => set_eqb ms ms' && Bool.eqb intact intact'
  | None, None => true
  | _, _ => false
  end.

(* which of the three parts disagree (for the report) *)
Definition check_parts (k : case) : bool * bool * bool := (check_probes k, check_desc k, check_proxy k).

Definition check_case (k : case) : bool := check_probes k && check_desc k && check_proxy k.

(* the probes on which model and implementation disagree *)
Definition bad_probes (k : case) : list (name * N) :=
  filter (fun p => negb (verdict_matches (check_and_get (k_cls k) (k_inst k) (fst p)) (snd p))) (k_probes k).

(* ---- histories over several objects ------------------------------------------------------------------
   objects (class table, instance dictionary), the requests in delivery order (object index, name), and
   the code observed for each request (as for probes; 5 = no such object / not delivered) *)
Record hcase := mkHCase {
  h_objects : list (cls * list name);
  h_requests : list (nat * name);
  h_observed : list N }.

Definition h_behave (c : cls) (n : name) (a : unit) (i : list name) : list name * unit := (i, tt).

Definition h_replies (k : hcase) : list (option (option (reply unit))) :=
  snd (sys_run unit unit unit (fun _ _ => true) h_behave
         (map (fun o => (fst o, mkW (T:=unit) None (snd o) [])) (h_objects k))
         (map (fun r => (fst r, OMethod (mkReq (snd r) tt None))) (h_requests k))).

Definition reply_matches (r : option (option (reply unit))) (o : N) : bool :=
  match r with
  | Some (Some (RResult _)) => verdict_matches Accept o
  | Some (Some (RUnknownRpc v)) => verdict_matches v o
  | Some (Some RLocked) => false
  | Some None => false
  | None => N.eqb o 5
  end.

Fixpoint all2 {X Y} (f : X -> Y -> bool) (a : list X) (b : list Y) : bool :=
  match a, b with
  | [], [] => true
  | x :: a', y :: b' => f x y && all2 f a' b'
  | _, _ => false
  end.

Definition check_hcase (k : hcase) : bool := all2 reply_matches (h_replies k) (h_observed k).

(* ---- proxy acquisition along histories of a context's name table ---------------------------------------
   ops in order; a lookup carries what the implementation's proxy offered (forwarding methods of the
   blocking proxy), or None when the lookup raised "unknown RPC object".  Creation carries whether the
   implementation created the object (false: duplicate name or the constructor refused). *)
Inductive rcop :=
| KCreate (n : name) (c : cls) (created : bool)
| KRemove (n : name)
| KLookup (n : name) (observed : option (list name)).

Definition rc_reg := registry unit unit.

Definition rc_behave (c : cls) (n : name) (a : unit) (i : list name) : list name * unit := (i, tt).

Fixpoint rc_check (g : rc_reg) (l : list rcop) : bool :=
  match l with
  | [] => true
  | KCreate n c created :: r =>
      let g' := rstep unit unit unit (fun _ _ => true) rc_behave g (RCreate n c []) in
      let did := match bound unit unit g n, bound unit unit g' n with None, Some _ => true | _, _ => false end in
      Bool.eqb did created && rc_check g' r
  | KRemove n :: r => rc_check (rstep unit unit unit (fun _ _ => true) rc_behave g (RRemove n)) r
  | KLookup n obs :: r =>
      match rlookup unit unit g n, obs with
      | Some ms, Some ms' => set_eqb ms ms'
      | None, None => true
      | _, _ => false
      end && rc_check g r
  end.

Definition check_rcase (l : list rcop) : bool := rc_check [] l.

(* index of the first operation on which model and implementation disagree (for the report) *)
Fixpoint rc_first_bad (g : rc_reg) (l : list rcop) (i : nat) : option nat :=
  match l with
  | [] => None
  | o :: r => if rc_check g [o] then
                rc_first_bad (match o with
                              | KCreate n c _ => rstep unit unit unit (fun _ _ => true) rc_behave g (RCreate n c [])
                              | KRemove n => rstep unit unit unit (fun _ _ => true) rc_behave g (RRemove n)
                              | KLookup _ _ => g end) r (S i)
              else Some i
  end.
