(* C05 — lemmas about the model of Model.v. *)
From Coq Require Import List String Bool Ascii NArith.
Import ListNotations.
Require Import QV.C05.Model.
Open Scope string_scope.
Open Scope list_scope.

(* ---- list/name helpers ---------------------------------------------------------------------------- *)
Lemma mem_In : forall n l, mem n l = true <-> In n l.
Proof.
  intros n l. unfold mem. rewrite existsb_exists. split.
  - intros [x [Hin Heq]]. apply String.eqb_eq in Heq. subst. exact Hin.
  - intros Hin. exists n. split; [exact Hin | apply String.eqb_refl].
Qed.

Lemma mem_false_not_In : forall n l, mem n l = false <-> ~ In n l.
Proof.
  intros n l. rewrite <- mem_In. destruct (mem n l); split; intro H.
  - discriminate.
  - exfalso. apply H. reflexivity.
  - intro H'. discriminate.
  - reflexivity.
Qed.

Lemma mem_incl : forall n a b, incl a b -> mem n b = false -> mem n a = false.
Proof.
  intros n a b Hincl Hb. apply mem_false_not_In. intro Hin. apply Hincl in Hin.
  apply mem_In in Hin. congruence.
Qed.

Lemma assoc_In : forall A n (l : list (name * A)) a, assoc n l = Some a -> In n (map fst l).
Proof.
  intros A n l. induction l as [|[m b] r IH]; intros a H; simpl in *.
  - discriminate.
  - destruct (String.eqb n m) eqn:E.
    + apply String.eqb_eq in E. left. symmetry. exact E.
    + right. eapply IH. exact H.
Qed.

Lemma assoc_In_pair : forall A n (l : list (name * A)) a, assoc n l = Some a -> In (n, a) l.
Proof.
  intros A n l. induction l as [|[m b] r IH]; intros a H; simpl in *.
  - discriminate.
  - destruct (String.eqb n m) eqn:E.
    + apply String.eqb_eq in E. inversion H; subst. left. reflexivity.
    + right. apply IH. exact H.
Qed.

Lemma assoc_None_notin : forall A n (l : list (name * A)), assoc n l = None -> ~ In n (map fst l).
Proof.
  intros A n l. induction l as [|[m b] r IH]; intros H; simpl in *.
  - intros [].
  - destruct (String.eqb n m) eqn:E; [discriminate|].
    intros [Heq | Hin].
    + subst. rewrite String.eqb_refl in E. discriminate.
    + exact (IH H Hin).
Qed.

Lemma resolve_mro_in : forall mro n k,
  resolve_mro mro n = Some k -> In n (flat_map (fun L => map fst (l_members L)) mro).
Proof.
  induction mro as [|L r IH]; intros n k H; simpl in *.
  - discriminate.
  - apply in_or_app. destruct (assoc n (l_members L)) eqn:E.
    + left. eapply assoc_In. exact E.
    + right. eapply IH. exact H.
Qed.

Lemma resolve_in_all_names : forall c n k, resolve c n = Some k -> In n (all_names c).
Proof. intros c n k H. unfold all_names. eapply resolve_mro_in. exact H. Qed.

Lemma dedup_In : forall l x, In x (dedup l) <-> In x l.
Proof.
  induction l as [|y r IH]; intros x; simpl.
  - tauto.
  - destruct (mem y r) eqn:E.
    + rewrite IH. split; [tauto|]. intros [Heq | Hin]; [subst; apply mem_In; exact E | exact Hin].
    + simpl. rewrite IH. tauto.
Qed.

Lemma dedup_NoDup : forall l, NoDup (dedup l).
Proof.
  induction l as [|y r IH]; simpl.
  - constructor.
  - destruct (mem y r) eqn:E.
    + exact IH.
    + constructor; [|exact IH]. rewrite dedup_In. apply mem_false_not_In. exact E.
Qed.

(* ---- advertised ---------------------------------------------------------------------------------- *)
Lemma cls_marked_function_resolves : forall c n,
  cls_marked_function c n = true ->
  mem n (c_meta c) = false /\ (resolve c n = Some (KFunc true) \/ resolve c n = Some (KStatic true)).
Proof.
  intros c n H. unfold cls_marked_function in H.
  destruct (mem n (c_meta c)); [discriminate|]. split; [reflexivity|].
  destruct (resolve c n) as [[[]|[]|[]| |[]| |]|]; try discriminate; auto.
Qed.

Lemma advertised_spec : forall c n, In n (advertised c) <-> cls_marked_function c n = true.
Proof.
  intros c n. unfold advertised. rewrite dedup_In, filter_In. split.
  - intros [_ H]. exact H.
  - intros H. split; [|exact H].
    destruct (cls_marked_function_resolves c n H) as [_ [Hr | Hr]]; eapply resolve_in_all_names; exact Hr.
Qed.

Lemma advertised_NoDup : forall c, NoDup (advertised c).
Proof. intros c. apply dedup_NoDup. Qed.

(* ---- dispatchable -------------------------------------------------------------------------------- *)
Lemma dispatchable_lookup : forall c inst n,
  dispatchable c inst n = true <-> inst_lookup c inst n = LVal true.
Proof.
  intros c inst n. unfold dispatchable, check_and_get.
  destruct (inst_lookup c inst n) as [|[]]; split; intro H; try reflexivity; try discriminate.
Qed.

Lemma inst_lookup_true : forall c inst n,
  inst_lookup c inst n = LVal true ->
  mem n inst = false /\
  exists k, resolve c n = Some k /\
            (k = KFunc true \/ k = KStatic true \/ k = KClassM true \/ k = KData true).
Proof.
  intros c inst n H. unfold inst_lookup in H.
  destruct (resolve c n) as [k|] eqn:Er.
  - destruct k as [m|m|m| |m| |]; try discriminate;
      destruct (mem n inst) eqn:Em; try discriminate;
      try (inversion H; subst; split; [reflexivity|]; eexists; split; [reflexivity|]; tauto).
  - destruct (mem n inst); discriminate.
Qed.

Lemma class_ok_parts : forall c, class_ok c = true ->
  no_getattr c = true /\ no_marker_attr c = true /\
  (forall n, In n (all_names c) -> name_ok c n = true) /\ proxy_side_ok c = true.
Proof.
  intros c H. unfold class_ok in H.
  apply andb_true_iff in H; destruct H as [H H4].
  apply andb_true_iff in H; destruct H as [H H3].
  apply andb_true_iff in H; destruct H as [H1 H2].
  split; [exact H1|]. split; [exact H2|]. split; [|exact H4].
  apply forallb_forall. exact H3.
Qed.

(* the generic theorem: under class_ok, for any actual instance __dict__ within the scanned names *)
Lemma advertised_eq_dispatchable : forall c inst,
  class_ok c = true -> incl inst (scanned c) ->
  forall n, In n (advertised c) <-> dispatchable c inst n = true.
Proof.
  intros c inst Hok Hincl n.
  destruct (class_ok_parts c Hok) as [_ [_ [Hnames _]]].
  rewrite advertised_spec, dispatchable_lookup. split.
  - intros Hadv. destruct (cls_marked_function_resolves c n Hadv) as [Hmeta Hr].
    assert (Hin : In n (all_names c)) by (destruct Hr as [Hr|Hr]; eapply resolve_in_all_names; exact Hr).
    specialize (Hnames n Hin). unfold name_ok in Hnames. unfold inst_lookup.
    destruct Hr as [Hr|Hr]; rewrite Hr in *;
      apply andb_true_iff in Hnames; destruct Hnames as [Hs _];
      apply negb_true_iff in Hs; rewrite (mem_incl n inst (scanned c) Hincl Hs); reflexivity.
  - intros Hl. destruct (inst_lookup_true c inst n Hl) as [_ [k [Hr Hk]]].
    assert (Hin : In n (all_names c)) by (eapply resolve_in_all_names; exact Hr).
    specialize (Hnames n Hin). unfold name_ok in Hnames. rewrite Hr in Hnames.
    unfold cls_marked_function. rewrite Hr.
    destruct Hk as [Hk|[Hk|[Hk|Hk]]]; subst k; try discriminate;
      apply andb_true_iff in Hnames; destruct Hnames as [_ Hm];
      apply negb_true_iff in Hm; rewrite Hm; reflexivity.
Qed.

(* without any side condition: whatever is dispatchable was marked by the decorator somewhere
   (its resolved member carries the marker) *)
Lemma dispatchable_is_marked : forall c inst n,
  dispatchable c inst n = true ->
  exists k, resolve c n = Some k /\
            (k = KFunc true \/ k = KStatic true \/ k = KClassM true \/ k = KData true).
Proof.
  intros c inst n H. apply dispatchable_lookup in H.
  destruct (inst_lookup_true c inst n H) as [_ Hk]. exact Hk.
Qed.

(* ---- worker ---------------------------------------------------------------------------------------- *)
Section WorkerProofs.
  Variables (A R T : Type).
  Variable teqb : T -> T -> bool.
  Variable c : cls.
  Variable behave : name -> A -> list name -> list name * R.

  Notation handle := (handle A R T teqb c behave).
  Notation run := (run A R T teqb c behave).
  Notation step := (step A R T teqb c behave).
  Notation admits := (admits A T teqb).

  Lemma reject : forall (st : wstate A T) (rq : request A T),
    dispatchable c (w_inst st) (rq_name rq) = false ->
    fst (handle st rq) = st /\
    (admits st rq = true ->
       exists v, v <> Accept /\ v = check_and_get c (w_inst st) (rq_name rq) /\
                 snd (handle st rq) = RUnknownRpc v) /\
    (admits st rq = false -> snd (handle st rq) = RLocked).
  Proof.
    intros st rq Hd. unfold Model.handle. unfold dispatchable in Hd.
    destruct (admits st rq) eqn:Ea.
    - destruct (check_and_get c (w_inst st) (rq_name rq)) eqn:Ev; try discriminate; simpl.
      + split; [reflexivity|]. split; [|discriminate].
        intros _. exists RejNoAttr. repeat split; discriminate.
      + split; [reflexivity|]. split; [|discriminate].
        intros _. exists RejNotMarked. repeat split; discriminate.
    - simpl. split; [reflexivity|]. split; [discriminate|reflexivity].
  Qed.

  Lemma accept : forall (st : wstate A T) (rq : request A T),
    dispatchable c (w_inst st) (rq_name rq) = true -> admits st rq = true ->
    w_log (fst (handle st rq)) = w_log st ++ [(rq_name rq, rq_args rq)] /\
    snd (handle st rq) = RResult (snd (behave (rq_name rq) (rq_args rq) (w_inst st))).
  Proof.
    intros st rq Hd Ha. unfold Model.handle. rewrite Ha. unfold dispatchable in Hd.
    destruct (check_and_get c (w_inst st) (rq_name rq)); try discriminate.
    destruct (behave (rq_name rq) (rq_args rq) (w_inst st)) as [i r]. simpl. split; reflexivity.
  Qed.

  (* invariant over histories *)
  Definition log_ok (P : name -> Prop) (st : wstate A T) : Prop :=
    Forall (fun e => P (fst e)) (w_log st).

  Lemma handle_log : forall (P : name -> Prop) (I : list name -> Prop) st rq,
    (forall i n, I i -> dispatchable c i n = true -> P n) ->
    (forall n a i, I i -> I (fst (behave n a i))) ->
    I (w_inst st) -> log_ok P st ->
    I (w_inst (fst (handle st rq))) /\ log_ok P (fst (handle st rq)).
  Proof.
    intros P I st rq HP HI Hi Hl. unfold Model.handle.
    destruct (admits st rq); [|simpl; split; assumption].
    destruct (check_and_get c (w_inst st) (rq_name rq)) eqn:Ev; try (simpl; split; assumption).
    destruct (behave (rq_name rq) (rq_args rq) (w_inst st)) as [i r] eqn:Eb. simpl. split.
    - pose proof (HI (rq_name rq) (rq_args rq) (w_inst st) Hi) as H. rewrite Eb in H. exact H.
    - unfold log_ok. simpl. apply Forall_app. split; [exact Hl|]. constructor; [|constructor].
      simpl. apply (HP (w_inst st)); [exact Hi|]. unfold dispatchable. rewrite Ev. reflexivity.
  Qed.

  Lemma run_log : forall (P : name -> Prop) (I : list name -> Prop),
    (forall i n, I i -> dispatchable c i n = true -> P n) ->
    (forall n a i, I i -> I (fst (behave n a i))) ->
    forall ops st, I (w_inst st) -> log_ok P st ->
    I (w_inst (fst (run st ops))) /\ log_ok P (fst (run st ops)).
  Proof.
    intros P I HP HI. induction ops as [|o r IH]; intros st Hi Hl; simpl.
    - split; assumption.
    - destruct o as [rq|t]; simpl.
      + destruct (handle st rq) as [st1 x] eqn:Eh.
        destruct (handle_log P I st rq HP HI Hi Hl) as [Hi1 Hl1]. rewrite Eh in Hi1, Hl1. simpl in *.
        specialize (IH st1 Hi1 Hl1). destruct (run st1 r) as [st2 xs]. exact IH.
      + specialize (IH (mkW t (w_inst st) (w_log st)) Hi Hl).
        destruct (run (mkW t (w_inst st) (w_log st)) r) as [st2 xs]. exact IH.
  Qed.

  (* every call ever executed named an advertised method *)
  Lemma log_advertised : forall ops l0 i0,
    class_ok c = true -> incl i0 (scanned c) ->
    (forall n a i, incl i (scanned c) -> incl (fst (behave n a i)) (scanned c)) ->
    Forall (fun e => In (fst e) (advertised c)) (w_log (fst (run (mkW l0 i0 []) ops))).
  Proof.
    intros ops l0 i0 Hok Hi0 Hb.
    refine (proj2 (run_log (fun n => In n (advertised c)) (fun i => incl i (scanned c)) _ Hb ops
                           (mkW l0 i0 []) Hi0 _)).
    - intros i n Hi Hd. apply (advertised_eq_dispatchable c i Hok Hi). exact Hd.
    - constructor.
  Qed.

  (* without class_ok: every call ever executed named a member carrying the marker *)
  Lemma log_marked : forall ops l0 i0,
    Forall (fun e => exists k, resolve c (fst e) = Some k /\
                     (k = KFunc true \/ k = KStatic true \/ k = KClassM true \/ k = KData true))
           (w_log (fst (run (mkW l0 i0 []) ops))).
  Proof.
    intros ops l0 i0.
    refine (proj2 (run_log (fun n => exists k, resolve c n = Some k /\
                     (k = KFunc true \/ k = KStatic true \/ k = KClassM true \/ k = KData true))
                  (fun _ => True) _ _ ops (mkW l0 i0 []) I _)).
    - intros i n _ Hd. eapply dispatchable_is_marked. exact Hd.
    - intros; exact I.
    - constructor.
  Qed.
End WorkerProofs.

(* ---- protected names -------------------------------------------------------------------------------- *)
Lemma protected_fails : forall c p,
  In p protected -> In p (advertised c) -> make_descriptor c = DErrProtected.
Proof.
  intros c p Hp Ha. unfold make_descriptor.
  assert (E : existsb (fun n => mem n protected) (advertised c) = true).
  { apply existsb_exists. exists p. split; [exact Ha | apply mem_In; exact Hp]. }
  rewrite E. reflexivity.
Qed.

Lemma descriptor_ok_parts : forall c d, make_descriptor c = DOk d ->
  d_methods d = advertised c /\ d_signals d = c_signals c /\ d_consts d = dedup (consts c) /\
  forall p, In p protected -> ~ In p (advertised c).
Proof.
  intros c d H. unfold make_descriptor in H.
  destruct (existsb (fun n => mem n protected) (advertised c)) eqn:E; [discriminate|].
  destruct (forallb (const_ok c) (consts c)); [|discriminate].
  inversion H; subst; simpl. repeat split; try reflexivity.
  intros p Hp Ha.
  assert (E' : existsb (fun n => mem n protected) (advertised c) = true).
  { apply existsb_exists. exists p. split; [exact Ha | apply mem_In; exact Hp]. }
  congruence.
Qed.

Lemma protected_never_advertised : forall c d p,
  make_descriptor c = DOk d -> In p protected -> ~ In p (d_methods d).
Proof.
  intros c d p H Hp. destruct (descriptor_ok_parts c d H) as [Hm [_ [_ Hn]]]. rewrite Hm. apply Hn. exact Hp.
Qed.

(* with class_ok (and any instance __dict__ within the scanned names) a protected name of a class whose
   descriptor can be built is not dispatchable either *)
Lemma protected_not_dispatchable : forall c d inst p,
  class_ok c = true -> incl inst (scanned c) -> make_descriptor c = DOk d -> In p protected ->
  dispatchable c inst p = false.
Proof.
  intros c d inst p Hok Hi Hd Hp. destruct (dispatchable c inst p) eqn:E; [|reflexivity]. exfalso.
  apply (advertised_eq_dispatchable c inst Hok Hi) in E.
  destruct (descriptor_ok_parts c d Hd) as [_ [_ [_ Hn]]]. exact (Hn p Hp E).
Qed.

(* ---- proxy ------------------------------------------------------------------------------------------ *)
Lemma assoc_notin : forall A n (l : list (name * A)), ~ In n (map fst l) -> assoc n l = None.
Proof.
  intros A n l H. destruct (assoc n l) eqn:E; [|reflexivity]. exfalso. apply H. eapply assoc_In. exact E.
Qed.

Lemma proxy_binding_None : forall p n, ~ In n (map fst p) -> proxy_binding p n = None.
Proof.
  intros p n H. unfold proxy_binding. apply assoc_notin. rewrite map_rev. rewrite <- in_rev. exact H.
Qed.

Lemma proxy_sets_names : forall d,
  map fst (proxy_sets d) = proxy_internal ++ d_consts d ++ d_methods d ++ d_signals d ++ ["rpc_nonblocking"].
Proof.
  intros d. unfold proxy_sets. repeat rewrite map_app. repeat rewrite map_map. simpl.
  repeat rewrite map_id. reflexivity.
Qed.

Lemma forallb_negb_mem : forall (l : list name) bad n,
  forallb (fun x => negb (mem x bad)) l = true -> In n bad -> ~ In n l.
Proof.
  intros l bad n H Hb Hl. rewrite forallb_forall in H. specialize (H n Hl).
  apply negb_true_iff in H. apply mem_false_not_In in H. exact (H Hb).
Qed.

Lemma make_proxy_some : forall d p, make_proxy d = Some p -> p = proxy_sets d.
Proof.
  intros d p H. unfold make_proxy in H.
  destruct (existsb (fun x => String.eqb (fst x) "address") (proxy_sets d)); [discriminate|].
  inversion H. reflexivity.
Qed.

(* the proxy's own lock/unlock/force_unlock/is_locked stay the proxy class's methods *)
Lemma proxy_lock_control_intact : forall c d p n,
  class_ok c = true -> make_descriptor c = DOk d -> make_proxy d = Some p ->
  In n protected -> proxy_binding p n = None.
Proof.
  intros c d p n Hok Hd Hp Hn.
  destruct (class_ok_parts c Hok) as [_ [_ [_ Hside]]].
  unfold proxy_side_ok in Hside. apply andb_true_iff in Hside. destruct Hside as [Hcs _].
  destruct (descriptor_ok_parts c d Hd) as [Hm [Hs [Hc Hnp]]].
  apply make_proxy_some in Hp. subst p.
  apply proxy_binding_None. rewrite proxy_sets_names. rewrite Hm, Hs, Hc.
  pose proof (forallb_negb_mem _ _ n Hcs Hn) as Hcs'.
  intro Hin. repeat (apply in_app_or in Hin; destruct Hin as [Hin|Hin]).
  - simpl in Hn, Hin. repeat (destruct Hn as [Hn|Hn]; [subst n; repeat (destruct Hin as [Hin|Hin]; try discriminate); exact Hin|]). exact Hn.
  - apply Hcs'. apply in_or_app. left. rewrite dedup_In in Hin. exact Hin.
  - exact (Hnp n Hn Hin).
  - apply Hcs'. apply in_or_app. right. exact Hin.
  - simpl in Hn, Hin. repeat (destruct Hn as [Hn|Hn]; [subst n; repeat (destruct Hin as [Hin|Hin]; try discriminate); exact Hin|]). exact Hn.
Qed.

(* methods-only version, no side condition: construction from the descriptor never binds a protected
   name to a forwarding method *)
Lemma proxy_no_protected_method : forall c d p n,
  make_descriptor c = DOk d -> make_proxy d = Some p -> In n protected ->
  proxy_binding p n <> Some PMethod.
Proof.
  intros c d p n Hd Hp Hn Hb.
  apply make_proxy_some in Hp. subst p.
  unfold proxy_binding in Hb. apply assoc_In_pair in Hb. apply in_rev in Hb.
  unfold proxy_sets in Hb. repeat (apply in_app_or in Hb; destruct Hb as [Hb|Hb]);
    try (apply in_map_iff in Hb; destruct Hb as [x [Hx Hin]]; inversion Hx; subst x;
         exact (protected_never_advertised c d n Hd Hn Hin)).
  simpl in Hb. destruct Hb as [Hb|[]]. inversion Hb.
Qed.

(* the set of forwarding methods a proxy built from the descriptor offers is the advertised set *)
Lemma rev_assoc_last : forall A (l1 l2 : list (name * A)) n,
  ~ In n (map fst l2) -> assoc n (rev (l1 ++ l2)) = assoc n (rev l1).
Proof.
  intros A l1 l2 n H. rewrite rev_app_distr.
  assert (Hr : ~ In n (map fst (rev l2))) by (rewrite map_rev, <- in_rev; exact H).
  induction (rev l2) as [|[m b] r IH]; simpl in *.
  - reflexivity.
  - destruct (String.eqb n m) eqn:E.
    + apply String.eqb_eq in E. exfalso. apply Hr. left. symmetry. exact E.
    + apply IH. intro Hin. apply Hr. right. exact Hin.
Qed.

Lemma assoc_rev_app_hit : forall A (l1 l2 : list (name * A)) n a,
  assoc n (rev l2) = Some a -> assoc n (rev (l1 ++ l2)) = Some a.
Proof.
  intros A l1 l2 n a H. rewrite rev_app_distr.
  induction (rev l2) as [|[m b] r IH]; simpl in *.
  - discriminate.
  - destruct (String.eqb n m); [exact H | apply IH; exact H].
Qed.

Lemma assoc_map_const : forall (l : list name) (s : psrc) n,
  In n l -> assoc n (rev (map (fun x => (x, s)) l)) = Some s.
Proof.
  intros l s n H. rewrite <- map_rev. apply in_rev in H.
  induction (rev l) as [|m r IH]; simpl in *.
  - destruct H.
  - destruct (String.eqb n m) eqn:E; [reflexivity|]. apply IH. destruct H as [H|H]; [|exact H].
    subst. rewrite String.eqb_refl in E. discriminate.
Qed.

Lemma proxy_methods_eq_advertised : forall c d p n,
  class_ok c = true -> make_descriptor c = DOk d -> make_proxy d = Some p ->
  (In n (proxy_methods p) <-> In n (advertised c)).
Proof.
  intros c d p n Hok Hd Hp.
  destruct (class_ok_parts c Hok) as [_ [_ [_ Hside]]].
  unfold proxy_side_ok in Hside. apply andb_true_iff in Hside. destruct Hside as [_ Hadv].
  rewrite forallb_forall in Hadv.
  destruct (descriptor_ok_parts c d Hd) as [Hm [Hs [Hc _]]].
  apply make_proxy_some in Hp. subst p.
  unfold proxy_methods. rewrite dedup_In, filter_In. split.
  - intros [_ Hb]. destruct (proxy_binding (proxy_sets d) n) as [[]|] eqn:E; try discriminate.
    unfold proxy_binding in E. apply assoc_In_pair in E. apply in_rev in E.
    unfold proxy_sets in E. repeat (apply in_app_or in E; destruct E as [E|E]);
      try (apply in_map_iff in E; destruct E as [x [Hx Hin]]; inversion Hx; fail).
    + apply in_map_iff in E. destruct E as [x [Hx Hin]]. inversion Hx; subst x. rewrite <- Hm. exact Hin.
    + simpl in E. destruct E as [E|[]]. inversion E.
  - intros Ha. specialize (Hadv n Ha). apply andb_true_iff in Hadv. destruct Hadv as [Hres Hsig].
    apply negb_true_iff in Hres. apply mem_false_not_In in Hres.
    apply negb_true_iff in Hsig. apply mem_false_not_In in Hsig.
    assert (Hb : proxy_binding (proxy_sets d) n = Some PMethod).
    { unfold proxy_binding, proxy_sets.
      rewrite app_assoc. rewrite app_assoc. rewrite app_assoc.
      rewrite rev_assoc_last.
      2:{ simpl. intros [H|[]]. apply Hres. unfold proxy_reserved. apply in_or_app. right. left. exact H. }
      rewrite rev_assoc_last.
      2:{ rewrite map_map. simpl. rewrite map_id. rewrite Hs. exact Hsig. }
      apply assoc_rev_app_hit. apply assoc_map_const. rewrite Hm. exact Ha. }
    split.
    + rewrite proxy_sets_names. apply in_or_app. right. apply in_or_app. right. apply in_or_app. left.
      rewrite Hm. exact Ha.
    + rewrite Hb. reflexivity.
Qed.

(* ---- history independence ---------------------------------------------------------------------------- *)
Section HistoryProofs.
  Variables (A R T : Type).
  Variable teqb : T -> T -> bool.

  Lemma handle_verdict : forall c (bh : name -> A -> list name -> list name * R) (st : wstate A T) (rq : request A T),
    reply_verdict R (snd (Model.handle A R T teqb c bh st rq)) =
    if admits A T teqb st rq then Some (check_and_get c (w_inst st) (rq_name rq)) else None.
  Proof.
    intros c bh st rq. unfold Model.handle. destruct (admits A T teqb st rq); [|reflexivity].
    destruct (check_and_get c (w_inst st) (rq_name rq)) eqn:Ev; try reflexivity.
    destruct (bh (rq_name rq) (rq_args rq) (w_inst st)). reflexivity.
  Qed.

  (* the verdict is a function of the class table and the instance dictionary only *)
  Lemma verdict_function_of_table_and_dict :
    forall c (bh1 bh2 : name -> A -> list name -> list name * R) (st1 st2 : wstate A T) (rq1 rq2 : request A T),
    w_inst st1 = w_inst st2 -> rq_name rq1 = rq_name rq2 ->
    admits A T teqb st1 rq1 = true -> admits A T teqb st2 rq2 = true ->
    reply_verdict R (snd (Model.handle A R T teqb c bh1 st1 rq1)) =
    reply_verdict R (snd (Model.handle A R T teqb c bh2 st2 rq2)) /\
    reply_verdict R (snd (Model.handle A R T teqb c bh1 st1 rq1)) =
    Some (check_and_get c (w_inst st1) (rq_name rq1)).
  Proof.
    intros c bh1 bh2 st1 st2 rq1 rq2 Hi Hn H1 H2. rewrite !handle_verdict, H1, H2, Hi, Hn. split; reflexivity.
  Qed.

  Variable behave : cls -> name -> A -> list name -> list name * R.
  Hypothesis behave_keeps_dict : forall c n a i, fst (behave c n a i) = i.

  Lemma step_inst : forall c (st : wstate A T) o,
    w_inst (fst (Model.step A R T teqb c (behave c) st o)) = w_inst st.
  Proof.
    intros c st [rq|t]; simpl; [|reflexivity]. unfold Model.handle.
    destruct (admits A T teqb st rq); [|reflexivity].
    destruct (check_and_get c (w_inst st) (rq_name rq)); try reflexivity.
    pose proof (behave_keeps_dict c (rq_name rq) (rq_args rq) (w_inst st)) as H.
    destruct (behave c (rq_name rq) (rq_args rq) (w_inst st)) as [i r]. simpl in *. exact H.
  Qed.

  Lemma sys_step_keeps : forall (s : list (object A T)) i o j c st,
    nth_error s j = Some (c, st) ->
    exists st', nth_error (fst (sys_step A R T teqb behave s i o)) j = Some (c, st') /\ w_inst st' = w_inst st.
  Proof.
    induction s as [|[c0 st0] r IH]; intros i o j c st Hj.
    - destruct j; discriminate.
    - simpl. destruct i as [|i'].
      + destruct (Model.step A R T teqb c0 (behave c0) st0 o) as [st' x] eqn:Es. simpl.
        destruct j as [|j']; simpl in *.
        * inversion Hj; subst. exists st'. split; [reflexivity|].
          pose proof (step_inst c st o) as H. rewrite Es in H. exact H.
        * exists st. split; [exact Hj | reflexivity].
      + destruct (sys_step A R T teqb behave r i' o) as [r' y] eqn:Er. simpl.
        destruct j as [|j']; simpl in *.
        * inversion Hj; subst. exists st. split; reflexivity.
        * specialize (IH i' o j' c st Hj). rewrite Er in IH. exact IH.
  Qed.

  Lemma sys_run_keeps : forall l (s : list (object A T)) j c st,
    nth_error s j = Some (c, st) ->
    exists st', nth_error (fst (sys_run A R T teqb behave s l)) j = Some (c, st') /\ w_inst st' = w_inst st.
  Proof.
    induction l as [|[i o] r IH]; intros s j c st Hj; simpl.
    - exists st. split; [exact Hj | reflexivity].
    - destruct (sys_step A R T teqb behave s i o) as [s1 x] eqn:Es.
      destruct (sys_step_keeps s i o j c st Hj) as [st1 [H1 Hi1]]. rewrite Es in H1. simpl in H1.
      destruct (IH s1 j c st1 H1) as [st2 [H2 Hi2]].
      destruct (sys_run A R T teqb behave s1 r) as [s2 xs]. simpl in *.
      exists st2. split; [exact H2 | congruence].
  Qed.

  Lemma history_independent : forall l (s : list (object A T)) j c st (rq : request A T),
    nth_error s j = Some (c, st) ->
    exists st', nth_error (fst (sys_run A R T teqb behave s l)) j = Some (c, st') /\
      w_inst st' = w_inst st /\
      reply_verdict R (snd (Model.handle A R T teqb c (behave c) st' rq)) =
      if admits A T teqb st' rq then Some (check_and_get c (w_inst st) (rq_name rq)) else None.
  Proof.
    intros l s j c st rq Hj. destruct (sys_run_keeps l s j c st Hj) as [st' [H1 H2]].
    exists st'. split; [exact H1|]. split; [exact H2|]. rewrite handle_verdict, H2. reflexivity.
  Qed.
End HistoryProofs.

(* ---- the name table of a context: lookups -------------------------------------------------------------- *)
Section RegistryProofs.
  Variables (A R T : Type).
  Variable teqb : T -> T -> bool.
  Variable behave : cls -> name -> A -> list name -> list name * R.

  Notation registry := (registry A T).
  Notation bound := (bound A T).
  Notation rremove := (rremove A T).
  Notation rstep := (rstep A R T teqb behave).
  Notation rrun := (rrun A R T teqb behave).
  Notation rlookup := (rlookup A T).

  Lemma bound_rremove_same : forall (g : registry) n, bound (rremove n g) n = None.
  Proof.
    induction g as [|[m x] r IH]; intros n; simpl; [reflexivity|].
    destruct (String.eqb n m) eqn:E; [apply IH|]. unfold Model.bound in *. simpl. rewrite E. apply IH.
  Qed.

  Lemma bound_rremove_other : forall (g : registry) n k, n <> k -> bound (rremove n g) k = bound g k.
  Proof.
    induction g as [|[m x] r IH]; intros n k Hnk; simpl; [reflexivity|]. unfold Model.bound in *.
    destruct (String.eqb n m) eqn:E.
    - apply String.eqb_eq in E. subst m. simpl.
      destruct (String.eqb k n) eqn:E2; [apply String.eqb_eq in E2; congruence | apply IH; exact Hnk].
    - simpl. destruct (String.eqb k m); [reflexivity | apply IH; exact Hnk].
  Qed.

  Definition rop_name (o : rop A T) : name :=
    match o with RCreate n _ _ => n | RRemove n => n | RRequest n _ => n end.

  (* operations on other names do not touch the binding of k *)
  Lemma rstep_other : forall (g : registry) o k, rop_name o <> k -> bound (rstep g o) k = bound g k.
  Proof.
    intros g o k H. destruct o as [n c i|n|n o]; simpl in *.
    - destruct (bound g n); [reflexivity|]. destruct (make_descriptor c); try reflexivity.
      unfold Model.bound. simpl. destruct (String.eqb k n) eqn:E; [apply String.eqb_eq in E; congruence | reflexivity].
    - apply bound_rremove_other. exact H.
    - destruct (bound g n) as [[c st]|] eqn:Eb; [|reflexivity].
      unfold Model.bound at 1. simpl. destruct (String.eqb k n) eqn:E; [apply String.eqb_eq in E; congruence|].
      apply bound_rremove_other. exact H.
  Qed.

  (* a request keeps the class bound to the name (and, if methods do not rebind attributes, the dictionary) *)
  Lemma rstep_request_class : forall (g : registry) n o c st,
    bound g n = Some (c, st) ->
    bound (rstep g (RRequest n o)) n = Some (c, fst (step A R T teqb c (behave c) st o)).
  Proof.
    intros g n o c st Hb. simpl. rewrite Hb. unfold Model.bound. simpl. rewrite String.eqb_refl. reflexivity.
  Qed.

  Lemma rstep_remove : forall (g : registry) n, bound (rstep g (RRemove n)) n = None.
  Proof. intros g n. simpl. apply bound_rremove_same. Qed.

  Lemma rstep_create_free : forall (g : registry) n c i d,
    bound g n = None -> make_descriptor c = DOk d ->
    bound (rstep g (RCreate n c i)) n = Some (c, mkW None i []).
  Proof.
    intros g n c i d Hb Hd. simpl. rewrite Hb, Hd. unfold Model.bound. simpl. rewrite String.eqb_refl. reflexivity.
  Qed.

  Lemma rrun_app : forall l1 l2 (g : registry), rrun g (l1 ++ l2) = rrun (rrun g l1) l2.
  Proof. induction l1 as [|o r IH]; intros l2 g; simpl; [reflexivity | apply IH]. Qed.

  (* what a lookup yields is a function of the current binding *)
  Lemma rlookup_current : forall (g : registry) n ms,
    rlookup g n = Some ms ->
    exists c st d p, bound g n = Some (c, st) /\ make_descriptor c = DOk d /\ make_proxy d = Some p /\
                     ms = proxy_methods p.
  Proof.
    intros g n ms H. unfold Model.rlookup in H.
    destruct (bound g n) as [[c st]|] eqn:Eb; [|discriminate].
    destruct (make_descriptor c) as [| |d] eqn:Ed; try discriminate.
    destruct (make_proxy d) as [p|] eqn:Ep; [|discriminate].
    inversion H; subst. exists c, st, d, p. repeat split; assumption.
  Qed.

  Lemma lookup_advertises_current : forall l (g : registry) n ms,
    rlookup (rrun g l) n = Some ms ->
    exists c st, bound (rrun g l) n = Some (c, st) /\
      (class_ok c = true -> incl (w_inst st) (scanned c) ->
       forall m, In m ms <-> dispatchable c (w_inst st) m = true).
  Proof.
    intros l g n ms H. destruct (rlookup_current _ n ms H) as [c [st [d [p [Hb [Hd [Hp Hms]]]]]]].
    exists c, st. split; [exact Hb|]. intros Hok Hi m. subst ms.
    rewrite (proxy_methods_eq_advertised c d p m Hok Hd Hp).
    apply advertised_eq_dispatchable; assumption.
  Qed.

  (* remove + create under the same name: the next lookup is built from the NEW class, whatever happened
     before (earlier lookups are not even operations of the model: they leave no trace) *)
  Lemma lookup_after_recreate : forall l (g : registry) n c2 i2 d p,
    make_descriptor c2 = DOk d -> make_proxy d = Some p ->
    rlookup (rrun g (l ++ [RRemove n; RCreate n c2 i2])) n = Some (proxy_methods p) /\
    bound (rrun g (l ++ [RRemove n; RCreate n c2 i2])) n = Some (c2, mkW None i2 []).
  Proof.
    intros l g n c2 i2 d p Hd Hp. rewrite rrun_app.
    change (rrun (rrun g l) [RRemove n; RCreate n c2 i2])
      with (rstep (rstep (rrun g l) (RRemove n)) (RCreate n c2 i2)).
    set (g1 := rrun g l).
    assert (Hb : bound (rstep (rstep g1 (RRemove n)) (RCreate n c2 i2)) n = Some (c2, mkW None i2 [])).
    { eapply rstep_create_free; [apply rstep_remove | exact Hd]. }
    split; [|exact Hb]. unfold Model.rlookup. rewrite Hb, Hd, Hp. reflexivity.
  Qed.
End RegistryProofs.
