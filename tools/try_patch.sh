#!/bin/sh
# usage: tools/try_patch.sh <patch.diff> <ID> [check args...]
# Applies a patch to a scratch worktree of /repo (outside /repo and /verif), runs the check
# against it with QMI_REPO pointing there, and removes the worktree.
set -e
P="$(realpath "$1")"; ID="$2"; shift 2
WT="/var/tmp/qmi-wt.$$"
git -C /repo worktree add -q --detach "$WT" HEAD
trap 'git -C /repo worktree remove --force "$WT"' EXIT
git -C "$WT" apply "$P"
QMI_REPO="$WT" VERIF_NO_EVIDENCE=1 "$(dirname "$0")/../check" "$ID" "$@" || echo "exit=$?"
