#!/bin/sh
# Sensitivity self-test: apply every mutants/<ID>/*.diff (and seeded/<ID>/patch.diff) to a scratch worktree and run the
# property's check against it; prints caught / MISSED / not-applicable per mutant. Usage: tools/selftest.sh [ID ...]
cd "$(dirname "$0")/.."
IDS="$*"; [ -z "$IDS" ] && IDS="$(ls mutants seeded 2>/dev/null | grep '^C[0-9]' | sort -u)"
for id in $IDS; do
  for m in mutants/$id/*.diff seeded/$id/patch.diff; do
    [ -f "$m" ] || continue
    if ! git -C /repo apply --check "$(realpath "$m")" 2>/dev/null; then echo "$m: not-applicable (does not apply to current /repo)"; continue; fi
    out="$(tools/try_patch.sh "$m" "${id%%-*}" 2>&1)"
    if echo "$out" | grep -q '^VIOLATION'; then echo "$m: caught ($(echo "$out" | grep -c '^VIOLATION') violation lines)"; else echo "$m: MISSED"; fi
  done
done
