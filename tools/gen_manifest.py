#!/usr/bin/env python3
"""Regenerates /verif/MANIFEST.json from the table below (single source of truth)."""
import json, os
V = os.path.dirname(os.path.dirname(os.path.abspath(__file__)))
props = [json.loads(l) for l in open(os.path.join(V, "properties.jsonl"))]

CLAIMED = {
 "C09": dict(
    category="proof", design_ref="7 (C09)",
    text="Coq theorems (induction over unbounded histories, every capacity > 0, both policies) on an executable "
         "model of QMI_SignalReceiver: bound, arrival counting, strictly increasing numbers, payload = n-th arrival, gap, "
         "get-iff-nonempty, oldest-first, policy on overflow. Tie: the model is evaluated by coqc/vm_compute on the same "
         "histories as the real class (exhaustive small scope + random) and must give identical outputs; an independent "
         "oracle re-states the property on the implementation's observations.",
    note="Trusted: Coq kernel + vm_compute; hand-written model tied by differential runs (generator-bounded); python harness; "
         "CPython deque/Condition. Blocking wait path is covered under C11, not here. No axioms (all theorems closed).",
    technique="Coq proof by induction over operation histories + model/implementation correspondence by vm_compute"),
 "C04": dict(category="proof", design_ref="7 (C04)",
    text="24 Coq theorems (all closed) on an executable lock-machine model, for every state and unbounded histories with any number of proxies: "
         "every request gets a reply; owner changes only by acquire-when-free / release-by-owner / force-release; denial has no effect; a call runs iff free or owner, "
         "refused calls execute nothing; is_locked truthful; proxy return values and remembered token agree with the object; automatic tokens pairwise distinct, also across "
         "same-named contexts. The token generator takes the per-instance nonce as an input: distinctness and exclusivity of automatic tokens are proved under the explicit hypothesis that distinct same-named instances carry distinct nonces (C04_tokens_same_name: same-named tokens coincide iff nonce and counter coincide; C04_equal_nonces_refuted: the hypothesis is necessary). Tie: the hypothesis is checked on the real QMI_Context constructor - pairs and triples of same-named contexts constructed under an IDENTICAL ambient state (global PRNG seed/state, all clocks, pid, thread, id()/hash(), construction order, alone and combined; stub drive and real TCP contexts), then lock and call through their own proxies: the second lock must be refused and the tokens must differ; vm_compute correspondence on an exhaustive (state x action x token) table against the real _RpcThread handlers, exhaustive short and random "
         "histories through real QMI_RpcProxy/QMI_RpcFuture, and real QMI_Contexts over loop-back TCP; independent oracle.",
    note="Trusted: Coq kernel+vm_compute; hand-written model tied by differential runs (generator-bounded); harness stubs; nonces_ok is assumed, not proved: the nonce is drawn by the constructor from the operating system's entropy (os.urandom, 64 bits), the one source the check never equalises (os.urandom/getrandom, secrets, SystemRandom, uuid4); a genuine 2^-64 coincidence or a defective OS source is out of reach. "
         "Sequential requests only (concurrency: C03). Five defects found by this check were repaired by fix: commits (see known_findings.json).",
    technique="Coq case analysis + induction over operation histories; model/implementation correspondence by vm_compute; nonce-hypothesis check under equalised ambient state"),
 "C06": dict(category="proof", design_ref="7 (C06)",
    text="15 Coq theorems (all closed, unbounded) on an executable model of _PeerTcpConnection framing/handshake/pending handling: segmentation invariance, exact in-order delivery, "
         "containment of bad frames / handshake violations / forged addresses, exactly one error reply per pending request on close, no request left unanswered. Tie: the real class "
         "under the real _SocketManager with a scripted socket, faults at every position x 5 segmentations, compared event by event with the model; independent oracle.",
    note="Trusted: Coq kernel+vm_compute; hand model; harness (scripted socket, stub loop/router); pickle round trip assumed (deser is a Section variable); payload bytes the framing "
         "layer never reads are length-preserving surrogates except in a literal sample; independence of other connections is checked by the oracle only. The correspondence compares what the property fixes (messages delivered in order, which pending requests get exactly one delivery error and which were refused by the router, messages written, closed and removed from the peer map, peer name / pending ids / buffer length while open); the KIND and text of a protocol error, log output and the sizes of locally generated replies are abstracted; MAX_MESSAGE_SIZE and the recv chunk size are read from the code under test.",
    technique="Coq induction over frame lists and operation scripts; H1 differential run with fault injection"),
 "C11": dict(category="proof", design_ref="7 (C11)",
    text="9 Coq theorems (all closed) on a concurrent machine running the transcribed stop_task / wait_for_condition / get_next_signal (blocking, timed and the non-blocking form timeout=0) / sleep / loop-task programs, with and without a second waiter on the same receiver (7 variants, each also in the form where wait_for_condition tests the stop flag before registering the condition - a choice the property leaves open; 12 transcriptions x signal environment, a real schedule must be a path of one of the two forms), at "
         "synchronisation granularity: once stop() has returned the task is never parked un-notified; a wait begun after stop never parks and raises; loop_finalize always runs; "
         "exactly one outcome; progress needs neither time nor signals and is bounded (zero virtual time); no deadlock; a queued signal wakes a waiting reader. Proved for executions of any length by reflection on the "
         "finite reachable set (computed and checked closed by vm_compute). Tie: the real _TaskThread/QMI_Task/QMI_LoopTask/QMI_SignalReceiver run under a deterministic scheduler; "
         "every schedule with <= 2 (quick) / 3 (thorough) preemptions is enumerated, plus random schedules with every source line of the protocol functions as a switch point; each recorded synchronisation trace must be accepted step by step by the model with the same outcome; order-based oracle: a wait that starts after the stop flag was set ends with the stop exception.",
    note="Trusted: Coq kernel+vm_compute; dsched (cooperative Lock/RLock/Condition/Event with monitor semantics - it defines what a schedule is); finite abstraction stated in the theorems "
         "(queue empty/non-empty, one wait per run, time-outs fire only while parked); atomicity of code between two synchronisation operations of one thread.",
    technique="finite-state reflection (closed reachable set) in Coq + schedule enumeration with trace acceptance"),
 "C13": dict(category="proof", design_ref="7 (C13)",
    text="23 Coq theorems (all closed) over an executable model of the TCP/UDP/serial transports (buffered read loops with deadline arithmetic, discard, open/close, write) with an adversarial device oracle, proved for EVERY value of the tuning constants (packet sizes, serial poll interval: read from the live classes on every run) and EVERY policy for the choices the property leaves open (64 policies: return-or-timeout when the data is complete at/after the deadline, < vs <= at the deadline per operation, discard polling once or until empty, read_until open check before or after the buffer search): stream conservation (no loss / duplication / reordering, discarded bytes never resurface), exact-n read, shortest-terminator read_until, failed calls consume nothing, read_until_timeout <= n, a closed transport never reads or writes, written bytes reach the device unchanged and in order, fuel always sufficient; every outcome the correspondence accepts (allowed_outcomes) is proved to satisfy these clauses (C13_allowed_step_sound, C13_allowed_outcomes_sound), and the pinned behaviour is one element (C13_allowed_contains_pinned). Tie: per-call differential execution against qmi/core/transport.py (results and stand-in calls incl. settimeout values) as MEMBERSHIP in allowed_outcomes with live constants, plus an independent property oracle.",
    note="Trusted: Coq 8.16.1 kernel + vm_compute; hand-written Model.v (9k cases quick / 79k thorough); harness stand-ins for socket, serial.Serial, time.monotonic. Assumptions: TCP is a FIFO stream; UDP datagrams <= min(MIN,MAX)_PACKET_SIZE; pyserial read(k) returns <= k bytes; byte counts >= 0; clock advances >= 0 and tick > 0 (serial fuel theorem only). Of a write only the bytes sent, in order, are observed. Still pinned (a change shows as model-differs without a failing input): read()/read_until_timeout() on a closed transport always refused, the size formula max(n - nbuf, MIN) in read(), serial non-blocking path via in_waiting, serial read_until one byte at a time. The UDP read_until_timeout defect found by this check was repaired by a fix: commit.",
    technique="induction over fuel/oracle with a stream-conservation invariant; policy-parameterised model with allowed_outcomes membership check; decreasing-measure fuel proofs; differential testing with scripted device + virtual clock, live constants"),
 "C16": dict(category="proof", design_ref="7 (C16)",
    text="20 Coq theorems (all closed; all texts, annotations, types and data): the comment scanner is exactly the regex language and cuts each line at its first '#' outside a string; duplicate "
         "keys rejected; dump output is untouched by stripping; typed parse is total with located errors, strict (accept iff no offending item), and round-trips both ways up to the "
         "documented int->float / list->tuple / defaults, incl. bare List/Dict/Tuple; the class check (_check_config_struct_type) accepts exactly the supported annotation grammar with "
         "located refusals, and a checked class parses inside that grammar (the unsupported-type branches are unreachable). Tie: generated documents (incl. a fixed bucket of Unicode line "
         "separators in comments and strings) and dynamically generated @configstruct classes with supported and unsupported annotations (plus the shipped Cfg* structures) through the "
         "real functions, compared with the model (result, exception class, item path); file round trips through a scratch file; independent oracles.",
    note="Trusted: Coq kernel+vm_compute; hand model; harness class builder/path reconstruction; json.loads/json.dumps and float(int) are Section variables (json round trip is a premise "
         "of C16_dump_load only); the re engine is replaced by the scanner and compared on every case; typing's annotation identity/cache behaviour is outside the model; file I/O is "
         "oracle-only. Two defects found were repaired by fix: commits.",
    technique="mutual structural induction over type and annotation grammars; regex-language equivalence; differential testing"),
 "C18": dict(category="proof", design_ref="7 (C18)",
    text="20 Coq theorems (all closed, unbounded) on an executable model of the UDP packet codecs, a transcription of fnmatch.translate, the responder and the collector: pack/unpack round "
         "trip incl. 63/64-byte names, exact unpack strictness, matcher sound and complete w.r.t. a declarative Glob relation, answers iff both filters match with echoed id/timestamp "
         "and own name/workgroup/pid/port, junk ignored statelessly, collector = matching id and other name. Tie: real _UdpResponder._handle_read on a scripted socket, real "
         "unpack_qmi_udp_packet, real ping_qmi_contexts/discover_peer_contexts on scripted socket/selector/clock; gmatch vs fnmatch.fnmatchcase differential.",
    note="Trusted: Coq kernel+vm_compute; hand model; harness; fnmatch.fnmatchcase, strict UTF-8 and ctypes layout are transcribed and compared, not verified. The kill request is never "
         "generated. Compared: which datagrams are accepted/answered, decoded fields, bytes of every answer, the set of peers reported. NOT compared (left open by the property, recorded as observations): the exception class of a rejection, whether the handler returns or raises into the loop, log output, receive buffer size (live-read), datagrams handled per wake-up, order of reported peers, the asker's id source, socket hygiene. Responder survival is a claim, checked on the implementation after every sequence (reader still registered, socket open, no SystemExit/KeyboardInterrupt into the loop, a probe request answered). Real broadcast delivery is outside.",
    technique="executable Gallina model + induction proofs + vm_compute correspondence + fnmatch differential; fixed bucket of field-straddling filters and '/' workgroups; burst delivery with an asyncio-like scripted loop"),
 "C20": dict(category="proof", design_ref="7 (C20)",
    text="18 Coq theorems (all closed, unbounded, arbitrary upper/lower functions) on an executable model of the ADbasic parser analysis and the AdwinProcess accessors: binding one-to-one "
         "under case folding and equal to the recognised definitions; errors located at an offending definition and clashing definitions always rejected; _find_sequential_ranges = sorted "
         "dedup input in maximal disjoint ranges; set_par_multiple/get_par_multiple succeed iff the single accesses do, with equal register file/result and exactly the bound registers "
         "touched once; a symbol occurring again later in the list (a file included more than once) changes neither the binding nor the reported error (analyze (dedup l) = analyze l). Tie: generated ADbasic programs (include files in a scratch dir, incl. the same literal include string reaching two different files, and circular includes under a watchdog), symbol lists, range inputs and op sequences over a simulated ADwin through the real code, "
         "compared on what the property fixes: bindings and batch-read results as maps, rejections as (ParseException, file, line), symbol lists modulo repeated inclusion, per accessor call the sets of registers read and written plus final register contents; violation claims are judged against the definitions written into the generated program, not against the code's own scan; independent oracles.",
    note="Trusted: Coq kernel+vm_compute; hand model; harness (generator, FakeAdwin); CPython str.upper/lower on ASCII, re on 7 fixed patterns (modelled as scanners), os.path, int(). "
         "ASCII identifiers, values are opaque atoms. Termination of the include traversal is not part of C20 (on circular include graphs either non-termination or the result on the acyclic unfolding is accepted); the same parameter requested under two spellings in one batch call is outside the property (only consistency of the returned keys is checked); effects of a failing batch call and order/grouping of driver calls are not compared.",
    technique="Coq invariant and induction proofs over symbol lists; correspondence by vm_compute with a simulated ADwin"),
 "C14": dict(category="proof", design_ref="7 (C14)",
    text="18 Coq theorems (all closed), incl. an explicit set of ALLOWED outcomes (Model.allowed): a repeated keyword may resolve to any ONE of the values the string gives or to the descriptor error; a non-strict form, a surplus field or a non-canonical number spelling may be the error; C14_allowed_faithful: every allowed Ok outcome is a transport of the dispatched class in which each parameter holds the typed value of one of the parts the string gives for it, else the caller default, else the constructor default, nothing outside the table; C14_allowed_tight: for strict, canonically written descriptors without a repeated keyword the set is the single pinned outcome; C14_allowed_has_pinned. The correspondence tests MEMBERSHIP of the observed outcome in the allowed set. The theorems are generic over every string, default dictionary, well-formed parser table and behaviour of int()/float()/host predicates: faithfulness of "
         "the table-driven parser and of create_transport's dispatch, rejection of missing-required / unknown keyword / untypable value / repeated '=', bracketed (IPv6) hosts, "
         "USBTMC resource round trip; plus 12 obligations re-proved by vm_compute on every run about the parser tables REGENERATED on every run from the LIVE objects of the imported qmi.core.transport (every module-level TransportDescriptorParser instance: interface, positional and keyword specs with type and required flag; constructor signatures and defaults by inspect.signature; the dispatch of create_transport found by probing the real function with recording parsers and constructors), fail closed on anything the model has no "
         "counterpart for. Totality of the real code (no exception class other than the descriptor error escapes) is established by the differential run: ~5.4k grammar-built, "
         "near-miss and arbitrary descriptors per quick run against real create_transport, the six real parsers and fresh parsers over random tables.",
    note="Trusted: Coq kernel+vm_compute; hand model of the regex tokeniser/parser/constructor validation; the live-object translator (no syntactic shape of transport.py is demanded; a syntactic reader is kept as an informational cross-check in the evidence); helper functions (host predicate, validators, _format_resources) are tied by behaviour at their boundaries; keyword tables are compared as maps (order is meaningless); "
         "int(), float(), host syntax and inet_pton are not modelled (real answers are fed to the model); non-Windows branch only. Seven escapes found were repaired by fix: commits; "
         "two USBTMC resource round-trip findings (serial numbers containing ':' or '=') remain open known findings.",
    technique="generic table-driven Coq theorems + reflection on tables regenerated from the live parser objects + differential fuzzing"),
 "C15": dict(category="proof", design_ref="7 (C15)",
    text="63 Coq theorems + 8 generated per-packet obligations (all closed) over executable models of the five codecs. Every tuning constant or open implementation choice the property does not fix is a PARAMETER of the model, universally quantified in the theorems and read from (or probed on) the code under test on every run: Interbus retry bound, host base address and message-type set, USBTMC max_transfer_size, whether APT ask checks the id of HEADER_ONLY replies (C15_ib_attempt: a correct reply on attempt k yields the payload iff k <= bound+1, otherwise an error, never wrong data). Interbus: round trip incl. reserved bytes in data and CRC, framing, "
         "escape inverse, CRC append, rejection/soundness, detection of every single-byte corruption, address matching and bounded retries. USBTMC: write_raw reassembled exactly by a "
         "reference device for every length, transfer size and tag incl. the Advantest 63-byte quirk; read_raw for every split, unlimited and size-limited. T2: batch-split invariance, "
         "timestamp formula, refinement of an unbounded physical-time specification across the 2^64 wrap (no event lost or duplicated). SCPI: block round trip and soundness under any "
         "splitting of the reply into transfers (also inside the header digits), decimal codec, ask/write terminator and non-ASCII behaviour. APT: header round trips, the message-id check "
         "(and, stated explicitly, its absence for HEADER_ONLY types), field-by-field pack/unpack round trip generic over layout tables REGENERATED from apt_packets.py on every run "
         "(fail-closed translator; layout_wf per packet by vm_compute). Tie: differential execution of the real code with recording / chunked transports and fake bulk endpoints (4.1k "
         "cases quick, 91k thorough) plus an independent conforming-device oracle and a pinned table of documented APT layouts.",
    note="Trusted: Coq kernel+vm_compute incl. CRC sweeps (65536-state, 255-value) lifted by forallb_forall (finite domains, bounds stated); hand models; harness stubs; the APT translator; numpy "
         "uint64 arithmetic and ctypes packed layout / truncation / char-array NUL handling assumed and compared. USBTMC read_raw quirk branches and USBError paths, term_char, T3 are outside; "
         "C15_usbtmc_in_limited assumes the device never exceeds the requested TransferSize (the _served form does not). The tie compares outcomes as data-versus-error: exception class, wording and bytes consumed before an error are not fixed by the property (theorem statements carry the current classes). The Interbus retry POLICY (malformed/timeout => resend and retry; mis-addressed => wait without resend; source toggle) is modelled as the code has it: a change of that policy shows as a broken tie without a failing input, never as a concrete claim.",
    technique="executable Gallina codecs; induction, round-trip, soundness and simulation proofs; finite CRC sweeps; translator-fed layout theorem; models parametrized by live-read/probed constants (forall bounds); differential testing"),
 "C12": dict(category="proof", design_ref="7 (C12)",
    text="18 Coq theorems (all closed); 11 over ALL finite operation-and-fault histories (fault inputs carry their exception class: Exception-like / BaseException-only) of an executable model of the context and singleton lifecycle (exception monad with catch exactly where "
         "the code has try/except-log): table invariant (unique names, no reservation left, handlers = live names, one worker thread per live object, nothing released twice), duplicate "
         "refused without change, rollback after a failed constructor, remove, stop reclaims everything whatever stop handlers or release steps raise, failed start leaves nothing "
         "behind at QMI_Context and qmi.start level (proved for the repaired behaviour, refuted by witness for the pinned tree); 4 for an operation of another thread racing with stop() "
         "(remove||stop, make||stop): proved for every interleaving of an atomic-region model on 64 listed finite instances (<= 3 objects) by closed-reachable-set reflection, refuted for the "
         "pinned tree's make||stop and for stop() dropping reservations; 3 for calls through proxies racing with remove/stop (caller / stopper / worker LTS, 1-2 callers, by reflection): every request accepted by handle_message is executed or answered with an error reply before the worker ends, every call gets exactly one outcome, no deadlock (C12_call_vs_stop, C12_accepted_request_answered); the variant with the queue hand-over outside the region of the running check is refuted by a reachable stuck state (C12_handover_outside_region_refuted). Tie: real QMI_Context / qmi.start in a forked child "
         "under the deterministic scheduler with the fake network and injected constructor/release/stop-handler/bind/peer faults; after every operation exception class, live QMI "
         "threads, handler and object maps, sockets, singleton, release and stop-handler logs are compared step by step with the model (1.6k history-schedule pairs quick, 26k thorough).",
    note="Trusted: Coq kernel+vm_compute; hand-transcribed model; dsched fake loop/network; harness stubs; the concurrent clause is weaker than the sequential ones (finite instances, one racing operation, sampled schedules with line-level yields + DFS with <= 2 preemptions; "
         "make||make, remove||remove and races with start are not covered); the call model is proved for remove and stop with <= 2 callers (3 sampled), its trace acceptance covers local callers (peer-context callers are judged by the oracle alone) and requires the hand-over (running check + push) to be one region under _stop_lock. The failed-start defect, the make||stop registration race and stop() aborted by a BaseException-only stop handler (singleton stuck, threads and ports leaked) found here were repaired by fix: commits.",
    technique="inductive invariant over histories with an exception monad + finite LTS reflection for the concurrent clauses (operation||stop, caller||remove/stop) + observation/trace correspondence of lock-region-level effects under dsched with line-level switch points"),
 "C19": dict(category="proof", design_ref="7 (C19)",
    text="8 generic Coq theorems (all closed): the abstract post analyser of the open/close effect language is sound AND complete for every fault placement; if the boolean conditions "
         "ok_open/ok_close hold then for every sequence of open/close/is_open calls and every fault placement is_open() = link held, a failing open leaves (closed, released) or "
         "(open, held), wrong-state open/close raise and change nothing. Per-driver obligations: the open()/close() programs of ALL 62 transport-based driver classes (63 program pairs) "
         "are REGENERATED from the source on every run by a fail-closed MRO-aware ast translator and ok_open/ok_close is decided per class by vm_compute (one lemma each). Classes whose "
         "obligation is refuted are genuine defects, each reproduced on the real class with the fault index the analyser reports. Tie: every class is instantiated with a recording fake "
         "transport; a fault is injected at every k-th transport call of open() and close(); every observed final state must lie in the model's post set. "
         "Closed-instrument clause: every @rpc_method (1356 methods, 286 helpers) of every transport-based class is REGENERATED into a second effect language (loops, return, break/continue; "
         "MDev = operation through the transport or a protocol object around it, refused when the link is released; MEff = any other resource; MIo = other code) and closed_safe is decided "
         "per method by vm_compute; C19_closed_safe: closed_safe p = true implies every execution from (closed, released) ends in that state with nothing touched; C19_method_keeps_state; "
         "C19_method_outcomes. Tie: every RPC method of every class is called on the closed real instance (arguments synthesised from annotations): no transport call may get through, no "
         "resource may be created, the observed outcome must be one the method's program allows. The model's primitives LinkOpen/LinkClose are tied to the REAL link-establishment code of five concrete transports (QMI_TcpTransport, QMI_UdpTransport, QMI_SerialTransport, QMI_Vxi11Transport, QMI_PyUsbTmcTransport): their real open()/_open_transport()/close() run on recording fakes of socket.socket / create_connection / gethostbyname, serial.Serial, vxi11.Instrument and qmi.core.usbtmc.Instrument with a fault injected at every OS primitive call; after a failed open nothing it created is still open and the transport is marked closed, a successful open holds exactly one link, close (also a failing one) releases everything.",
    note="Trusted: Coq kernel+vm_compute; the ast translator (validated each run by the fault-injection correspondence and by the closed-method calls; base-class shapes re-checked); the fake transport (real QMI_Transport open/close/_check_is_open logic). "
         "NOT tied at link level: the pyvisa transports (QMI_VisaUsbTmcTransport, GPIB/VISA, Windows-only) and the USB layer inside qmi.core.usbtmc.Instrument. Six genuine socket leaks found by the link-level tie (TCP/UDP open failing other than by a connect timeout) were repaired by a fix: commit. Assumed and checked where possible: transports refuse I/O when closed (C13's subject; surveyed in the evidence); the model's primitives are checked behaviourally against the real QMI_Instrument and QMI_Transport and every transport subclass on every run (all flag values, hook or resource failing or not); protocol objects reach the device only through their transport (AST-checked); None-able resource attributes are None when closed (checked on the real class after construction, open/close and every call). I/O statements are "
         "abstracted as 'may raise, do not change flag or link'; single device link per instrument; the tclab retry loop is unrolled 3 times. 21 driver defects were found: 4 repaired by "
         "fix: commits, 17 recorded per class as open known findings.",
    technique="effect-language translation + sound/complete abstract post analyser for open/close and a sound outcome/touch analyser (with loops) for RPC methods; per-class and per-method reflection; exhaustive fault-index injection; every RPC method called on the closed real class; real link-establishment code on fake OS primitives with per-primitive fault injection"),
 "C01": dict(category="proof", design_ref="7 (C01)",
    text="Coq theorems on an executable transition system of the RPC call pipeline of one object (25 labels = atomic regions of rpc.py / messaging.py / context.py: issue, hand-off to the "
         "socket thread, wire, queue, worker pop/exec/reply/reject, pending table, removal, context stop, connection loss; any number of local and remote caller threads and calls; "
         "arbitrary request table saying what can be pickled and what each body yields): a future never holds two outcomes and an outcome is final; a call only receives the outcome of "
         "its own request or a delivery error; the pinned tree loses calls (refuted by witness; repaired); on the repaired tree every issued call without outcome is accounted for in a stage "
         "or the pending table, some continuation step is always enabled (no call waits forever) and a measure bounds the continuation (see evidence for which of these are discharged). "
         "Tie: real contexts, proxies, worker and socket threads run under the deterministic scheduler with the fake network while the main thread removes the object / stops a context / "
         "disconnects; the event trace recorded by outside probes must be a run of the model ending in the same outcomes and execution log (420 schedules quick, 7200 thorough); "
         "independent oracle: exactly one outcome of an allowed class per call, no deadlock, no second assignment, surviving object serves.",
    note="Trusted: Coq kernel+vm_compute; hand-written model validated by trace acceptance; dsched + fake loop/network (orderly loss only; sending to a closed peer fails at once); probes in "
         "harness/rpcsim.py; one client connection; method bodies terminate; no rpc_timeout. Three defects found (unpicklable argument, unpicklable result, request handed to a stopping "
         "socket thread: caller waited forever) were repaired by fix: commits.",
    technique="labelled transition system + inductive invariants in Coq; trace acceptance of real schedules under a deterministic scheduler"),
 "C02": dict(category="proof", design_ref="7 (C02)",
    text="PARTIAL. Proved in Coq (all closed): one hop over a connection leaves payload, source object and destination object untouched and rewrites exactly the two context names; a reply "
         "returns to the very future that issued the request; generated future addresses are pairwise distinct; after any history of client contexts connecting and disconnecting the aliases of live incoming connections are pairwise distinct, "
         "never re-used, and a reply addressed to an alias is written to the connection that was given it (tied to the real _SocketManager); under any number of concurrent callers in either placement a future holds "
         "what executing ITS OWN request yields (corollary of the C01 model). Value fidelity of pickling is an assumed law (hypothesis), tested not proved: generated scalars, bytes, nested "
         "containers, numpy arrays/scalars, named tuples, enums, exceptions pushed through direct call / local proxy / remote proxy x blocking / non-blocking must come back equal in type and "
         "value; concurrent callers with distinguishable arguments under seeded schedules each get their own outcome. Tie of the hop model: two real _PeerTcpConnection objects, names from a small pool incl. forged source/destination; "
         "clients connecting / disconnecting / reconnecting while others call (real contexts under dsched).",
    note="Trusted: Coq kernel+vm_compute; CPython pickle (assumed law); dsched + fake network; rpc_timeout is a documented reserved keyword of the blocking proxy and is not forwarded.",
    technique="record-level Coq lemmas + corollary of the RPC transition system; differential direct/local/remote testing"),
 "C03": dict(category="proof", design_ref="7 (C03)",
    text="4 Coq theorems (all closed) on the shared RPC pipeline model, for every reachable state, any number of local and remote callers and calls, blocking or not, every interleaving with "
         "removal/stop/disconnect: per calling thread the execution log is in issue order; if b runs after a and both come from one thread then a was issued first; no request is executed "
         "twice; the pipeline invariant (per caller everything still on its way is in issue order behind what has run). Tie: as C01 (trace acceptance incl. equality of the execution log) on "
         "scenarios with 1-4 threads per context and bursts of non-blocking calls; oracle: method bodies never overlap (enter/exit records) and are entered in issue order per thread.",
    note="Trusted: as C01. Hypothesis of the theorems: a calling thread lives in one context. Serial execution is structural in the model (one worker); that the real worker never overlaps "
         "bodies is observed, not proved. Fairness between callers is not claimed.",
    technique="inductive invariant (sorted filtered pipeline) in Coq; trace acceptance under a deterministic scheduler"),
 "C10": dict(category="proof", design_ref="7 (C10)",
    text="28 Coq theorems (all closed) for every interleaving of the runner's operations with the task thread's steps over an abstract value type, from one inductive invariant: run() at most "
         "once and only after a successful start; stop first => never run and later start refused; second start refused; join enabled iff the thread exited and raises the task-run error iff "
         "run ended with an exception other than the stop exception; is_running exactly in RUNNING; update_settings true iff a value was posted since the previous update and then the newest "
         "value is held, whole; release only after join; the runner's constructor is part of the system: make_task returns a proxy iff the task constructor succeeded and raises the task-init error iff it raised (any BaseException), then the thread has exited, run() is never invoked and nothing is enabled afterwards; the reachable states have exactly 14 shapes (each reached by a witness); from every state with a runner stop is accepted and a stop-honouring task reaches thread exit within 4 internal steps (rank argument), join then reports the run error iff run() failed. QMI_LoopTask: the missed-period arithmetic of run() over integer ticks for all inputs - IMMEDIATE re-bases to now+period, SKIP advances to the first grid point strictly after now (minimality proved: no off-by-one), TERMINATE makes the first missed period the last iteration and loop_finalize runs, next_time is in the future at every iteration entry and stays on the grid. Tie: real QMI_Context + make_task with scripted task classes under the deterministic scheduler (random, PCT, DFS with preemption "
         "bound); every operation placed at its linearisation point; the model must accept the trace with equal results, run() count and thread-exit flag; a share of the schedules and two exhaustive DFS scenarios switch at source-line granularity inside update_settings / set_settings / get_pending_settings / _TaskThread.run/start_task/stop_task; the exception class raised by run() and by the task constructor is an input (Exception, custom BaseException, SystemExit, KeyboardInterrupt, stop exception and subclass); real QMI_LoopTask subclasses under virtual time with scripted iteration durations, run()'s next_time read at every iteration; independent oracles.",
    note="Trusted: Coq kernel+vm_compute; hand model; dsched; observation hooks in c10.py. Each label is assumed atomic (regions under _state_cond, Event ops, single deque ops); the RPC worker "
         "serialises runner methods; task scripts terminate; a join() on a task that is never started nor stopped is observed as blocked for ever, meaning either a scheduler dead-lock or the virtual clock passing T_MAX = 3600 s without the operation returning (the model has it as a disabled step). Posted settings values are drawn from a small pool with repeats incl. the task's initial value, in three equal-by-content representations; a post is an event, values are compared by content.",
    technique="LTS with inductive invariant over label lists and a rank argument for termination; trace acceptance at linearisation points with line-level DFS; functional model of the loop-task arithmetic checked against real runs under virtual time"),
 "C05": dict(category="proof", design_ref="7 (C05)",
    text="9 generic Coq theorems (all closed) over a model of Python attribute lookup along the MRO (type.__getattribute__ for what inspect.getmembers/make_interface_descriptor "
         "advertises, object.__getattribute__ for what _check_and_get_method dispatches), the worker step and proxy construction: a request naming a non-dispatchable name executes "
         "nothing and gets the unknown-RPC reply; along every history every executed call named a marked member; under the boolean side condition class_ok advertised = dispatchable and "
         "the proxy's forwarding methods are exactly the advertised names; a marked lock-control name makes descriptor construction fail and the proxy's own lock/unlock/force_unlock/"
         "is_locked are never overwritten; for any list of objects of any classes and any history of requests and lock changes addressed to any of them the verdict on a request depends only on the target object's class table and instance dictionary (C05_history_independent, C05_verdict_depends_on_table_and_dict_only). Per-class obligations: class_ok = true by vm_compute for ALL 94 QMI_RpcObject subclasses importable from qmi.* (context object, task runner, "
         "90 instrument classes), the member tables REGENERATED from the live classes on every run (translator: __mro__/__dict__ walk + ast scan of self.x assignments). Tie: all 94 shipped "
         "classes instantiated with stubs (sys.modules stand-ins for the vendor libraries missing here) and 237 generated and fixed classes per run (fixed inheritance shapes: protected and marked names from intermediate bases, grandparents and mix-ins before/after the RPC base) are probed with every name in dir(obj) + advertised + junk names through the real handlers, descriptor "
         "and proxy (44k requests) and compared with the model; fixed history bucket (14 live objects in one process, every ordered pair of objects P,Q,P and of names n1,n2,n1: 7938 requests, also evaluated by the Coq multi-object system sys_run) and fixed exotic-name bucket (very long names, NUL, dunder names, str subclasses); independent per-request oracle.",
    note="Trusted: Coq kernel+vm_compute; hand model of attribute lookup; the translator (validated each run against the real handlers); non-string method names are outside the quantifier (observed: refused with TypeError, nothing executed; counted only); assumptions A1-A3 (values read from properties/slots/instance dict carry no truthy _rpc_method; vars(obj) within the scanned names) are checked each run. "
         "The defect found (property getters evaluated before the marker check) was repaired by a fix: commit.",
    technique="MRO member-table model, generic theorems (incl. history independence over a multi-object system) + per-class reflection, translator, differential probing of the real handlers, descriptor and proxy"),
 "C07": dict(category="proof", design_ref="7 (C07)",
    text="16 Coq theorems (all closed) on an executable transition system of SignalManager (one handler or lock region per step; four tables keyed by the real dot-joined strings and tested "
         "with startswith; delivery log; FIFO channels between two full contexts): for every input sequence of a context (any interleaving of threads at lock-region granularity, any peer "
         "messages) each publication gives exactly one record with the published fields to exactly the receivers stored for that signal when the snapshot is taken; at most one message per "
         "subscribed peer (exactly one unless the peer vanished) and on delivery exactly one record per receiver subscribed there; no record of a publication snapshotted after unsubscribe; "
         "per-thread order locally and, end to end over two contexts with FIFO channels and connects/closes at any position, at every remote receiver (C07_remote_order); valid names contain no '.', dot-joined keys are injective and the prefix tests select exactly the intended entries. "
         "Tie: H2 message-level simulation of real SignalManager instances on stub contexts with harness-owned FIFO queues (exhaustive short and random histories on 1-3 contexts, other "
         "operations run re-entrantly at every lock-free point of a running publish), compared label by label with the model; real QMI_Context thread schedules under dsched; independent "
         "event-log oracle (each receiver queue = projection of the global publish/subscribe log).",
    note="Trusted: Coq kernel+vm_compute; hand model; H2 harness network and dsched; fresh request ids; atomic lock regions; honest peers. Half of the real-context thread schedules add line-level switch points inside five SignalManager "
         "methods. The H2 stub router keeps the message OBJECTS until the handler invocation is over and transmits them as the socket thread would (re-use or mutation of a message after hand-off is detected); fixed buckets with 2-3 subscriber contexts on one signal and with prefix-named signals; 300 schedules of one publisher context fanning out to 2-3 subscriber contexts. Object removal is one model step: hypothesis = the subscription clean-up runs while the name is still reserved (no same-named object can be created between the release of the name and the clean-up of the previous incarnation); it is stated in the model and checked by Corr.lifecycle_ok on the recorded object-map events of every schedule of the remove-and-re-create family (240 schedules of real contexts with a slow release and line-level switch points in remove_rpc_object / make_rpc_object / handle_object_removed, exactly-once in-order oracle for the receivers of the re-created publisher). Queue overflow (C09) and pickling are outside. Correspondence compares handler outputs per peer, API outcomes and tables up to a consistent renaming of request ids, and accepts a subscribe that is refused either before or after a request is registered (same exception, nothing stored). The H2 stub context answers the public QMI_Context surface from the simulated network and reports any further dependency as a broken tie.",
    technique="inductive invariants over an executable transition system; H2 message simulation + deterministic scheduler"),
 "C08": dict(category="proof", design_ref="7 (C08)",
    text="14 Coq theorems (all closed). Main theorem C08_quiescent, proved in full for two complete contexts and every finite history (subscribe, unsubscribe incl. re-subscribe while the "
         "unsubscribe is pending, publish, remove object, deliver, connect, close at any position, each end closing on its own): whenever nothing is in flight and no request is outstanding, "
         "a context lists the peer as subscriber of a signal exactly when some receiver there is subscribed — via a per-signal protocol invariant proved inductive over the two-node system. "
         "The same equivalence is proved for a publisher context with any number of subscriber contexts (star topology) in the N-context system (C08_quiescent_star). "
         "Also: table consistency on one node for arbitrary (even hostile) inputs; a reply always answers a pending request; unknown publisher => subscription error and nothing stored at "
         "either end; cleanup after object removal and after peer loss at both ends; every blocked subscribe is accounted for through every step and returns once channels are empty. "
         "Tie: as C07 (about 2400 cases per run, probe publications at quiescent points, 900 schedules of blocked subscribers while the peer disconnects / stops / removes the publisher).",
    note="Trusted: as C07. Proof covers two contexts and star topologies at handler granularity; a context subscribed to several publisher contexts at once is covered by correspondence and oracle only; a reconnect is assumed only after both "
         "ends have closed. Peer loss with several subscriber contexts on one signal is covered by a fixed fan-out bucket. Same removal hypothesis and tie as C07 (160 schedules of the remove-and-re-create family); a subscribe that joins a local subscription while the removal notice of the previous incarnation of a same-named publisher is still in flight is ended by that notice (modelled; re-creation of a name is outside the property's quantifier). Correspondence compares handler outputs per peer, API outcomes and tables up to a consistent renaming of request ids, and accepts a subscribe that is refused either before or after a request is registered (same exception, nothing stored). The H2 stub context answers the public QMI_Context surface from the simulated network and reports any further dependency as a broken tie. One defect below handler granularity (removal notice overtaking the subscribe reply: stale subscription) was found by the thread-level oracle and repaired by a fix: commit.",
    technique="per-signal protocol invariant over a two-node transition system; H2 simulation + deterministic scheduler"),
 "C17": dict(category="proof", design_ref="7 (C17)",
    text="PARTIAL. 14 Coq theorems (all closed; all inputs / histories / interleavings) on an executable model of the parts of the property that are logic: (a) text-header attribute codec "
         "(CPython repr for str/int and the reader's regex substitution): parse_attr (py_repr a) = a, refuted for the pinned reader on non-printable characters beyond U+FFFF and proved for "
         "the repaired reader; header line splitting; (b) special-column layout: index columns = row-major coordinates (what the reader verifies), unflatten (flatten a) = a for every "
         "shape, scale columns; (c) datastore over a path map: make_folder never returns an existing folder, writes without overwrite never change an existing path, find_latest_folder "
         "returns the greatest (date,time) for the label (fixed-width decimal order = numeric order); (d) recorder split into Swap (under the lock) and Write: at every moment of every "
         "interleaving file ++ being written ++ queued = recorded per dataset, after close the file holds the recorded blocks once each in order, the thread ends within three steps. "
         "Tie: the real dataset/datastore functions on generated datasets through the five file chains in a scratch store (equality oracle), every header line and ~1500 damaged attribute "
         "texts against (a), all 84 outer shapes against (b), 300 store histories against (c); the real HDF5 recorder (real h5py) under the deterministic scheduler with 1-3 recording "
         "threads and line-level switch points against (d).",
    note="PARTIAL: value fidelity of h5py/HDF5, numpy savetxt/loadtxt/reshape, float()/repr(float), str.isprintable, file encoding and OS exclusive-create are assumed and only exercised. "
         "Float attributes are atoms under stated hypotheses; int64 beyond 2**53 via text, NUL/surrogates via HDF5, NaN, record() concurrent with close(), cross-process races are outside. "
         "Trusted: Coq kernel+vm_compute, hand model, harness c17.py, dsched. Two defects found (numpy-scalar repr in text headers; \\U escapes not parsed) were repaired by fix: commits.",
    technique="round-trip / order / invariant proofs by induction over an executable model; correspondence by vm_compute; recorder trace acceptance under a deterministic scheduler"),
}

REASONS = {"C17": "package being built (model of header codec, datastore, recorder; see DESIGN.md 7 C17) - will be claimed as partial"}

def main():
    checks, na = [], []
    for p in props:
        pid = p["id"]
        if pid in CLAIMED:
            c = CLAIMED[pid]
            checks.append({
                "property_id": pid,
                "quick_cmd": "./check %s --tier quick" % pid,
                "thorough_cmd": "./check %s --tier thorough" % pid,
                "evidence_file": "/verif/evidence/%s.json" % pid,
                "replay_cmd_template": "./check %s --replay {path}" % pid,
                "engine": "coq-model-correspondence",
                "level_claimed": {"category": c["category"], "text": c["text"], "design_ref": c["design_ref"]},
                "level_note": c["note"],
                "technique": c["technique"],
            })
        else:
            na.append({"property_id": pid, "reason": REASONS.get(pid, "check not built yet (work in progress; DESIGN.md section 7 gives the planned model and theorems)")})
    m = {"version": 1,
         "setup_cmd": "make -C /verif setup",
         "hooks": {"guard": "QMI_VERIF",
                   "enable": "no source hooks are used: checks import QMI from /repo's working tree (PYTHONPATH=/repo) and observe it from outside",
                   "baseline_off_cmd": "cd /repo && /venv/bin/python -m pytest -ra -q -p no:cacheprovider --timeout=900 --continue-on-collection-errors",
                   "source_commits": [], "add_only": True},
         "engines": [{"name": "coq-model-correspondence", "path": "/verif/check",
                      "serves_properties": sorted(CLAIMED),
                      "kind_free_text": "Coq 8.16.1 theories (coq/theories/<ID>/{Model,Proofs*,Properties,Corr}.v; translator output in coq/gen for C05, C14, C19) + python harness "
                                        "(harness/<id>.py on harness/common.py) running real QMI code and the model (coqc vm_compute on generated case files) on the same cases"},
                     {"name": "dsched", "path": "/verif/harness/dsched.py",
                      "serves_properties": ["C01", "C02", "C03", "C04", "C07", "C08", "C09", "C10", "C11", "C12", "C17"],
                      "kind_free_text": "deterministic scheduler for real QMI threads: cooperative Lock/RLock/Condition/Event, virtual time, fake asyncio loop and in-memory "
                                        "TCP/UDP sockets patched into qmi.* namespaces inside a forked child per schedule; random / PCT / replay strategies, stateless DFS with a "
                                        "preemption bound, optional line-level scheduling points"}],
         "checks": checks,
         "notes": "See DESIGN.md. Evidence level 'proof' = theorems about the Coq model + measured model/implementation correspondence.",
         "not_applicable": na}
    json.dump(m, open(os.path.join(V, "MANIFEST.json"), "w"), indent=1)
    import jsonschema
    jsonschema.validate(m, json.load(open("/root/.vp/MANIFEST.schema.json")))
    print("MANIFEST ok: %d checks, %d not claimed" % (len(checks), len(na)))
main()
