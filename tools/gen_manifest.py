#!/usr/bin/env python3
"""Regenerates /verif/MANIFEST.json from the table below (single source of truth)."""
import json, os
V = os.path.dirname(os.path.dirname(os.path.abspath(__file__)))
props = [json.loads(l) for l in open(os.path.join(V, "properties.jsonl"))]

CLAIMED = {
 "C09": dict(
    category="proof", design_ref="7 (C09)",
    text="Coq theorems (induction over unbounded histories, every capacity > 0, both policies) on an executable "
         "model of QMI_SignalReceiver: bound, arrival counting, strictly increasing numbers, payload = n-th arrival, gap, "
         "get-iff-nonempty, oldest-first, policy on overflow. Tie: the model is evaluated by coqc/vm_compute on the same "
         "histories as the real class (exhaustive small scope + random) and must give identical outputs; an independent "
         "oracle re-states the property on the implementation's observations.",
    note="Trusted: Coq kernel + vm_compute; hand-written model tied by differential runs (generator-bounded); python harness; "
         "CPython deque/Condition. Blocking wait path is covered under C11, not here. No axioms (all theorems closed).",
    technique="Coq proof by induction over operation histories + model/implementation correspondence by vm_compute"),
}

REASONS = {}

def main():
    checks, na = [], []
    for p in props:
        pid = p["id"]
        if pid in CLAIMED:
            c = CLAIMED[pid]
            checks.append({
                "property_id": pid,
                "quick_cmd": "./check %s --tier quick" % pid,
                "thorough_cmd": "./check %s --tier thorough" % pid,
                "evidence_file": "/verif/evidence/%s.json" % pid,
                "replay_cmd_template": "./check %s --replay {path}" % pid,
                "engine": "coq-model-correspondence",
                "level_claimed": {"category": c["category"], "text": c["text"], "design_ref": c["design_ref"]},
                "level_note": c["note"],
                "technique": c["technique"],
            })
        else:
            na.append({"property_id": pid, "reason": REASONS.get(pid, "check not built yet (work in progress; DESIGN.md section 7 gives the planned model and theorems)")})
    m = {"version": 1,
         "setup_cmd": "make -C /verif setup",
         "hooks": {"guard": "QMI_VERIF",
                   "enable": "no source hooks are used: checks import QMI from /repo's working tree (PYTHONPATH=/repo) and observe it from outside",
                   "baseline_off_cmd": "cd /repo && /venv/bin/python -m pytest -ra -q -p no:cacheprovider --timeout=900 --continue-on-collection-errors",
                   "source_commits": [], "add_only": True},
         "engines": [{"name": "coq-model-correspondence", "path": "/verif/check",
                      "serves_properties": sorted(CLAIMED),
                      "kind_free_text": "Coq 8.16.1 theories (coq/theories/<ID>/{Model,Proofs,Properties,Corr}.v) + python harness running real QMI code and the model (coqc vm_compute) on the same cases"}],
         "checks": checks,
         "notes": "See DESIGN.md. Evidence level 'proof' = theorems about the Coq model + measured model/implementation correspondence.",
         "not_applicable": na}
    json.dump(m, open(os.path.join(V, "MANIFEST.json"), "w"), indent=1)
    import jsonschema
    jsonschema.validate(m, json.load(open("/root/.vp/MANIFEST.schema.json")))
    print("MANIFEST ok: %d checks, %d not claimed" % (len(checks), len(na)))
main()
