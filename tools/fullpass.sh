#!/bin/sh
# Full self-assessment pass (long): every mutant and seeded change must be caught, every benign / neutral change should
# be quiet, with the seed the acceptance harness exports (VERIF_SEED=1 by default).
cd "$(dirname "$0")/.."
export VERIF_SEED="${VERIF_SEED:-1}"
make setup >/dev/null 2>&1
echo "== selftest (seed $VERIF_SEED)"; tools/selftest.sh
echo "== benign"; tools/benign_test.sh
echo "== neutral"; BENIGN_DIR=neutral tools/benign_test.sh
