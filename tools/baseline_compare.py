#!/usr/bin/env python3
"""Compare a junit xml of the repository's test suite with /root/.vp/BASELINE.json stable_pass."""
import json, sys, xml.etree.ElementTree as ET
b = json.load(open('/root/.vp/BASELINE.json'))
stable = set(b['stable_pass'])
passed = set()
for tc in ET.parse(sys.argv[1]).iter('testcase'):
    if not [c.tag for c in tc if c.tag in ('failure', 'error', 'skipped')]:
        passed.add(tc.get('classname') + '::' + tc.get('name'))
missing = sorted(stable - passed)
print("stable_pass %d, passed now %d, stable tests not passing now: %d" % (len(stable), len(passed), len(missing)))
for m in missing[:30]:
    print("  ", m)
sys.exit(1 if missing else 0)
