#!/usr/bin/env python3
"""Confirm a seeded change written by an independent sub-agent and record it under /verif/seeded/<ID>/.

usage: tools/verify_seed.py <ID> [--out DIR] [--full-tests] [--name SUFFIX]
  DIR defaults to /var/tmp/seedout-<ID> and must hold patch.diff, demo.py, meta.json.
Steps (all in a scratch worktree of /repo outside /repo and /verif, removed afterwards):
  1. demo on the unchanged tree must exit 0;
  2. apply patch.diff; demo must exit non-zero;
  3. tests: the test directories touched by the patch's area (or the whole suite with --full-tests) must
     not lose any test that passes on the unchanged tree (compared against /root/.vp/BASELINE.json stable_pass);
  4. run `./check <ID>` against the patched tree and record whether it reports a VIOLATION (and which lines).
Nothing is ever applied to /repo itself.
"""
import json
import os
import shutil
import subprocess
import sys
import time

V = os.path.dirname(os.path.dirname(os.path.abspath(__file__)))


def sh(cmd, **kw):
    p = subprocess.run(cmd, shell=True, stdout=subprocess.PIPE, stderr=subprocess.STDOUT, text=True, **kw)
    return p.returncode, p.stdout


def main():
    args = sys.argv[1:]
    pid = args[0]
    out = "/var/tmp/seedout-%s" % pid
    full = "--full-tests" in args
    name = pid
    if "--out" in args:
        out = args[args.index("--out") + 1]
    if "--name" in args:
        name = pid + "-" + args[args.index("--name") + 1]
    wt = "/var/tmp/seedverify-%s-%d" % (pid, os.getpid())
    res = {"property": pid, "verified_at": time.strftime("%Y-%m-%d %H:%M:%S")}
    meta = json.load(open(os.path.join(out, "meta.json")))
    rc, o = sh("git -C /repo worktree add -q --detach %s HEAD" % wt)
    assert rc == 0, o
    try:
        env = "cd %s && PYTHONPATH=%s PYTHONHASHSEED=0 timeout 300 /venv/bin/python %s/demo.py" % (wt, wt, out)
        rc0, o0 = sh(env)
        res["demo_unchanged_exit"] = rc0
        rc, o = sh("git -C %s apply %s/patch.diff" % (wt, out))
        res["patch_applies"] = rc == 0
        if rc != 0:
            res["error"] = o[-500:]
        rc1, o1 = sh(env)
        res["demo_changed_exit"] = rc1
        res["demo_changed_tail"] = o1[-400:]
        # tests
        junit = "/var/tmp/seedverify-%s.xml" % pid
        if full:
            tdirs = "tests"
        else:
            files = [l[6:] for l in open(os.path.join(out, "patch.diff")) if l.startswith("+++ b/")]
            tdirs = set()
            for f in files:
                parts = f.strip().split("/")
                if parts[:2] == ["qmi", "core"]:
                    tdirs.add("tests/core")
                elif parts[:2] == ["qmi", "instruments"] and len(parts) > 2:
                    tdirs.add("tests/instruments/" + parts[2])
                    tdirs.add("tests/core")
                elif parts[:2] == ["qmi", "utils"]:
                    tdirs.add("tests/utils")
                elif parts[:2] == ["qmi", "data"]:
                    tdirs.add("tests/data")
                else:
                    tdirs.add("tests")
            tdirs = " ".join(sorted(d for d in tdirs if os.path.isdir(os.path.join(wt, d)))) or "tests"
        rc, o = sh("cd %s && PYTHONPATH=%s /venv/bin/python -m pytest -q -p no:cacheprovider --timeout=900 "
                   "--continue-on-collection-errors --junitxml=%s %s" % (wt, wt, junit, tdirs))
        res["tests_cmd"] = "pytest %s (in the patched worktree)" % tdirs
        res["tests_tail"] = o.strip().splitlines()[-1] if o.strip() else ""
        # compare with stable_pass restricted to what was run
        import xml.etree.ElementTree as ET
        stable = set(json.load(open("/root/.vp/BASELINE.json"))["stable_pass"])
        ran, passed = set(), set()
        for tc in ET.parse(junit).iter("testcase"):
            n = tc.get("classname") + "::" + tc.get("name")
            ran.add(n)
            if not [c for c in tc if c.tag in ("failure", "error", "skipped")]:
                passed.add(n)
        lost = sorted((stable & ran) - passed)
        # tests using real sockets are unreliable while many processes run in parallel: re-run the lost ones alone
        for attempt in range(2):
            if not lost:
                break
            ids = []
            for n in lost:
                cls, tname = n.split("::")
                parts = cls.split(".")
                ids.append("/".join(parts[:-1]) + ".py::" + parts[-1] + "::" + tname)
            rc, o2 = sh("cd %s && PYTHONPATH=%s /venv/bin/python -m pytest -q -p no:cacheprovider --timeout=900 --junitxml=%s %s"
                        % (wt, wt, junit, " ".join("'%s'" % i for i in ids[:200])))
            again = set()
            for tc in ET.parse(junit).iter("testcase"):
                if not [c for c in tc if c.tag in ("failure", "error", "skipped")]:
                    again.add(tc.get("classname") + "::" + tc.get("name"))
            res.setdefault("retried_alone", []).append({"n": len(lost), "passed": len(set(lost) & again)})
            lost = sorted(set(lost) - again)
        res["stable_tests_run"] = len(stable & ran)
        res["stable_tests_lost"] = lost[:20]
        os.remove(junit)
        # the check
        rc, o = sh("cd %s && QMI_REPO=%s VERIF_NO_EVIDENCE=1 ./check %s" % (V, wt, pid))
        lines = [l for l in o.splitlines() if l.startswith("VIOLATION") or l.startswith("  ->")]
        res["check_exit"] = rc
        res["check_caught"] = any(l.startswith("VIOLATION") for l in lines)
        res["check_lines"] = lines[:8]
    finally:
        sh("git -C /repo worktree remove --force %s" % wt)
    ok = (res.get("demo_unchanged_exit") == 0 and res.get("patch_applies") and res.get("demo_changed_exit") not in (0, None)
          and not res.get("stable_tests_lost"))
    res["confirmed"] = bool(ok)
    print(json.dumps(res, indent=1))
    if ok:
        d = os.path.join(V, "seeded", name)
        os.makedirs(d, exist_ok=True)
        for f in ("patch.diff", "demo.py"):
            shutil.copy(os.path.join(out, f), os.path.join(d, f))
        meta["confirmation"] = res
        json.dump(meta, open(os.path.join(d, "meta.json"), "w"), indent=1)
        print("kept as", d)
    return 0 if ok else 1


if __name__ == "__main__":
    sys.exit(main())
