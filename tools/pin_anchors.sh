#!/bin/sh
# Refresh /verif/anchors/qmi: the copy of /repo's Python sources the harnesses are written against (used ONLY by
# harness/alpha.py to recognise consistent renames of private names in the tree under test). Run after every fix: commit.
cd "$(dirname "$0")/.."
rm -rf anchors/qmi; mkdir -p anchors
(cd /repo && git ls-files 'qmi/*.py' 'qmi/**/*.py' | tar cf - -T -) | tar xf - -C anchors
git -C /repo rev-parse HEAD > anchors/PINNED_COMMIT
echo "pinned $(find anchors/qmi -name '*.py' | wc -l) files at $(cat anchors/PINNED_COMMIT)"
