#!/bin/sh
# Robustness self-test: apply every benign/<ID>/*.diff (behaviour-preserving rewrites written by independent sub-agents
# that saw only the property text) to a scratch worktree and run the property's check against it. A check must stay
# quiet on them; "ALARM" means the machinery is over-fitted to the source text (or the rewrite is not harmless after all).
# Usage: tools/benign_test.sh [ID ...]
cd "$(dirname "$0")/.."
D="${BENIGN_DIR:-benign}"   # BENIGN_DIR=neutral runs the behaviour-changing but property-preserving corpus
IDS="$*"; [ -z "$IDS" ] && IDS="$(ls $D 2>/dev/null | grep '^C[0-9]' | sort -u)"
for id in $IDS; do
  for m in $D/$id/*.diff; do
    [ -f "$m" ] || continue
    if ! git -C /repo apply --check "$(realpath "$m")" 2>/dev/null; then echo "$m: not-applicable (does not apply to current /repo)"; continue; fi
    out="$(tools/try_patch.sh "$m" "$id" 2>&1)"
    if echo "$out" | grep -q '^VIOLATION'; then echo "$m: ALARM"; echo "$out" | grep -A1 '^VIOLATION' | head -6 | sed 's/^/     /';
    elif echo "$out" | grep -q "^$id: OK"; then echo "$m: quiet"; else echo "$m: BROKEN (no verdict)"; echo "$out" | tail -5 | sed 's/^/     /'; fi
  done
done
