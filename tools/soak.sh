#!/bin/sh
# Seed soak: run the quick tier of the given checks (default: all) with several seeds on the unchanged tree; any
# VIOLATION line printed here is a false alarm of the machinery or a genuine defect and must be resolved.
# Usage: tools/soak.sh "<seeds>" [ID ...]   (evidence is not rewritten)
cd "$(dirname "$0")/.."
SEEDS="$1"; shift
IDS="$*"; [ -z "$IDS" ] && IDS="C01 C02 C03 C04 C05 C06 C07 C08 C09 C10 C11 C12 C13 C14 C15 C16 C17 C18 C19 C20"
make setup >/dev/null 2>&1
for s in $SEEDS; do
  for id in $IDS; do
    out="$(VERIF_SEED=$s VERIF_NO_EVIDENCE=1 ./check $id 2>&1)"
    echo "seed=$s $(echo "$out" | grep "^$id:" | tail -1)"
    echo "$out" | grep -A1 '^VIOLATION' | sed "s/^/   seed=$s /"
  done
done
