#!/usr/bin/env python3
"""Rewrites the 'Seeded changes' table of DESIGN.md (between the markers) from seeded/*/meta.json."""
import json, os, re, glob
V = os.path.dirname(os.path.dirname(os.path.abspath(__file__)))
rows = []
for d in sorted(glob.glob(os.path.join(V, "seeded", "*"))):
    m = json.load(open(os.path.join(d, "meta.json")))
    c = m.get("confirmation", {})
    name = os.path.basename(d)
    lines = [l for l in c.get("check_lines", []) if l.startswith("  ->")]
    how = (lines[0][5:] if lines else "").replace("|", "/")
    how = re.sub(r"\s+", " ", how)[:160]
    caught = "caught" if c.get("check_caught") else "**missed**"
    extra = m.get("strengthening", "")
    rows.append("| %s | %s | %s | %s%s | %s |" % (name, re.sub(r"\s+", " ", m.get("summary", ""))[:230].replace("|", "/"),
                                             re.sub(r"\s+", " ", str(m.get("needs", "")))[:200].replace("|", "/"), caught,
                                             (" — " + how) if how else "", extra.replace("|", "/")))
table = ("| Seed | Change (written by an independent sub-agent that saw only the property text) | Needs to manifest | Check `./check <ID>` on the changed tree | Strengthening it prompted |\n"
         "|---|---|---|---|---|\n" + "\n".join(rows) + "\n")
p = os.path.join(V, "DESIGN.md")
s = open(p).read()
a, b = "<!-- SEEDED-TABLE-BEGIN -->", "<!-- SEEDED-TABLE-END -->"
if a not in s:
    s = s.replace("---------------------------------------------------------------------------------------------\n\n## 10. Not applicable",
                  "### 9.5 Seeded changes (`seeded/<ID>/`) and which checks catch them\n\n"
                  "Each was confirmed by `tools/verify_seed.py` in a scratch worktree: demonstration passes on the unchanged tree and fails with the change, "
                  "no stable test of the repository's suite is lost, then the check is run against the changed tree.\n\n" + a + "\n" + b + "\n\n"
                  "---------------------------------------------------------------------------------------------\n\n## 10. Not applicable")
s = s[:s.index(a) + len(a)] + "\n" + table + s[s.index(b):]
open(p, "w").write(s)
print("%d seeded changes tabulated" % len(rows))
